"""Implementation-side functions for C13 (run in worker processes; weasyprint imported from REPO)."""
import io, re, zlib, math
from fractions import Fraction
from types import SimpleNamespace

INF = float('inf')


def _q(x):
    """case value -> Fraction / None"""
    return None if x is None else Fraction(x)


def _auto(x):
    return 'auto' if x is None else Fraction(x)


def _mx(x):
    return INF if x is None else Fraction(x)


def _s(x):
    """implementation value -> printable exact value; floats are converted exactly and flagged"""
    if x is None:
        return None
    if isinstance(x, float):
        if math.isinf(x) or math.isnan(x):
            return 'f:' + repr(x)
        return 'f:' + str(Fraction(x))
    if x == 'auto':
        return 'auto'
    return str(Fraction(x))


RAISES = (ZeroDivisionError, TypeError)


def _image(c):
    t = (_q(c['iw']), _q(c['ih']), _q(c['ir']))
    return SimpleNamespace(get_intrinsic_size=lambda resolution, font_size: t)


def constraint(c):
    from weasyprint.layout import replaced
    f = replaced.cover_constraint_image_sizing if c['cover'] else replaced.contain_constraint_image_sizing
    try:
        w, h = f(Fraction(c['cw']), Fraction(c['ch']), _q(c['ir']))
    except RAISES as e:
        return 'raise'
    return [_s(w), _s(h)]


def default_sizing(c):
    from weasyprint.layout import replaced
    def spec(x):
        return 'auto' if x == 'auto' else _q(x)
    try:
        w, h = replaced.default_image_sizing(_q(c['iw']), _q(c['ih']), _q(c['ir']), spec(c['sw']), spec(c['sh']),
                                             Fraction(c['dw']), Fraction(c['dh']))
    except RAISES:
        return 'raise'
    return [_s(w), _s(h)]


def _box(c):
    return SimpleNamespace(
        width=_auto(c['bw']), height=_auto(c['bh']),
        min_width=Fraction(c['minw']), min_height=Fraction(c['minh']),
        max_width=_mx(c['maxw']), max_height=_mx(c['maxh']),
        margin_left=_auto(c['ml']), margin_right=_auto(c['mr']), margin_top=Fraction(0), margin_bottom=Fraction(0),
        padding_left=Fraction(c['pl']), padding_right=Fraction(c['pr']),
        border_left_width=Fraction(c['bl']), border_right_width=Fraction(c['br']),
        position_x=Fraction(0), position_y=Fraction(0), is_column=False,
        style={'image_resolution': 1, 'font_size': 16,
               'width': 'auto' if c['bw'] is None else 'x', 'height': 'auto' if c['bh'] is None else 'x'},
        replacement=_image(c))


def sizing(c):
    """c['fn'] in rbw_raw | rbw | rbh_raw | rbh | mmar | inline ; returns [width, height] after the call or 'raise'"""
    from weasyprint.layout import replaced
    box = _box(c)
    cb = (Fraction(c['cbw']), Fraction(1000))
    fn = c['fn']
    try:
        if fn == 'rbw_raw':
            replaced.replaced_box_width.without_min_max(box, cb)
        elif fn == 'rbw':
            replaced.replaced_box_width(box, cb)
        elif fn == 'rbh_raw':
            replaced.replaced_box_height.without_min_max(box)
        elif fn == 'rbh':
            replaced.replaced_box_height(box)
        elif fn == 'mmar':
            replaced.min_max_auto_replaced(box)
        elif fn == 'inline':
            replaced.inline_replaced_box_width_height(box, cb)
        else:
            raise ValueError(fn)
    except RAISES:
        return 'raise'
    return [_s(box.width), _s(box.height)]


def rb_layout(c):
    from weasyprint.layout import replaced
    from weasyprint.css.properties import Dimension
    def dim(v):
        kind, val = v
        return Dimension(Fraction(val), 'px' if kind == 'px' else '%')
    box = SimpleNamespace(
        width=Fraction(c['bw']), height=Fraction(c['bh']),
        style={'image_resolution': 1, 'font_size': 16, 'object_fit': c['fit'],
               'object_position': (('right' if c['right'] else 'left', dim(c['px']),
                                    'bottom' if c['bottom'] else 'top', dim(c['py'])),)},
        replacement=_image(c),
        content_box_x=lambda: Fraction(c['cx']), content_box_y=lambda: Fraction(c['cy']))
    try:
        out = replaced.replacedbox_layout(box)
    except RAISES:
        return 'raise'
    return [_s(v) for v in out]


# ------------------------------------------------------------------ background layers (direct calls)

class _Rec:
    """records add_pattern arguments; everything else is a no-op returning another recorder"""
    def __init__(self, log, ctm):
        self._log, self.ctm = log, ctm
        self.id = 'x0'
        self.page_rectangle = (0, 0, 1000, 1000)

    def add_pattern(self, *args):
        self._log.append(('pattern', args))
        return _Rec(self._log, self.ctm)

    def add_group(self, *args):
        return _Rec(self._log, self.ctm)

    def transform(self, *args, **kw):
        self._log.append(('transform', args, kw))

    def __getattr__(self, name):
        return lambda *a, **k: None


def bg_layer(c):
    """c: iw ih ir, size ('cover'|'contain'|[sw, sh] with None=auto or (kind, val)), pw ph, px py (kind,val), right,
    bottom, rx ry, paw pah (painting size), ox oy (positioning origin)"""
    from weasyprint.layout import background
    from weasyprint.css.properties import Dimension
    from weasyprint import draw
    from weasyprint.matrix import Matrix
    def dim(v):
        return Dimension(Fraction(v[1]), 'px' if v[0] == 'px' else '%')
    pw, ph, paw, pah = (Fraction(c[k]) for k in ('pw', 'ph', 'paw', 'pah'))
    ox, oy = Fraction(c['ox']), Fraction(c['oy'])
    box = SimpleNamespace(
        style={'font_size': 16},
        border_box_x=lambda: ox - 3, border_box_y=lambda: oy - 4, border_width=lambda: paw, border_height=lambda: pah,
        padding_box_x=lambda: ox, padding_box_y=lambda: oy, padding_width=lambda: pw, padding_height=lambda: ph,
        rounded_border_box=lambda: 'rbb', rounded_padding_box=lambda: 'rpb', rounded_content_box=lambda: 'rcb')
    size = c['size'] if isinstance(c['size'], str) else tuple('auto' if v is None else dim(v) for v in c['size'])
    position = ('right' if c['right'] else 'left', dim(c['px']), 'bottom' if c['bottom'] else 'top', dim(c['py']))
    image = _image(c)
    image.draw = lambda *a: None
    try:
        layer = background.layout_background_layer(
            box, object(), 1, image, size, 'border-box', (c['rx'], c['ry']), 'padding-box', position, 'scroll')
    except RAISES:
        return 'raise'
    if layer.image is None:
        return 'unused'
    assert layer.positioning_area == (ox, oy, pw, ph) and tuple(layer.painting_area) == (ox - 3, oy - 4, paw, pah)
    out = {'layer': [_s(v) for v in (*layer.size, *layer.position)], 'draw': None}
    log = []
    draw.draw_background_image(_Rec(log, Matrix()), layer, 'auto')
    pats = [a for a in log if a[0] == 'pattern']
    if pats:
        (x, y, w, h, rw, rh, matrix), = [p[1] for p in pats]
        assert (x, y) == (0, 0) and (w, h) == tuple(layer.size)
        out['draw'] = [_s(rw), _s(rh), _s(matrix[2][0] - ox), _s(matrix[2][1] - oy)]
    return out


# ------------------------------------------------------------------ Stream.add_image / _use_references

def add_images(c):
    """c['calls']: list of (image index, interpolate, ratio) ; c['ids']: list of id strings.
    returns names returned, final _images as list of (name, image index, interpolate, sorted ratios), XObject keys"""
    from weasyprint.pdf.stream import Stream
    import pydyf
    images = {}
    resources = pydyf.Dictionary({'XObject': pydyf.Dictionary()})
    stream = Stream(None, (0, 0, 10, 10), resources, images, False)
    imgs = [SimpleNamespace(id=i, n=n) for n, i in enumerate(c['ids'])]
    names = []
    for k, interp, ratio in c['calls']:
        names.append(stream.add_image(imgs[k], bool(interp), Fraction(ratio)))
    final = [[name, d['image'].n, bool(d['interpolate']), sorted(str(r) for r in d['dpi_ratios'])]
             for name, d in images.items()]
    return {'names': names, 'images': final, 'xobjects': list(resources['XObject'].keys()),
            'none': all(v is None for v in resources['XObject'].values())}


def use_refs(c):
    """c['dicts']: list of lists of image keys: several resource dictionaries (page, groups, patterns) referring to
    images by key; run _use_references over each in turn; returns per key how many x objects were built and how
    many objects were added to the pdf, and whether all dictionaries point to the same reference."""
    from weasyprint.pdf import _use_references
    import pydyf
    built = {}
    class Img:
        def __init__(self, key):
            self.key = key
        def get_x_object(self, interpolate, dpi_ratio):
            built[self.key] = built.get(self.key, 0) + 1
            return pydyf.Stream([b''], extra=pydyf.Dictionary({'key': self.key}))
    keys = sorted({k for d in c['dicts'] for k in d})
    images = {k: {'image': Img(k), 'interpolate': True, 'dpi_ratios': {1}, 'x_object': None} for k in keys}
    pdf = pydyf.PDF()
    n0 = len(pdf.objects)
    dicts = []
    for d in c['dicts']:
        res = pydyf.Dictionary({'XObject': pydyf.Dictionary({k: None for k in d})})
        _use_references(pdf, res, images)
        dicts.append(res)
    added = {}
    for o in pdf.objects[n0:]:
        k = getattr(o, 'extra', {}).get('key')
        added[k] = added.get(k, 0) + 1
    refs = {}
    same = True
    for res in dicts:
        for k, v in res['XObject'].items():
            if refs.setdefault(k, v) != v:
                same = False
    return {'built': built, 'added': added, 'same': same, 'keys': keys}


# ------------------------------------------------------------------ monitor: full renders with generated images

def make_image(spec):
    """spec: kind png|jpeg|svg ...  -> (bytes, mime)"""
    import random
    from PIL import Image
    rnd = random.Random(spec['seed'])
    if spec['kind'] == 'svg':
        attrs = ''
        if spec.get('w') is not None:
            attrs += ' width="%s"' % spec['w']
        if spec.get('h') is not None:
            attrs += ' height="%s"' % spec['h']
        if spec.get('vb') is not None:
            attrs += ' viewBox="0 0 %s %s"' % tuple(spec['vb'])
        vw, vh = spec['vb'] if spec.get('vb') else (spec.get('w') or 300, spec.get('h') or 150)
        body = '<rect x="0" y="0" width="%s" height="%s" fill="#%06x"/>' % (vw, vh, rnd.randrange(1, 0xffffff))
        return ('<svg xmlns="http://www.w3.org/2000/svg"%s>%s</svg>' % (attrs, body)).encode(), 'image/svg+xml'
    w, h, mode = spec['w'], spec['h'], spec['mode']
    bands = {'1': 1, 'L': 1, 'LA': 2, 'RGB': 3, 'RGBA': 4, 'P': 1, 'CMYK': 4}[mode]
    if mode == '1':
        im = Image.new('1', (w, h))
        im.putdata([rnd.choice([0, 255]) for _ in range(w * h)])
    elif mode == 'P':
        im = Image.new('P', (w, h))
        im.putpalette([rnd.randrange(256) for _ in range(768)])
        im.putdata([rnd.randrange(256) for _ in range(w * h)])
    else:
        data = bytes(rnd.randrange(256) for _ in range(w * h * bands))
        im = Image.frombytes(mode, (w, h), data)
    buf = io.BytesIO()
    if spec['kind'] == 'png':
        kw = {}
        if mode == 'P' and spec.get('trns'):
            kw['transparency'] = rnd.randrange(256)
        im.save(buf, 'PNG', **kw)
        return buf.getvalue(), 'image/png'
    im.save(buf, 'JPEG', quality=spec.get('quality', 90))
    return buf.getvalue(), 'image/jpeg'


def _mat_mul(m, n):
    """PDF matrices as (a, b, c, d, e, f); result = m x n (m applied first)"""
    a, b, c, d, e, f = m
    A, B, C, D, E, Fv = n
    return (a * A + b * C, a * B + b * D, c * A + d * C, c * B + d * D, e * A + f * C + E, e * B + f * D + Fv)


def _walk_ops(doc, pdfread, data, resources, ctm, out, base, depth=0, inpattern=None):
    """interpret q/Q/cm/Do/scn in a content stream; out gets ('image', objnum, ctm, inpattern) records"""
    stack = []
    cur_pattern = None
    pending = []
    xobjs = doc.resolve(resources.get('XObject')) or {} if resources else {}
    pats = doc.resolve(resources.get('Pattern')) or {} if resources else {}
    for op, args in pdfread.tokenize_content(data):
        if op == 'q':
            stack.append(ctm)
        elif op == 'Q':
            ctm = stack.pop()
        elif op == 'cm':
            ctm = _mat_mul(tuple(float(x) for x in args), ctm)
        elif op == 'Do':
            ref = xobjs.get(str(args[0]))
            obj = doc.resolve(ref)
            if obj is None:
                continue
            if obj.dict.get('Subtype') == 'Image':
                out.append(('image', obj.num if obj.num is not None else getattr(ref, 'num', None), ctm, inpattern))
            elif obj.dict.get('Subtype') == 'Form' and depth < 8:
                m = obj.dict.get('Matrix')
                c2 = _mat_mul(tuple(float(x) for x in doc.resolve(m)), ctm) if m else ctm
                _walk_ops(doc, pdfread, doc.stream_data(obj), doc.resolve(obj.dict.get('Resources')) or {}, c2, out, base,
                          depth + 1, inpattern)
        elif op in ('scn', 'SCN') and args and isinstance(args[-1], str) and str(args[-1]) in pats:
            cur_pattern = str(args[-1])
        elif op == 're' and cur_pattern is not None:
            out.append(('fillrect', cur_pattern, tuple(float(x) for x in args), ctm))
        elif op == 're':
            pending.append((tuple(float(x) for x in args), ctm))
        elif op in ('n', 'S', 's'):
            pending = []
        elif op in ('f', 'f*', 'F', 'B', 'B*', 'b', 'b*') and cur_pattern is None:
            for a, m in pending:
                out.append(('rect', a, m, inpattern))
            pending = []
        elif op in ('f', 'f*', 'F') and cur_pattern is not None and depth < 8:
            pobj = doc.resolve(pats[cur_pattern])
            pm = tuple(float(x) for x in doc.resolve(pobj.dict['Matrix']))
            info = {'name': cur_pattern, 'xstep': float(pobj.dict['XStep']), 'ystep': float(pobj.dict['YStep']),
                    'bbox': [float(x) for x in doc.resolve(pobj.dict['BBox'])], 'matrix': pm}
            _walk_ops(doc, pdfread, doc.stream_data(pobj), doc.resolve(pobj.dict.get('Resources')) or {},
                      _mat_mul(pm, base), out, base, depth + 1, info)
            cur_pattern = None
    return out


def _unpredict_png(data, columns, colors):
    """undo PNG predictors (8 bits per component) -> raw bytes"""
    bpp = colors
    stride = columns * colors
    out = bytearray()
    prev = bytearray(stride)
    pos = 0
    while pos < len(data):
        ft = data[pos]
        row = bytearray(data[pos + 1:pos + 1 + stride])
        pos += 1 + stride
        for i in range(len(row)):
            a = row[i - bpp] if i >= bpp else 0
            b = prev[i]
            c = prev[i - bpp] if i >= bpp else 0
            if ft == 0:
                p = 0
            elif ft == 1:
                p = a
            elif ft == 2:
                p = b
            elif ft == 3:
                p = (a + b) // 2
            else:
                pa, pb, pc = abs(b - c), abs(a - c), abs(a + b - 2 * c)
                p = a if pa <= pb and pa <= pc else (b if pb <= pc else c)
            row[i] = (row[i] + p) & 255
        out += row
        prev = row
    return bytes(out)


def _decode_xobject(doc, obj):
    """-> dict(mode, size, pixels bytes, alpha bytes or None, filter)"""
    from PIL import Image
    d = obj.dict
    w, h = int(d['Width']), int(d['Height'])
    cs = str(doc.resolve(d.get('ColorSpace')))
    mode = {'DeviceRGB': 'RGB', 'DeviceGray': 'L', 'DeviceCMYK': 'CMYK'}.get(cs, cs)
    filt = str(doc.resolve(d.get('Filter')))
    alpha = None
    if filt == 'DCTDecode':
        im = Image.open(io.BytesIO(obj.raw))
        im.load()
        pix = im.tobytes()
        mode_out = im.mode
        return {'mode': mode_out, 'cs': mode, 'size': [im.width, im.height], 'declared': [w, h], 'pix': pix, 'alpha': None,
                'filter': filt, 'raw': obj.raw, 'decode': d.get('Decode'), 'app14': getattr(im, 'app', {}).get('APP14') is not None}
    parms = doc.resolve(d.get('DecodeParms')) or {}
    raw = zlib.decompress(obj.raw)
    colors = int(parms.get('Colors', 1))
    pix = _unpredict_png(raw, int(parms.get('Columns', w)), colors) if int(parms.get('Predictor', 1)) >= 10 else raw
    sm = doc.resolve(d.get('SMask'))
    if sm is not None:
        sp = doc.resolve(sm.dict.get('DecodeParms')) or {}
        sraw = zlib.decompress(sm.raw)
        alpha = _unpredict_png(sraw, int(sp.get('Columns', w)), 1) if int(sp.get('Predictor', 1)) >= 10 else sraw
    return {'mode': mode, 'cs': mode, 'size': [w, h], 'declared': [w, h], 'pix': pix, 'alpha': alpha, 'filter': filt,
            'colors': colors, 'bpc': int(d.get('BitsPerComponent', 0))}


def _source_pixels(data, orientation=None):
    """Pillow's decoding of the source, in the colour model the PDF must show: (mode, size, pixel bytes, alpha bytes)"""
    from PIL import Image
    im = Image.open(io.BytesIO(data))
    im.load()
    if 'transparency' in im.info:
        im = im.convert('RGBA')
    elif im.mode in ('1', 'P', 'I'):
        im = im.convert('RGB')
    alpha = None
    if im.mode in ('RGBA', 'LA'):
        alpha = im.getchannel('A').tobytes()
        im = im.convert(im.mode[:-1])
    return im.mode, [im.width, im.height], im.tobytes(), alpha


_TRACE = {'owner': None, 'log': None, 'patched': False}


def _patch_draw():
    """observation points: which box / background layer each RasterImage.draw call belongs to (call order = order of
    the image `Do` operators in the content streams)"""
    if _TRACE['patched']:
        return
    from weasyprint import draw, images
    orig_rb, orig_bg, orig_draw = draw.draw_replacedbox, draw.draw_background_image, images.RasterImage.draw

    def rb(stream, box):
        _TRACE['owner'] = ('box', id(box))
        try:
            return orig_rb(stream, box)
        finally:
            _TRACE['owner'] = None

    def bg(stream, layer, image_rendering):
        _TRACE['owner'] = ('bg', id(layer))
        try:
            return orig_bg(stream, layer, image_rendering)
        finally:
            _TRACE['owner'] = None

    def rdraw(self, stream, concrete_width, concrete_height, image_rendering):
        if _TRACE['log'] is not None and not (self.width <= 0 or self.height <= 0):
            _TRACE['log'].append((_TRACE['owner'], concrete_width, concrete_height))
        return orig_draw(self, stream, concrete_width, concrete_height, image_rendering)

    draw.draw_replacedbox, draw.draw_background_image, images.RasterImage.draw = rb, bg, rdraw
    _TRACE['patched'] = True


def render_images(case):
    """case: images {name: spec}, html, options -> observations (see p_c13.monitor)"""
    import logging
    from weasyprint import HTML
    from weasyprint.formatting_structure import boxes
    import pdfread
    _patch_draw()
    blobs = {name: make_image(spec) for name, spec in case['images'].items()}
    fetched = []

    def fetcher(url, *a, **k):
        name = url.rsplit('/', 1)[-1]
        fetched.append(name)
        data, mime = blobs[name]
        return {'string': data, 'mime_type': mime}

    # image options (optimize_images, jpeg_quality, dpi) act when the images are loaded, i.e. at render time
    ropts = {k: v for k, v in case.get('pdf_options', {}).items() if k in ('optimize_images', 'jpeg_quality', 'dpi')}
    doc = HTML(string=case['html'], url_fetcher=fetcher, base_url='http://img.test/').render(**ropts)
    obs = {'boxes': [], 'bgs': [], 'fetched': fetched}

    def walk(b, page_index):
        b = getattr(b, '_box', b)
        eid = b.element.get('id') if getattr(b, 'element', None) is not None else None
        if isinstance(b, boxes.ReplacedBox):
            iw, ih, ir = b.replacement.get_intrinsic_size(b.style['image_resolution'], b.style['font_size'])
            obs['boxes'].append(dict(
                key=id(b), id=eid, tag=b.element_tag, page=page_index, w=b.width, h=b.height, cx=b.content_box_x(), cy=b.content_box_y(),
                intrinsic=[iw, ih, ir], kind=type(b.replacement).__name__, fit=b.style['object_fit'],
                visible=b.style['visibility'] == 'visible'))
        bg = getattr(b, 'background', None)
        if bg is not None and eid is not None and eid.startswith('bg'):
            for layer in bg.layers:
                if layer.image is None:
                    obs['bgs'].append(dict(id=eid, page=page_index, unused=True))
                else:
                    obs['bgs'].append(dict(key=id(layer), id=eid, page=page_index, unused=False, size=list(layer.size), position=list(layer.position),
                                           positioning=list(layer.positioning_area), painting=list(layer.painting_area),
                                           repeat=list(layer.repeat),
                                           intrinsic=list(layer.image.get_intrinsic_size(b.style['image_resolution'], b.style['font_size']))))
        for c in getattr(b, 'all_children', lambda: ())():
            walk(c, page_index)

    for pi, page in enumerate(doc.pages):
        walk(page._page_box, pi)
        pb = page._page_box
        cb = getattr(pb, 'canvas_background', None)
        for layer in (cb.layers if cb is not None else ()):
            if layer.image is None:
                obs['bgs'].append(dict(id='canvas', page=pi, unused=True))
            else:
                obs['bgs'].append(dict(key=id(layer), id='canvas', page=pi, unused=False, size=list(layer.size),
                                       position=list(layer.position), positioning=list(layer.positioning_area),
                                       painting=list(layer.painting_area), repeat=list(layer.repeat)))
    _TRACE['log'] = []
    try:
        pdf = doc.write_pdf(**case.get('pdf_options', {}))
    finally:
        log, _TRACE['log'] = _TRACE['log'], None
    obs['draw_log'] = [[o[0], o[1]] if o else None for o, _, _ in log]
    d = pdfread.parse(pdf)
    obs['pdf_problems'] = d.problems[:5]
    draws = []
    for pi, page in enumerate(d.pages()):
        hpt = float(page['MediaBox'][3])
        res = d.resolve(page.get('Resources')) or {}
        out = _walk_ops(d, pdfread, d.page_content(page), res, (1, 0, 0, 1, 0, 0), [], (1, 0, 0, 1, 0, 0))
        for rec in out:
            if rec[0] != 'image':
                continue
            _, num, (a, b, c, dd, e, f), pat = rec
            w, h = a / 0.75, dd / 0.75
            draws.append(dict(page=pi, obj=num, skew=[b, c], x=e / 0.75, y=(hpt - f) / 0.75 - h, w=w, h=h,
                              pattern=None if pat is None else dict(xstep=pat['xstep'], ystep=pat['ystep'], bbox=pat['bbox'])))
    obs['draws'] = draws
    # image XObjects in the file
    xobjs = {}
    smasks = set()
    for num, o in d.objects.items():
        if isinstance(o, pdfread.StreamObj) and o.dict.get('Subtype') == 'Image':
            sm = o.dict.get('SMask')
            if sm is not None:
                smasks.add(sm.num)
    for num, o in d.objects.items():
        if isinstance(o, pdfread.StreamObj) and o.dict.get('Subtype') == 'Image' and num not in smasks:
            try:
                dec = _decode_xobject(d, o)
            except Exception as exc:   # noqa
                xobjs[num] = {'error': '%s: %s' % (type(exc).__name__, exc)}
                continue
            # which source?  match by exact pixels against every raster source
            match = []
            requant = {}
            for name, spec in case['images'].items():
                if spec['kind'] == 'svg':
                    continue
                data = blobs[name][0]
                if dec['filter'] == 'DCTDecode':
                    if spec['kind'] != 'jpeg':
                        continue
                    if dec['raw'] == data:
                        match.append(name)
                    else:
                        from PIL import Image
                        src = Image.open(io.BytesIO(data))
                        src.load()
                        if src.mode == dec['mode'] and [src.width, src.height] == dec['size']:
                            if src.tobytes() == dec['pix']:
                                match.append(name)
                            else:
                                emb = Image.open(io.BytesIO(dec['raw']))
                                # same size and mode: re-encoded; with the source's quantisation tables and sampling or not,
                                # and how far the decoded samples moved
                                requant[name] = {
                                    'same_qtables': dict(emb.quantization) == dict(src.quantization),
                                    'maxdiff': max(abs(a - b) for a, b in zip(src.tobytes(), dec['pix']))}
                    continue
                mode, size, pix, alpha = _source_pixels(data)
                if mode == dec['mode'] and size == dec['size'] and pix == dec['pix'] and alpha == dec['alpha']:
                    match.append(name)
            xobjs[num] = {'mode': dec['mode'], 'size': dec['size'], 'filter': dec['filter'], 'has_alpha': dec['alpha'] is not None,
                          'match': match, 'reencoded': requant, 'interpolate': bool(o.dict.get('Interpolate')),
                          'decode': [float(x) for x in d.resolve(dec.get('decode'))] if dec.get('decode') else None,
                          'app14': dec.get('app14'), 'bpc': dec.get('bpc'), 'cs': dec.get('cs')}
    obs['xobjects'] = xobjs
    return obs


# ------------------------------------------------------------------ XObject stream: mode x orientation x options

def make_mode_image(spec):
    """spec: fmt png|jpeg|mpo, mode (1 L LA RGB RGBA P CMYK I;16), w, h, seed, trns, app14 (CMYK jpeg), exif (None|1..8),
    progressive.  JPEG-family images are made of four constant quadrants (qw x qh each), PNG pixels are random.
    -> (bytes, mime)"""
    import random
    from PIL import Image
    rnd = random.Random(spec['seed'])
    w, h, mode = spec['w'], spec['h'], spec['mode']
    bands = {'1': 1, 'L': 1, 'LA': 2, 'RGB': 3, 'RGBA': 4, 'P': 1, 'CMYK': 4, 'I;16': 1}[mode]
    jpeg = spec['fmt'] in ('jpeg', 'mpo')
    if jpeg:
        cols = [tuple(rnd.randrange(20, 236) for _ in range(bands)) for _ in range(4)]
        im = Image.new(mode, (w, h))
        for k, (qx, qy) in enumerate([(0, 0), (1, 0), (0, 1), (1, 1)]):
            im.paste(cols[k] if bands > 1 else cols[k][0], (qx * w // 2, qy * h // 2, (qx + 1) * w // 2, (qy + 1) * h // 2))
    elif mode == '1':
        im = Image.new('1', (w, h))
        im.putdata([rnd.choice([0, 255]) for _ in range(w * h)])
    elif mode == 'P':
        im = Image.new('P', (w, h))
        im.putpalette([rnd.randrange(256) for _ in range(768)])
        im.putdata([rnd.randrange(256) for _ in range(w * h)])
    elif mode == 'I;16':
        im = Image.new('I;16', (w, h))
        im.putdata([rnd.randrange(65536) for _ in range(w * h)])
    else:
        im = Image.frombytes(mode, (w, h), bytes(rnd.randrange(256) for _ in range(w * h * bands)))
    kw = {}
    if spec.get('exif'):
        ex = Image.Exif()
        ex[0x0112] = spec['exif']
        kw['exif'] = ex
    buf = io.BytesIO()
    if spec['fmt'] == 'png':
        if mode == 'P' and spec.get('trns'):
            kw['transparency'] = rnd.randrange(256)
        im.save(buf, 'PNG', **kw)
        return buf.getvalue(), 'image/png'
    if spec['fmt'] == 'mpo':
        im.save(buf, 'MPO', save_all=True, append_images=[im], quality=95, **kw)
        return buf.getvalue(), 'image/jpeg'
    im.save(buf, 'JPEG', quality=95, progressive=bool(spec.get('progressive')), **kw)
    data = buf.getvalue()
    if mode == 'CMYK' and not spec.get('app14', True):
        i = data.find(b'\xff\xee')           # drop the Adobe APP14 segment: plain (not inverted) CMYK samples
        ln = int.from_bytes(data[i + 2:i + 4], 'big')
        data = data[:i] + data[i + 2 + ln:]
    return data, 'image/jpeg'


def _grid_points(w, h, coarse):
    """sample points: every pixel, or the four quadrant centres"""
    if not coarse:
        return w, h, [(x, y) for y in range(h) for x in range(w)]
    return 2, 2, [(w // 4 + qx * (w // 2), h // 4 + qy * (h // 2)) for qy in (0, 1) for qx in (0, 1)]


def _truth_samples(data, spec, coarse):
    """the colours the source means, in source orientation: Pillow's decoding (1/P -> RGB, tRNS -> RGBA); for a
    CMYK JPEG without the Adobe marker the stored samples are the inks (Pillow always assumes them inverted)"""
    from PIL import Image
    im = Image.open(io.BytesIO(data))
    im.load()
    if 'transparency' in im.info:
        im = im.convert('RGBA')
    elif im.mode in ('1', 'P'):
        im = im.convert('RGB')
    gw, gh, pts = _grid_points(im.width, im.height, coarse)
    out = []
    for x, y in pts:
        px = im.getpixel((x, y))
        px = list(px) if isinstance(px, tuple) else [px]
        if im.mode == 'CMYK' and not spec.get('app14', True):
            px = [255 - v for v in px]
        if im.mode.startswith('I;16'):
            px = [v >> 8 for v in px]                      # the 8 most significant bits
        out.append(px)
    return im.mode, [im.width, im.height], [gw, gh], out


def _painted_samples(doc, obj, coarse):
    """the colours a PDF consumer paints: raw samples of the stream, through /Decode, plus the SMask sample"""
    from PIL import Image
    d = obj.dict
    dec = _decode_xobject(doc, obj)
    w, h = dec['size']
    decode = d.get('Decode')
    decode = [float(x) for x in doc.resolve(decode)] if decode is not None else None
    inverted = bool(decode) and decode[:2] == [1.0, 0.0]
    if decode is not None and not (inverted and decode == [1.0, 0.0] * (len(decode) // 2)) and \
            decode != [0.0, 1.0] * (len(decode) // 2):
        inverted = None
    gw, gh, pts = _grid_points(w, h, coarse)
    nch = {'L': 1, 'RGB': 3, 'CMYK': 4}.get(dec['mode'], 0)
    out = []
    if dec['filter'] == 'DCTDecode':
        im = Image.open(io.BytesIO(obj.raw))
        im.load()
        for x, y in pts:
            px = im.getpixel((x, y))
            px = list(px) if isinstance(px, tuple) else [px]
            if im.mode == 'CMYK':
                px = [255 - v for v in px]                 # Pillow un-inverts; the stream holds 255 - v
            if inverted:
                px = [255 - v for v in px]
            out.append(px)
        nch = len(out[0]) if out else nch
    else:
        pix, alpha = dec['pix'], dec['alpha']
        ok = nch and len(pix) == w * h * nch and (alpha is None or len(alpha) == w * h)
        for x, y in pts:
            if not ok:
                out.append([])
                continue
            px = list(pix[(y * w + x) * nch:(y * w + x + 1) * nch])
            if inverted:
                px = [255 - v for v in px]
            if alpha is not None:
                px.append(alpha[y * w + x])
            out.append(px)
    cs = str(doc.resolve(d.get('ColorSpace')))
    return {'cs': cs, 'decode': decode, 'inverted': inverted, 'smask': d.get('SMask') is not None, 'size': [w, h],
            'declared': dec['declared'], 'bpc': int(d.get('BitsPerComponent', 0)), 'filter': dec['filter'],
            'grid': [gw, gh], 'samples': out, 'channels': nch,
            'qtables': None if dec['filter'] != 'DCTDecode' else
            {k: list(v) for k, v in Image.open(io.BytesIO(obj.raw)).quantization.items()}}


def xobject_probe(case):
    """case: items [{id, spec, orientation (css value)}], options -> per item the image XObject painted for it"""
    from weasyprint import HTML
    from weasyprint.formatting_structure import boxes
    from PIL import Image
    import pdfread
    _patch_draw()
    # items may share one URL (it['src']) while asking for different orientations
    blobs = {}
    for it in case['items']:
        src = it.get('src') or it['id']
        if src not in blobs:
            blobs[src] = make_mode_image(it['spec'])

    def fetcher(url, *a, **k):
        data, mime = blobs[url.rsplit('/', 1)[-1]]
        return {'string': data, 'mime_type': mime}

    html = '<style>@page{size:900px 900px;margin:0}body{margin:0}img{display:block}</style>' + ''.join(
        '<img id="%s" src="%s" style="image-orientation:%s">' % (it['id'], it.get('src') or it['id'], it['orientation'])
        for it in case['items'])
    opts = dict(case.get('options', {}))
    doc = HTML(string=html, url_fetcher=fetcher, base_url='http://img.test/').render(**opts)
    keys = {}

    def walk(b):
        b = getattr(b, '_box', b)
        if isinstance(b, boxes.ReplacedBox) and b.element is not None:
            keys[id(b)] = (b.element.get('id'), b.width, b.height)
        for c in getattr(b, 'all_children', lambda: ())():
            walk(c)
    for page in doc.pages:
        walk(page._page_box)
    _TRACE['log'] = []
    try:
        pdf = doc.write_pdf(uncompressed_pdf=True, **opts)
    finally:
        log, _TRACE['log'] = _TRACE['log'], None
    d = pdfread.parse(pdf)
    draws = []
    for page in d.pages():
        res = d.resolve(page.get('Resources')) or {}
        draws += [r for r in _walk_ops(d, pdfread, d.page_content(page), res, (1, 0, 0, 1, 0, 0), [], (1, 0, 0, 1, 0, 0))
                  if r[0] == 'image']
    out = {'problems': d.problems[:3], 'items': {}, 'ndraws': len(draws), 'nlog': len(log)}
    if len(draws) != len(log):
        return out
    for (owner, _, _), rec in zip(log, draws):
        if owner is None or owner[1] not in keys:
            continue
        eid, bw, bh = keys[owner[1]]
        obj = d.objects.get(rec[1])
        it = next(i for i in case['items'] if i['id'] == eid)
        data = blobs[it.get('src') or eid][0]
        coarse = it['spec']['fmt'] != 'png'
        try:
            painted = _painted_samples(d, obj, coarse)
        except Exception as exc:   # noqa
            painted = {'error': '%s: %s' % (type(exc).__name__, exc)}
        tmode, tsize, tgrid, tsamples = _truth_samples(data, it['spec'], coarse)
        src_q = None
        if it['spec']['fmt'] != 'png':
            src_q = {k: list(v) for k, v in Image.open(io.BytesIO(data)).quantization.items()}
        out['items'][eid] = {'obj': rec[1], 'painted': painted, 'truth': {'mode': tmode, 'size': tsize, 'grid': tgrid, 'samples': tsamples},
                             'box': [bw, bh], 'same_bytes': getattr(obj, 'raw', None) == data, 'src_qtables': src_q}
    return out


# ------------------------------------------------------------------ SVG: viewBox -> viewport

def preserve_ratio_direct(c):
    """c: vb (4 strings or None), via ('node'|'arg'), par (string or None), root (bool), intr (2 of str/None), w, h"""
    from weasyprint.svg.utils import preserve_ratio
    vb = tuple(Fraction(x) for x in c['vb']) if c['vb'] else None
    attrs = {} if c['par'] is None else {'preserveAspectRatio': c['par']}
    node = SimpleNamespace(tag='svg', get_viewbox=lambda: (vb if c['via'] == 'node' else None),
                           get=lambda k, d=None: attrs.get(k, d))
    intr = tuple(None if x is None else Fraction(x) for x in c['intr'])
    svg = SimpleNamespace(tree=node if c['root'] else object(), get_intrinsic_size=lambda font_size: intr)
    try:
        out = preserve_ratio(svg, node, 16, Fraction(c['w']), Fraction(c['h']), vb if c['via'] == 'arg' else None)
    except RAISES:
        return 'raise'
    return [_s(v) for v in out]


def svg_markup(it, inline=False):
    vx, vy, vw, vh = it['vb']
    par = '' if it['par'] is None else ' preserveAspectRatio="%s"' % it['par']
    size = ' width="%s" height="%s"' % tuple(it['attr_size']) if it.get('attr_size') else ''
    ident = ' id="%s"' % it['id'] if inline else ''
    return ('<svg xmlns="http://www.w3.org/2000/svg"%s viewBox="%s %s %s %s"%s%s><rect x="%s" y="%s" width="%s" height="%s" '
            'fill="#%06x"/></svg>' % (ident, vx, vy, vw, vh, par, size, vx, vy, vw, vh, it['color']))


def svg_probe(case):
    """case: items [{id, kind img|bg|inline, vb, par, color, css (style string), attr_size}] -> for each the layout
    geometry and the viewBox-filling rectangle(s) found in the content stream (page px)"""
    from weasyprint import HTML
    from weasyprint.formatting_structure import boxes
    import pdfread
    blobs = {it['id'] + '.svg': svg_markup(it).encode() for it in case['items'] if it['kind'] != 'inline'}

    def fetcher(url, *a, **k):
        return {'string': blobs[url.rsplit('/', 1)[-1]], 'mime_type': 'image/svg+xml'}

    parts = []
    for it in case['items']:
        if it['kind'] == 'img':
            parts.append('<div style="width:300px;margin:0 0 4px 0"><img id="%s" src="%s.svg" style="display:block;%s"></div>'
                         % (it['id'], it['id'], it['css']))
        elif it['kind'] == 'bg':
            parts.append('<div id="%s" style="margin:0 0 4px 0;background-image:url(%s.svg);background-repeat:no-repeat;%s"></div>'
                         % (it['id'], it['id'], it['css']))
        else:
            parts.append('<div style="width:300px;margin:0 0 4px 0">%s</div>' % svg_markup(it, inline=True).replace(
                '<svg ', '<svg style="display:block;%s" ' % it['css'], 1))
    html = ('<style>@page{size:400px 6000px;margin:0}html,body{margin:0;padding:0}</style>' + ''.join(parts))
    doc = HTML(string=html, url_fetcher=fetcher, base_url='http://img.test/').render()
    geo = {}

    def walk(b):
        b = getattr(b, '_box', b)
        eid = b.element.get('id') if getattr(b, 'element', None) is not None else None
        if eid is not None:
            if isinstance(b, boxes.ReplacedBox):
                geo[eid] = dict(kind='box', w=b.width, h=b.height, cx=b.content_box_x(), cy=b.content_box_y(),
                                intrinsic=list(b.replacement.get_intrinsic_size(b.style['image_resolution'], b.style['font_size'])))
            elif getattr(b, 'background', None) is not None and b.background.layers:
                layer = b.background.layers[0]
                if layer.image is not None:
                    geo[eid] = dict(kind='layer', size=list(layer.size), position=list(layer.position),
                                    positioning=list(layer.positioning_area))
        for c in getattr(b, 'all_children', lambda: ())():
            walk(c)
    for page in doc.pages:
        walk(page._page_box)
    pdf = doc.write_pdf(uncompressed_pdf=True)
    d = pdfread.parse(pdf)
    rects = []
    for page in d.pages():
        hpt = float(page['MediaBox'][3])
        res = d.resolve(page.get('Resources')) or {}
        for rec in _walk_ops(d, pdfread, d.page_content(page), res, (1, 0, 0, 1, 0, 0), [], (1, 0, 0, 1, 0, 0)):
            if rec[0] != 'rect':
                continue
            (x, y, w, h), (a, b, c, dd, e, f) = rec[1], rec[2]
            xs = [a * px + c * py + e for px in (x, x + w) for py in (y, y + h)]
            ys = [b * px + dd * py + f for px in (x, x + w) for py in (y, y + h)]
            rects.append(dict(args=[x, y, w, h], skew=[b, c], x=min(xs) / 0.75, y=(hpt - max(ys)) / 0.75,
                              w=(max(xs) - min(xs)) / 0.75, h=(max(ys) - min(ys)) / 0.75))
    out = {'problems': d.problems[:3], 'items': {}}
    for it in case['items']:
        vb = [float(v) for v in it['vb']]
        out['items'][it['id']] = dict(geo=geo.get(it['id']), rects=[r for r in rects if r['args'] == vb])
    return out


def dispatch(c):
    """one worker pool for all the streams"""
    return globals()[c['fn']](c['case'])
