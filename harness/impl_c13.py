"""Implementation-side functions for C13 (run in worker processes; weasyprint imported from REPO)."""
import io, re, zlib, math
from fractions import Fraction
from types import SimpleNamespace

INF = float('inf')


def _q(x):
    """case value -> Fraction / None"""
    return None if x is None else Fraction(x)


def _auto(x):
    return 'auto' if x is None else Fraction(x)


def _mx(x):
    return INF if x is None else Fraction(x)


def _s(x):
    """implementation value -> printable exact value; floats are converted exactly and flagged"""
    if x is None:
        return None
    if isinstance(x, float):
        if math.isinf(x) or math.isnan(x):
            return 'f:' + repr(x)
        return 'f:' + str(Fraction(x))
    if x == 'auto':
        return 'auto'
    return str(Fraction(x))


RAISES = (ZeroDivisionError, TypeError)


def _image(c):
    t = (_q(c['iw']), _q(c['ih']), _q(c['ir']))
    return SimpleNamespace(get_intrinsic_size=lambda resolution, font_size: t)


def constraint(c):
    from weasyprint.layout import replaced
    f = replaced.cover_constraint_image_sizing if c['cover'] else replaced.contain_constraint_image_sizing
    try:
        w, h = f(Fraction(c['cw']), Fraction(c['ch']), _q(c['ir']))
    except RAISES as e:
        return 'raise'
    return [_s(w), _s(h)]


def default_sizing(c):
    from weasyprint.layout import replaced
    def spec(x):
        return 'auto' if x == 'auto' else _q(x)
    try:
        w, h = replaced.default_image_sizing(_q(c['iw']), _q(c['ih']), _q(c['ir']), spec(c['sw']), spec(c['sh']),
                                             Fraction(c['dw']), Fraction(c['dh']))
    except RAISES:
        return 'raise'
    return [_s(w), _s(h)]


def _box(c):
    return SimpleNamespace(
        width=_auto(c['bw']), height=_auto(c['bh']),
        min_width=Fraction(c['minw']), min_height=Fraction(c['minh']),
        max_width=_mx(c['maxw']), max_height=_mx(c['maxh']),
        margin_left=_auto(c['ml']), margin_right=_auto(c['mr']), margin_top=Fraction(0), margin_bottom=Fraction(0),
        padding_left=Fraction(c['pl']), padding_right=Fraction(c['pr']),
        border_left_width=Fraction(c['bl']), border_right_width=Fraction(c['br']),
        position_x=Fraction(0), position_y=Fraction(0), is_column=False,
        style={'image_resolution': 1, 'font_size': 16,
               'width': 'auto' if c['bw'] is None else 'x', 'height': 'auto' if c['bh'] is None else 'x'},
        replacement=_image(c))


def sizing(c):
    """c['fn'] in rbw_raw | rbw | rbh_raw | rbh | mmar | inline ; returns [width, height] after the call or 'raise'"""
    from weasyprint.layout import replaced
    box = _box(c)
    cb = (Fraction(c['cbw']), Fraction(1000))
    fn = c['fn']
    try:
        if fn == 'rbw_raw':
            replaced.replaced_box_width.without_min_max(box, cb)
        elif fn == 'rbw':
            replaced.replaced_box_width(box, cb)
        elif fn == 'rbh_raw':
            replaced.replaced_box_height.without_min_max(box)
        elif fn == 'rbh':
            replaced.replaced_box_height(box)
        elif fn == 'mmar':
            replaced.min_max_auto_replaced(box)
        elif fn == 'inline':
            replaced.inline_replaced_box_width_height(box, cb)
        else:
            raise ValueError(fn)
    except RAISES:
        return 'raise'
    return [_s(box.width), _s(box.height)]


def rb_layout(c):
    from weasyprint.layout import replaced
    from weasyprint.css.properties import Dimension
    def dim(v):
        kind, val = v
        return Dimension(Fraction(val), 'px' if kind == 'px' else '%')
    box = SimpleNamespace(
        width=Fraction(c['bw']), height=Fraction(c['bh']),
        style={'image_resolution': 1, 'font_size': 16, 'object_fit': c['fit'],
               'object_position': (('right' if c['right'] else 'left', dim(c['px']),
                                    'bottom' if c['bottom'] else 'top', dim(c['py'])),)},
        replacement=_image(c),
        content_box_x=lambda: Fraction(c['cx']), content_box_y=lambda: Fraction(c['cy']))
    try:
        out = replaced.replacedbox_layout(box)
    except RAISES:
        return 'raise'
    return [_s(v) for v in out]
