"""Implementation-side functions for C13 (run in worker processes; weasyprint imported from REPO)."""
import io, re, zlib, math
from fractions import Fraction
from types import SimpleNamespace

INF = float('inf')


def _q(x):
    """case value -> Fraction / None"""
    return None if x is None else Fraction(x)


def _auto(x):
    return 'auto' if x is None else Fraction(x)


def _mx(x):
    return INF if x is None else Fraction(x)


def _s(x):
    """implementation value -> printable exact value; floats are converted exactly and flagged"""
    if x is None:
        return None
    if isinstance(x, float):
        if math.isinf(x) or math.isnan(x):
            return 'f:' + repr(x)
        return 'f:' + str(Fraction(x))
    if x == 'auto':
        return 'auto'
    return str(Fraction(x))


RAISES = (ZeroDivisionError, TypeError)


def _image(c):
    t = (_q(c['iw']), _q(c['ih']), _q(c['ir']))
    return SimpleNamespace(get_intrinsic_size=lambda resolution, font_size: t)


def constraint(c):
    from weasyprint.layout import replaced
    f = replaced.cover_constraint_image_sizing if c['cover'] else replaced.contain_constraint_image_sizing
    try:
        w, h = f(Fraction(c['cw']), Fraction(c['ch']), _q(c['ir']))
    except RAISES as e:
        return 'raise'
    return [_s(w), _s(h)]


def default_sizing(c):
    from weasyprint.layout import replaced
    def spec(x):
        return 'auto' if x == 'auto' else _q(x)
    try:
        w, h = replaced.default_image_sizing(_q(c['iw']), _q(c['ih']), _q(c['ir']), spec(c['sw']), spec(c['sh']),
                                             Fraction(c['dw']), Fraction(c['dh']))
    except RAISES:
        return 'raise'
    return [_s(w), _s(h)]


def _box(c):
    return SimpleNamespace(
        width=_auto(c['bw']), height=_auto(c['bh']),
        min_width=Fraction(c['minw']), min_height=Fraction(c['minh']),
        max_width=_mx(c['maxw']), max_height=_mx(c['maxh']),
        margin_left=_auto(c['ml']), margin_right=_auto(c['mr']), margin_top=Fraction(0), margin_bottom=Fraction(0),
        padding_left=Fraction(c['pl']), padding_right=Fraction(c['pr']),
        border_left_width=Fraction(c['bl']), border_right_width=Fraction(c['br']),
        position_x=Fraction(0), position_y=Fraction(0), is_column=False,
        style={'image_resolution': 1, 'font_size': 16,
               'width': 'auto' if c['bw'] is None else 'x', 'height': 'auto' if c['bh'] is None else 'x'},
        replacement=_image(c))


def sizing(c):
    """c['fn'] in rbw_raw | rbw | rbh_raw | rbh | mmar | inline ; returns [width, height] after the call or 'raise'"""
    from weasyprint.layout import replaced
    box = _box(c)
    cb = (Fraction(c['cbw']), Fraction(1000))
    fn = c['fn']
    try:
        if fn == 'rbw_raw':
            replaced.replaced_box_width.without_min_max(box, cb)
        elif fn == 'rbw':
            replaced.replaced_box_width(box, cb)
        elif fn == 'rbh_raw':
            replaced.replaced_box_height.without_min_max(box)
        elif fn == 'rbh':
            replaced.replaced_box_height(box)
        elif fn == 'mmar':
            replaced.min_max_auto_replaced(box)
        elif fn == 'inline':
            replaced.inline_replaced_box_width_height(box, cb)
        else:
            raise ValueError(fn)
    except RAISES:
        return 'raise'
    return [_s(box.width), _s(box.height)]


def rb_layout(c):
    from weasyprint.layout import replaced
    from weasyprint.css.properties import Dimension
    def dim(v):
        kind, val = v
        return Dimension(Fraction(val), 'px' if kind == 'px' else '%')
    box = SimpleNamespace(
        width=Fraction(c['bw']), height=Fraction(c['bh']),
        style={'image_resolution': 1, 'font_size': 16, 'object_fit': c['fit'],
               'object_position': (('right' if c['right'] else 'left', dim(c['px']),
                                    'bottom' if c['bottom'] else 'top', dim(c['py'])),)},
        replacement=_image(c),
        content_box_x=lambda: Fraction(c['cx']), content_box_y=lambda: Fraction(c['cy']))
    try:
        out = replaced.replacedbox_layout(box)
    except RAISES:
        return 'raise'
    return [_s(v) for v in out]


# ------------------------------------------------------------------ background layers (direct calls)

class _Rec:
    """records add_pattern arguments; everything else is a no-op returning another recorder"""
    def __init__(self, log, ctm):
        self._log, self.ctm = log, ctm
        self.id = 'x0'
        self.page_rectangle = (0, 0, 1000, 1000)

    def add_pattern(self, *args):
        self._log.append(('pattern', args))
        return _Rec(self._log, self.ctm)

    def add_group(self, *args):
        return _Rec(self._log, self.ctm)

    def transform(self, *args, **kw):
        self._log.append(('transform', args, kw))

    def __getattr__(self, name):
        return lambda *a, **k: None


def bg_layer(c):
    """c: iw ih ir, size ('cover'|'contain'|[sw, sh] with None=auto or (kind, val)), pw ph, px py (kind,val), right,
    bottom, rx ry, paw pah (painting size), ox oy (positioning origin)"""
    from weasyprint.layout import background
    from weasyprint.css.properties import Dimension
    from weasyprint import draw
    from weasyprint.matrix import Matrix
    def dim(v):
        return Dimension(Fraction(v[1]), 'px' if v[0] == 'px' else '%')
    pw, ph, paw, pah = (Fraction(c[k]) for k in ('pw', 'ph', 'paw', 'pah'))
    ox, oy = Fraction(c['ox']), Fraction(c['oy'])
    box = SimpleNamespace(
        style={'font_size': 16},
        border_box_x=lambda: ox - 3, border_box_y=lambda: oy - 4, border_width=lambda: paw, border_height=lambda: pah,
        padding_box_x=lambda: ox, padding_box_y=lambda: oy, padding_width=lambda: pw, padding_height=lambda: ph,
        rounded_border_box=lambda: 'rbb', rounded_padding_box=lambda: 'rpb', rounded_content_box=lambda: 'rcb')
    size = c['size'] if isinstance(c['size'], str) else tuple('auto' if v is None else dim(v) for v in c['size'])
    position = ('right' if c['right'] else 'left', dim(c['px']), 'bottom' if c['bottom'] else 'top', dim(c['py']))
    image = _image(c)
    image.draw = lambda *a: None
    try:
        layer = background.layout_background_layer(
            box, object(), 1, image, size, 'border-box', (c['rx'], c['ry']), 'padding-box', position, 'scroll')
    except RAISES:
        return 'raise'
    if layer.image is None:
        return 'unused'
    assert layer.positioning_area == (ox, oy, pw, ph) and tuple(layer.painting_area) == (ox - 3, oy - 4, paw, pah)
    out = {'layer': [_s(v) for v in (*layer.size, *layer.position)], 'draw': None}
    log = []
    draw.draw_background_image(_Rec(log, Matrix()), layer, 'auto')
    pats = [a for a in log if a[0] == 'pattern']
    if pats:
        (x, y, w, h, rw, rh, matrix), = [p[1] for p in pats]
        assert (x, y) == (0, 0) and (w, h) == tuple(layer.size)
        out['draw'] = [_s(rw), _s(rh), _s(matrix[2][0] - ox), _s(matrix[2][1] - oy)]
    return out


# ------------------------------------------------------------------ Stream.add_image / _use_references

def add_images(c):
    """c['calls']: list of (image index, interpolate, ratio) ; c['ids']: list of id strings.
    returns names returned, final _images as list of (name, image index, interpolate, sorted ratios), XObject keys"""
    from weasyprint.pdf.stream import Stream
    import pydyf
    images = {}
    resources = pydyf.Dictionary({'XObject': pydyf.Dictionary()})
    stream = Stream(None, (0, 0, 10, 10), resources, images, False)
    imgs = [SimpleNamespace(id=i, n=n) for n, i in enumerate(c['ids'])]
    names = []
    for k, interp, ratio in c['calls']:
        names.append(stream.add_image(imgs[k], bool(interp), Fraction(ratio)))
    final = [[name, d['image'].n, bool(d['interpolate']), sorted(str(r) for r in d['dpi_ratios'])]
             for name, d in images.items()]
    return {'names': names, 'images': final, 'xobjects': list(resources['XObject'].keys()),
            'none': all(v is None for v in resources['XObject'].values())}


def use_refs(c):
    """c['dicts']: list of lists of image keys: several resource dictionaries (page, groups, patterns) referring to
    images by key; run _use_references over each in turn; returns per key how many x objects were built and how
    many objects were added to the pdf, and whether all dictionaries point to the same reference."""
    from weasyprint.pdf import _use_references
    import pydyf
    built = {}
    class Img:
        def __init__(self, key):
            self.key = key
        def get_x_object(self, interpolate, dpi_ratio):
            built[self.key] = built.get(self.key, 0) + 1
            return pydyf.Stream([b''], extra=pydyf.Dictionary({'key': self.key}))
    keys = sorted({k for d in c['dicts'] for k in d})
    images = {k: {'image': Img(k), 'interpolate': True, 'dpi_ratios': {1}, 'x_object': None} for k in keys}
    pdf = pydyf.PDF()
    n0 = len(pdf.objects)
    dicts = []
    for d in c['dicts']:
        res = pydyf.Dictionary({'XObject': pydyf.Dictionary({k: None for k in d})})
        _use_references(pdf, res, images)
        dicts.append(res)
    added = {}
    for o in pdf.objects[n0:]:
        k = getattr(o, 'extra', {}).get('key')
        added[k] = added.get(k, 0) + 1
    refs = {}
    same = True
    for res in dicts:
        for k, v in res['XObject'].items():
            if refs.setdefault(k, v) != v:
                same = False
    return {'built': built, 'added': added, 'same': same, 'keys': keys}
