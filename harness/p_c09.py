"""C09 - inline formatting: greedy line breaking inside the available width."""
import random, math, json
from fractions import Fraction
import common
from common import qlit, slit

PRE = ('From Coq Require Import ZArith QArith List String.\nRequire Import WV.model.C09Line WV.model.C09Judge '
       'WV.model.C09Align.\nImport ListNotations.\nOpen Scope string_scope.\nOpen Scope Z_scope.\n')
WS = ['normal', 'nowrap', 'pre', 'pre-wrap', 'pre-line']
OW = ['normal', 'anywhere', 'break-word']
LET = 'abcdefgh'
SHY, HY = '\xad', '‐'
SIZES = [1, 2, 3, 5, 7, 10, 12, 16, 25, 40]


def enc(t):
    return t.replace('\n', '/').replace(SHY, '-').replace(HY, '=')


def cbool(b):
    return 'true' if b else 'false'


def copt(x, f):
    return 'None' if x is None else '(Some %s)' % f(x)


# ------------------------------------------------------------------------------------------- generators

def gen_words(rng, nmax=None, shy=0.0):
    n = rng.choice([1, 1, 2, 3, 4, 6, 9, 14, 25, 60]) if nmax is None else rng.randint(1, nmax)
    lens = rng.choice([[1, 2, 3], [1, 2, 3, 5, 8], [3, 5, 8, 13], [1, 30], [1, 2, 3, 5, 8, 13, 21, 30]])
    ws = []
    for _ in range(n):
        wd = ''.join(rng.choice(LET) for _ in range(rng.choice(lens)))
        if shy and len(wd) > 1 and rng.random() < shy:
            for _ in range(rng.choice([1, 1, 2])):
                k = rng.randint(1, len(wd) - 1)
                if wd[k - 1] != SHY and wd[k] != SHY:
                    wd = wd[:k] + SHY + wd[k:]
        ws.append(wd)
    return ws


def vis_len(s):
    return sum(0 if c in (SHY, '\n') else 1 for c in s)


def pick_width(rng, fs, words):
    """widths concentrated on the boundaries: exact sums of whole words, +-1/4 px, small, 4em (ratio switch)"""
    pos, acc = [], -1
    for w in words:
        acc += 1 + vis_len(w)
        pos.append(acc)
    r = rng.random()
    if r < 0.08:
        return None
    if r < 0.16:
        return Fraction(rng.choice([0, 0, fs, 4 * fs, 4 * fs - 1, 3 * fs]))
    if r < 0.6:
        base = Fraction(rng.choice(pos[:40]) * fs)
        return base + rng.choice([0, 0, 0, Fraction(1, 4), Fraction(-1, 4), fs, -fs, Fraction(fs, 2)])
    if r < 0.8:
        return Fraction(rng.randint(0, 60 * 4 * fs), 4)
    return Fraction(rng.randint(0, 20 * fs))


def gen_sfl_case(rng, features='all'):
    ws = rng.choice(['normal', 'normal', 'normal', 'nowrap', 'pre', 'pre-wrap', 'pre-line'])
    ow = rng.choice(['normal', 'normal', 'anywhere', 'break-word'])
    wb = rng.choice(['normal', 'normal', 'normal', 'break-all'])
    hy = rng.choice(['manual', 'manual', 'manual', 'none'])
    fs = rng.choice(SIZES)
    shy = 0.0
    if features == 'all' and hy == 'manual' and rng.random() < 0.3:
        shy = 0.25
    if features == 'plain':
        ow, wb = 'normal', 'normal'
    words = gen_words(rng, shy=shy)
    nlp = 0.2 if ws in ('pre', 'pre-wrap', 'pre-line') else 0.0
    text = words[0]
    for wd in words[1:]:
        text += ('\n' if rng.random() < nlp else ' ') + wd
    if features == 'all':
        if rng.random() < 0.08:
            text = ' ' + text
        if rng.random() < 0.08:
            text += ' '
        if nlp and rng.random() < 0.08 and text[-1] != ' ':
            text += '\n'
    mw = pick_width(rng, fs, words)
    if mw is not None and rng.random() < 0.03:
        mw = -mw - Fraction(rng.choice([0, 1, 5]))
    ils = rng.random() < 0.75
    mini = rng.random() < 0.15
    return dict(text=text, ws=ws, ow=ow, wb=wb, hy=hy, fs=fs, mw=None if mw is None else str(mw), ils=ils, mini=mini)


def coq_outcome(st, o):
    if st != 'ok':
        return '(Raise 0)'
    ltext, length, resume, width = o[:4]
    return '(Out (tx %s) (%d) %s %s)' % (slit(enc(ltext)), length, copt(resume, lambda r: '(%d)' % r), qlit(Fraction(width)))


def coq_sfl_case(c, st, o):
    return '((%d%%nat, %d%%nat, %s, %s, %s), %s, %s, %s, %s, %s)' % (
        WS.index(c['ws']), OW.index(c['ow']), cbool(c['wb'] == 'break-all'), cbool(c['hy'] == 'manual'),
        qlit(Fraction(c['fs'])), slit(enc(c['text'])), copt(c['mw'], lambda m: qlit(Fraction(m))),
        cbool(c['ils']), cbool(c['mini']), coq_outcome(st, o))


def gen_raw_case(rng):
    fs = rng.choice(SIZES)
    ow = rng.choice(['normal', 'anywhere'])
    wc = rng.random() < 0.35
    words = gen_words(rng, nmax=6, shy=0.3)
    text = words[0]
    for wd in words[1:]:
        text += rng.choice([' ', ' ', ' ', '\n']) + wd
    if rng.random() < 0.15:
        text = ' ' + text
    if rng.random() < 0.15:
        text += ' '
    if rng.random() < 0.1 and text[-1] != ' ':
        text += '\n'
    if not wc and rng.random() < 0.4:
        text = text[:rng.randint(1, len(text))]          # the prefixes split_first_line lays out
    if rng.random() < 0.15 and text[-1] in LET + SHY:
        text += HY                                        # hyphenated candidates of step 4
    if wc and text[-1] == SHY:
        text = text[:-1]
    w = pick_width(rng, fs, words)
    return dict(text=text, ow=ow, fs=fs, w=None if w is None else str(w), wc=wc)


def coq_raw_case(c, o):
    t, l, r, width, attrs = o
    w = None if c['w'] is None else max(Fraction(0), Fraction(c['w']))
    return '(%s, %s, %s, %s, %s, (%d%%nat, %s, %s), %s)' % (
        cbool(c['ow'] == 'normal'), qlit(Fraction(c['fs'])), slit(enc(t)), copt(w, qlit), cbool(c['wc']),
        l, copt(r, lambda x: '%d%%nat' % x), qlit(Fraction(width)), slit(attrs))



# ----------------------------------------------------------------------------------- text_align / justify
ALIGNS = ['start', 'end', 'left', 'right', 'center', 'justify']


def gen_items(rng, depth=0):
    items = []
    for _ in range(rng.choice([1, 1, 2, 3, 4])):
        r = rng.random()
        if r < 0.6 or depth >= 2:
            n = rng.choice([1, 2, 3, 5])
            txt = ' '.join('a' * rng.randint(1, 4) for _ in range(n))
            if rng.random() < 0.15:
                txt = 'abc'
            if rng.random() < 0.1:
                txt += '\u00a0a'
            items.append(['t', txt, str(Fraction(len(txt) * rng.choice([1, 7, 10]), rng.choice([1, 1, 2, 3])))])
        elif r < 0.8:
            items.append(['a', str(Fraction(rng.randint(0, 40), rng.choice([1, 2])))])
        else:
            items.append(['i', gen_items(rng, depth + 1)])
    return items


def items_width(items):
    return sum((Fraction(it[2]) if it[0] == 't' else Fraction(it[1]) if it[0] == 'a' else items_width(it[1]))
               for it in items)


def gen_align_case(rng):
    items = gen_items(rng)
    w = items_width(items)
    r = rng.random()
    avail = (w if r < 0.1 else w + rng.choice([1, 5, Fraction(1, 3), 100]) if r < 0.75
             else w - rng.choice([1, Fraction(1, 2), 50]) if r < 0.85 else Fraction(rng.randint(0, 400), rng.choice([1, 3])))
    return dict(align=rng.choice(ALIGNS + ['justify', 'center']), align_last=rng.choice(['auto', 'auto'] + ALIGNS),
                dir=rng.choice(['ltr', 'ltr', 'rtl']), ws=rng.choice(['normal', 'normal', 'pre-line', 'pre-wrap', 'nowrap', 'pre']),
                last=rng.random() < 0.4, avail=str(avail), items=items)


def nspaces(t):
    return t.count(' ') + t.count('\u00a0')


def ibox_in(items, x, rtl):
    """Coq ibox terms of the stub boxes before the call, laid side by side from x"""
    out = []
    for it in items:
        if it[0] == 't':
            out.append('(T %d%%nat %s %s 0)' % (nspaces(it[1]), qlit(x), qlit(Fraction(it[2]))))
            x += Fraction(it[2])
        elif it[0] == 'a':
            out.append('(A %s %s)' % (qlit(x), qlit(Fraction(it[1]))))
            x += Fraction(it[1])
        else:
            w = items_width(it[1])
            out.append('(I %s %s %s [%s])' % (cbool(rtl), qlit(x), qlit(w), '; '.join(ibox_in(it[1], x, rtl))))
            x += w
    return out


def ibox_out(items, dumps, rtl):
    out = []
    for it, d in zip(items, dumps):
        if it[0] == 't':
            out.append('(T %d%%nat %s %s %s)' % (nspaces(it[1]), qlit(Fraction(d[0])), qlit(Fraction(d[1])), qlit(Fraction(d[2]))))
        elif it[0] == 'a':
            out.append('(A %s %s)' % (qlit(Fraction(d[0])), qlit(Fraction(d[1]))))
        else:
            out.append('(I %s %s %s [%s])' % (cbool(rtl), qlit(Fraction(d[0])), qlit(Fraction(d[1])),
                                              '; '.join(ibox_out(it[1], d[2], rtl))))
    return out


def coq_align_case(c, o):
    rtl = c['dir'] == 'rtl'
    off, dump = o
    w = items_width(c['items'])
    line_in = '(I %s 0 %s [%s])' % (cbool(rtl), qlit(w), '; '.join(ibox_in(c['items'], Fraction(0), rtl)))
    line_out = '(I %s %s %s [%s])' % (cbool(rtl), qlit(Fraction(dump[0])), qlit(Fraction(dump[1])),
                                      '; '.join(ibox_out(c['items'], dump[2], rtl)))
    return '(%d%%nat, %d%%nat, %s, %s, %s, %s, %s, %s, %s)' % (
        ALIGNS.index(c['align']), 0 if c['align_last'] == 'auto' else 1 + ALIGNS.index(c['align_last']),
        cbool(rtl), cbool(c['ws'] in ('normal', 'nowrap', 'pre-line')), cbool(c['last']), qlit(Fraction(c['avail'])),
        line_in, qlit(Fraction(off)), line_out)


# ------------------------------------------------------------------------------------------------ check

def check(run):
    rng = random.Random(run.seed * 7919 + 9)
    thorough = run.tier == 'thorough'
    common.prove(run, 'C09', ['model/C09Line.vo', 'model/C09Judge.vo', 'model/C09Align.vo'])
    stream_raw(run, rng, 4000 if thorough else 1200)
    stream_sfl(run, rng, 12000 if thorough else 3000)


def stream_raw(run, rng, n):
    cases = [gen_raw_case(rng) for _ in range(n)]
    outs = common.run_impl('impl_c09', 'raw', cases, chunksize=32)
    coq, kept = [], []
    for c, (st, o) in zip(cases, outs):
        if st != 'ok':
            run.fail('raw Pango call raised', {'stream': 'pango-G', 'case': c, 'outcome': o}, signature='raw-raise')
            continue
        coq.append(coq_raw_case(c, o)); kept.append((c, o))
    try:
        masks = common.eval_cases('c09raw', PRE, 'raw_case', coq, 'raw_judge')
        bad = [(c, o) for (c, o), m in zip(kept, masks) if m]
        run.oblige('corr:pango-G(hypothesis G = raw Pango first line and log attrs)', not bad,
                   'first disagreements: %s' % bad[:3])
        run.count('pango-G', len(kept), [(c['text'], c['w'], c['wc'], c['ow'], c['fs']) for c, _ in kept],
                  samples=[{'case': kept[0][0], 'pango': kept[0][1]}])
        run.stream_info('pango-G', rule='well-formed texts over a-h / single spaces / newlines / soft hyphens, their '
                        'prefixes and hyphenated candidates; widths on word-sum boundaries +-1/4px; WRAP_WORD and '
                        'WRAP_CHAR; insert_hyphens on/off; distinct = (text, width, mode, size)')
    except RuntimeError as exc:
        run.oblige('corr:pango-G', False, str(exc))


def trunc1024(mw):
    return int(Fraction(mw) * 1024)          # int() truncates towards zero like the implementation


def first_unit_em(text, hy):
    """advance (em) of the first unbreakable unit of the first paragraph"""
    p = text.split('\n')[0]
    i = 0
    while i < len(p) and p[i] == ' ':
        i += 1
    j = i
    while j < len(p) and p[j] != ' ' and not (hy == 'manual' and j > i and p[j - 1] == SHY):
        j += 1
    return vis_len(p[:j])


def classify_sfl(c, o, mask):
    """signature of the known mechanism explaining a deviation of the implementation from the greedy spec
    (None: unexplained)"""
    text, ow, wb = c['text'], c['ow'], c['wb']
    wrap = c['ws'] in ('normal', 'pre-wrap', 'pre-line')
    can_break = wb == 'break-all' or (c['ils'] and (ow == 'anywhere' or (ow == 'break-word' and not c['mini'])))
    if not wrap or c['mw'] is None:
        return None
    if can_break and trunc1024(c['mw']) < 0:
        return 'sfl-negative-width-no-wrap-when-breaking-inside-words'
    ltext = o[0]
    has_shy = SHY in text and c['hy'] == 'manual'
    if wb == 'break-all' and ow == 'normal' and not ltext.endswith(HY) and mask & 0b11110 == 2:
        return 'sfl-break-all-reserves-hyphen-room'
    if has_shy:
        if mask & 0b11110 == 4 and not ltext.endswith(HY):
            return 'sfl-soft-hyphen-break-without-hyphen'
        if first_unit_em(text, c['hy']) * c['fs'] > max(Fraction(c['mw']), 0):
            return 'sfl-overflowing-word-runs-to-first-soft-hyphen'
        if ow != 'normal':
            return 'sfl-soft-hyphen-under-overflow-wrap'
    return None


def stream_sfl(run, rng, n):
    cases = [gen_sfl_case(rng, 'plain' if i % 3 == 0 else 'all') for i in range(n)]
    outs = common.run_impl('impl_c09', 'sfl', cases, chunksize=32)
    coq = [coq_sfl_case(c, st, o) for c, (st, o) in zip(cases, outs)]
    for c, (st, o) in zip(cases, outs):
        if st == 'timeout':
            run.fail('split_first_line timeout', {'stream': 'sfl-direct', 'case': c}, signature='timeout')
        elif st == 'exc':
            run.fail('split_first_line raised %s' % o['type'], {'stream': 'sfl-direct', 'case': c, 'exc': o},
                     signature='sfl-crash:%s' % (o['site'],))
    try:
        masks = common.eval_cases('c09sfl', PRE, 'sfl_case', coq, 'sfl_judge')
    except RuntimeError as exc:
        run.oblige('corr:sfl-direct', False, str(exc))
        return
    mism = [(c, o) for c, (st, o), m in zip(cases, outs, masks) if m & 1]
    run.oblige('corr:sfl-direct(split_first_line_model G vs split_first_line with the real Pango)', not mism,
               'first disagreements: %s' % mism[:3])
    known = {}
    for c, (st, o), m in zip(cases, outs, masks):
        if st != 'ok' or not (m & 0b11110):
            continue
        sig = classify_sfl(c, o, m)
        if sig is None:
            run.fail('first line differs from the greedy specification (mask %d)' % m,
                     {'stream': 'sfl-direct', 'case': c, 'impl_output': o, 'mask': m})
        else:
            known[sig] = known.get(sig, 0) + 1
            run.fail('first line differs from the greedy specification: %s' % sig,
                     {'stream': 'sfl-direct', 'case': c, 'impl_output': o, 'mask': m}, signature=sig)
    feats = set()
    for c in cases:
        feats.add((c['ws'], c['ow'], c['wb'], c['hy'], SHY in c['text'], c['mw'] is None, c['ils'], c['mini'],
                   c['fs'], len(c['text']) // 20))
    run.count('sfl-direct', len(cases), feats, samples=[{'case': cases[1], 'impl': outs[1][1]}])
    run.stream_info('sfl-direct', known_mechanisms_hit=known,
                    rule='1..60 words of 1..30 letters a-h, single spaces (newlines under pre*), soft hyphens in 30%% of '
                         'the hyphens:manual cases, 10 font sizes 1..40px, widths on word-sum boundaries +-1/4px / 0 / '
                         '4em (ratio switch) / negative, every white-space x overflow-wrap x word-break x hyphens, '
                         'is_line_start, minimum; 1/3 plain (no overflow-wrap/break-all/soft hyphen/edge spaces); distinct '
                         '= (style, soft hyphen?, width None?, flags, size, length/20)')


def replay(data):
    print('nothing to replay')
    return 0
