"""C09 - inline formatting: greedy line breaking inside the available width."""
import random, math, json
from fractions import Fraction
import common
from common import qlit, slit

PRE = ('From Coq Require Import ZArith QArith List String.\nRequire Import WV.model.C09Line WV.model.C09Judge '
       'WV.model.C09Align WV.model.C09Float.\nImport ListNotations.\nOpen Scope string_scope.\nOpen Scope Z_scope.\n')
WS = ['normal', 'nowrap', 'pre', 'pre-wrap', 'pre-line']
OW = ['normal', 'anywhere', 'break-word']
LET = 'abcdefgh'
SHY, HY = '\xad', '‐'
SIZES = [1, 2, 3, 5, 7, 10, 12, 16, 25, 40]


def enc(t):
    return t.replace('\n', '/').replace(SHY, '-').replace(HY, '=')


def cbool(b):
    return 'true' if b else 'false'


def copt(x, f):
    return 'None' if x is None else '(Some %s)' % f(x)


# ------------------------------------------------------------------------------------------- generators

def gen_words(rng, nmax=None, shy=0.0):
    n = rng.choice([1, 1, 2, 3, 4, 6, 9, 14, 25, 60]) if nmax is None else rng.randint(1, nmax)
    lens = rng.choice([[1, 2, 3], [1, 2, 3, 5, 8], [3, 5, 8, 13], [1, 30], [1, 2, 3, 5, 8, 13, 21, 30]])
    ws = []
    for _ in range(n):
        wd = ''.join(rng.choice(LET) for _ in range(rng.choice(lens)))
        if shy and len(wd) > 1 and rng.random() < shy:
            for _ in range(rng.choice([1, 1, 2])):
                k = rng.randint(1, len(wd) - 1)
                if wd[k - 1] != SHY and wd[k] != SHY:
                    wd = wd[:k] + SHY + wd[k:]
        ws.append(wd)
    return ws


def vis_len(s):
    return sum(0 if c in (SHY, '\n') else 1 for c in s)


def pick_width(rng, fs, words):
    """widths concentrated on the boundaries: exact sums of whole words, +-1/4 px, small, 4em (ratio switch)"""
    pos, acc = [], -1
    for w in words:
        acc += 1 + vis_len(w)
        pos.append(acc)
    r = rng.random()
    if r < 0.08:
        return None
    if r < 0.16:
        return Fraction(rng.choice([0, 0, fs, 4 * fs, 4 * fs - 1, 3 * fs]))
    if r < 0.6:
        base = Fraction(rng.choice(pos[:40]) * fs)
        return base + rng.choice([0, 0, 0, Fraction(1, 4), Fraction(-1, 4), fs, -fs, Fraction(fs, 2)])
    if r < 0.8:
        return Fraction(rng.randint(0, 60 * 4 * fs), 4)
    return Fraction(rng.randint(0, 20 * fs))


def gen_sfl_case(rng, features='all'):
    ws = rng.choice(['normal', 'normal', 'normal', 'nowrap', 'pre', 'pre-wrap', 'pre-line'])
    ow = rng.choice(['normal', 'normal', 'anywhere', 'break-word'])
    wb = rng.choice(['normal', 'normal', 'normal', 'break-all'])
    hy = rng.choice(['manual', 'manual', 'manual', 'none'])
    fs = rng.choice(SIZES)
    shy = 0.0
    if features == 'all' and hy == 'manual' and rng.random() < 0.3:
        shy = 0.25
    if features == 'plain':
        ow, wb = 'normal', 'normal'
    words = gen_words(rng, shy=shy)
    nlp = 0.2 if ws in ('pre', 'pre-wrap', 'pre-line') else 0.0
    text = words[0]
    for wd in words[1:]:
        text += ('\n' if rng.random() < nlp else ' ') + wd
    if features == 'all':
        if rng.random() < 0.08:
            text = ' ' + text
        if rng.random() < 0.08:
            text += ' '
        if nlp and rng.random() < 0.08 and text[-1] != ' ':
            text += '\n'
    mw = pick_width(rng, fs, words)
    if mw is not None and rng.random() < 0.03:
        mw = -mw - Fraction(rng.choice([0, 1, 5]))
    ils = rng.random() < 0.75
    mini = rng.random() < 0.15
    return dict(text=text, ws=ws, ow=ow, wb=wb, hy=hy, fs=fs, mw=None if mw is None else str(mw), ils=ils, mini=mini)


def coq_outcome(st, o):
    if st != 'ok':
        return '(Raise 0)'
    ltext, length, resume, width = o[:4]
    return '(Out (tx %s) (%d) %s %s)' % (slit(enc(ltext)), length, copt(resume, lambda r: '(%d)' % r), qlit(Fraction(width)))


def coq_sfl_case(c, st, o):
    return '((%d%%nat, %d%%nat, %s, %s, %s), %s, %s, %s, %s, %s)' % (
        WS.index(c['ws']), OW.index(c['ow']), cbool(c['wb'] == 'break-all'), cbool(c['hy'] == 'manual'),
        qlit(Fraction(c['fs'])), slit(enc(c['text'])), copt(c['mw'], lambda m: qlit(Fraction(m))),
        cbool(c['ils']), cbool(c['mini']), coq_outcome(st, o))


def gen_raw_case(rng):
    fs = rng.choice(SIZES)
    ow = rng.choice(['normal', 'anywhere'])
    wc = rng.random() < 0.35
    words = gen_words(rng, nmax=6, shy=0.3)
    text = words[0]
    for wd in words[1:]:
        text += rng.choice([' ', ' ', ' ', '\n']) + wd
    if rng.random() < 0.15:
        text = ' ' + text
    if rng.random() < 0.15:
        text += ' '
    if rng.random() < 0.1 and text[-1] != ' ':
        text += '\n'
    if not wc and rng.random() < 0.4:
        text = text[:rng.randint(1, len(text))]          # the prefixes split_first_line lays out
    if rng.random() < 0.15 and text[-1] in LET + SHY:
        text += HY                                        # hyphenated candidates of step 4
    if wc and text[-1] == SHY:
        text = text[:-1]
    w = pick_width(rng, fs, words)
    return dict(text=text, ow=ow, fs=fs, w=None if w is None else str(w), wc=wc)


def coq_raw_case(c, o):
    t, l, r, width, attrs = o
    w = None if c['w'] is None else max(Fraction(0), Fraction(c['w']))
    return '(%s, %s, %s, %s, %s, (%d%%nat, %s, %s), %s)' % (
        cbool(c['ow'] == 'normal'), qlit(Fraction(c['fs'])), slit(enc(t)), copt(w, qlit), cbool(c['wc']),
        l, copt(r, lambda x: '%d%%nat' % x), qlit(Fraction(width)), slit(attrs))



# ----------------------------------------------------------------------------------- text_align / justify
ALIGNS = ['start', 'end', 'left', 'right', 'center', 'justify']


def gen_items(rng, depth=0):
    items = []
    for _ in range(rng.choice([1, 1, 2, 3, 4])):
        r = rng.random()
        if r < 0.6 or depth >= 2:
            n = rng.choice([1, 2, 3, 5])
            txt = ' '.join('a' * rng.randint(1, 4) for _ in range(n))
            if rng.random() < 0.15:
                txt = 'abc'
            if rng.random() < 0.1:
                txt += '\u00a0a'
            items.append(['t', txt, str(Fraction(len(txt) * rng.choice([1, 7, 10]), rng.choice([1, 1, 2, 3])))])
        elif r < 0.8:
            w = Fraction(rng.randint(0, 40), rng.choice([1, 2]))
            # boxes laid out inside the atomic box (one line of text boxes): [offset of the line, [widths of its boxes]]
            desc = []
            if rng.random() < 0.6:
                nk = rng.choice([1, 2, 3])
                desc = [str(w / 8), [str(w / (2 * nk)) for _ in range(nk)]]
            items.append(['a', str(w), desc])
        else:
            items.append(['i', gen_items(rng, depth + 1)])
    return items


def items_width(items):
    return sum((Fraction(it[2]) if it[0] == 't' else Fraction(it[1]) if it[0] == 'a' else items_width(it[1]))
               for it in items)


def gen_align_case(rng):
    items = gen_items(rng)
    w = items_width(items)
    r = rng.random()
    avail = (w if r < 0.1 else w + rng.choice([1, 5, Fraction(1, 3), 100]) if r < 0.75
             else w - rng.choice([1, Fraction(1, 2), 50]) if r < 0.85 else Fraction(rng.randint(0, 400), rng.choice([1, 3])))
    return dict(align=rng.choice(ALIGNS + ['justify', 'center']), align_last=rng.choice(['auto', 'auto'] + ALIGNS),
                dir=rng.choice(['ltr', 'ltr', 'rtl']), ws=rng.choice(['normal', 'normal', 'pre-line', 'pre-wrap', 'nowrap', 'pre']),
                last=rng.random() < 0.4, avail=str(avail), items=items)


def nspaces(t):
    return t.count(' ') + t.count('\u00a0')


def atomic_inside(x, desc):
    """Coq terms of the boxes inside an atomic box at x: a line box holding text boxes without spaces"""
    if not desc:
        return ''
    lx = x + Fraction(desc[0])
    ws = [Fraction(v) for v in desc[1]]
    kids, xx = [], lx
    for v in ws:
        kids.append('(T 0%%nat %s %s 0)' % (qlit(xx), qlit(v)))
        xx += v
    return '(I false %s %s [%s])' % (qlit(lx), qlit(sum(ws)), '; '.join(kids))


def ibox_in(items, x, rtl):
    """Coq ibox terms of the stub boxes before the call, laid side by side from x"""
    out = []
    for it in items:
        if it[0] == 't':
            out.append('(T %d%%nat %s %s 0)' % (nspaces(it[1]), qlit(x), qlit(Fraction(it[2]))))
            x += Fraction(it[2])
        elif it[0] == 'a':
            out.append('(A %s %s [%s])' % (qlit(x), qlit(Fraction(it[1])), atomic_inside(x, it[2])))
            x += Fraction(it[1])
        else:
            w = items_width(it[1])
            out.append('(I %s %s %s [%s])' % (cbool(rtl), qlit(x), qlit(w), '; '.join(ibox_in(it[1], x, rtl))))
            x += w
    return out


def ibox_out(items, dumps, rtl):
    out = []
    for it, d in zip(items, dumps):
        if it[0] == 't':
            out.append('(T %d%%nat %s %s %s)' % (nspaces(it[1]), qlit(Fraction(d[0])), qlit(Fraction(d[1])), qlit(Fraction(d[2]))))
        elif it[0] == 'a':
            inside = ''
            if d[2]:
                ln = d[2][0]
                inside = '(I false %s %s [%s])' % (qlit(Fraction(ln[0])), qlit(Fraction(ln[1])), '; '.join(
                    '(T 0%%nat %s %s 0)' % (qlit(Fraction(k[0])), qlit(Fraction(k[1]))) for k in ln[2]))
            out.append('(A %s %s [%s])' % (qlit(Fraction(d[0])), qlit(Fraction(d[1])), inside))
        else:
            out.append('(I %s %s %s [%s])' % (cbool(rtl), qlit(Fraction(d[0])), qlit(Fraction(d[1])),
                                              '; '.join(ibox_out(it[1], d[2], rtl))))
    return out


def coq_align_case(c, o):
    rtl = c['dir'] == 'rtl'
    off, dump = o
    w = items_width(c['items'])
    line_in = '(I %s 0 %s [%s])' % (cbool(rtl), qlit(w), '; '.join(ibox_in(c['items'], Fraction(0), rtl)))
    line_out = '(I %s %s %s [%s])' % (cbool(rtl), qlit(Fraction(dump[0])), qlit(Fraction(dump[1])),
                                      '; '.join(ibox_out(c['items'], dump[2], rtl)))
    return '(%d%%nat, %d%%nat, %s, %s, %s, %s, %s, %s, %s)' % (
        ALIGNS.index(c['align']), 0 if c['align_last'] == 'auto' else 1 + ALIGNS.index(c['align_last']),
        cbool(rtl), cbool(c['ws'] in ('normal', 'nowrap', 'pre-line')), cbool(c['last']), qlit(Fraction(c['avail'])),
        line_in, qlit(Fraction(off)), line_out)



# -------------------------------------------------------------------------------------- render monitor
OBJ = '￼'          # stands for an inline-block in line / source texts
EPS = 1e-3


def gen_inline(rng, cfg, depth, budget):
    """returns (html, processed-source tokens) where tokens is a list of ('w', word) | ('s',) | ('n',) | ('o',)"""
    html, toks = '', []
    n = rng.choice([1, 2, 3, 5, 8]) if depth else budget
    for k in range(n):
        if k:
            if cfg['pre'] and rng.random() < 0.12:
                html += '\n'; toks.append(('n',))
            else:
                html += ' '; toks.append(('s',))
        r = rng.random()
        if r < cfg['p_span'] and depth < 2:
            st = []
            for side in (('left', 'right') if cfg['leftdeco'] else ('right',) if cfg['rightdeco'] else ()):
                if rng.random() < 0.6:
                    st.append('padding-%s:%dpx' % (side, rng.choice([1, 2, 5, 10, 20])))
                    cfg['has_deco_' + side] = True
                if rng.random() < 0.4:
                    st.append('border-%s:%dpx solid' % (side, rng.choice([1, 2, 4])))
                    cfg['has_deco_' + side] = True
                if rng.random() < 0.4:
                    st.append('margin-%s:%dpx' % (side, rng.choice([1, 3, 7, 15])))
                    cfg['has_deco_' + side] = True
            right = sum(int(x.split(':')[1].split('px')[0]) for x in st if '-right' in x)
            cfg['right_max'] = max(cfg.get('right_max', 0), right)
            if cfg['mixed'] and rng.random() < 0.5:
                st.append('font-size:%dpx' % rng.choice(SIZES))
            if depth >= 1:
                cfg['has_nested'] = True
            h, t = gen_inline(rng, cfg, depth + 1, 0)
            html += '<span style="%s">%s</span>' % (';'.join(st), h)
            toks += t
        elif r < cfg['p_span'] + cfg['p_ib']:
            if rng.random() < cfg.get('p_ibt', 0):
                # an atomic inline-level box with descendants: inline-block / inline-table / inline-flex holding text
                disp = rng.choice(['inline-block', 'inline-block', 'inline-table', 'inline-flex'])
                inner = ' '.join(''.join(rng.choice(LET) for _ in range(rng.choice([1, 2, 3]))) for _ in range(rng.choice([1, 2, 3])))
                if disp == 'inline-flex':
                    inner = '<span>%s</span>' % inner
                html += '<span style="display:%s;padding:0 %dpx;border-left:%dpx solid%s">%s</span>' % (
                    disp, rng.choice([0, 2, 5]), rng.choice([0, 1, 3]),
                    rng.choice(['', '', ';width:%dpx' % rng.choice([20, 50, 80])]), inner)
                cfg['has_ibt'] = True
            else:
                html += '<span style="display:inline-block;width:%dpx;height:%dpx"></span>' % (
                    rng.choice([5, 10, 20, 40, 100]), rng.choice([1, 5, 10, 30]))
            toks.append(('o',))
            if depth >= 1:
                cfg['has_ib_in_span'] = True
        else:
            wd = ''.join(rng.choice(LET) for _ in range(rng.choice(cfg['lens'])))
            if cfg['shy'] and len(wd) > 1 and rng.random() < 0.3:
                j = rng.randint(1, len(wd) - 1)
                html += wd[:j] + '&shy;' + wd[j:]
                wd = wd[:j] + SHY + wd[j:]
            else:
                html += wd
            toks.append(('w', wd))
    return html, toks


def gen_render_case(rng, idx):
    fs = rng.choice(SIZES)
    ws = rng.choice(['normal'] * 5 + ['nowrap', 'pre', 'pre-wrap', 'pre-line'])
    ow = rng.choice(['normal'] * 4 + ['anywhere', 'break-word'])
    wb = rng.choice(['normal'] * 5 + ['break-all'])
    ta = rng.choice(['left', 'left', 'right', 'center', 'justify', 'start', 'end'])
    rtl = rng.random() < 0.1
    cfg = dict(pre=ws in ('pre', 'pre-wrap', 'pre-line'), p_span=rng.choice([0, 0, 0.15, 0.3]),
               p_ib=rng.choice([0, 0, 0.1, 0.15]), p_ibt=rng.choice([0, 0.5, 1]), leftdeco=rng.random() < 0.3, rightdeco=rng.random() < 0.6, mixed=rng.random() < 0.15, shy=rng.random() < 0.12,
               lens=rng.choice([[1, 2, 3], [1, 2, 3, 5, 8], [3, 5, 8, 13], [1, 30], [1, 2, 3, 5, 8, 13, 21, 30]]))
    nwords = rng.choice([1, 2, 3, 5, 8, 13, 21, 40, 80, 150, 400])
    if cfg['p_span']:
        nwords = min(nwords, 40)
    if rng.random() < 0.9:
        nwords = min(nwords, 40)
    em = rng.choice([0, 1, 2, 3, 4, 5, 8, 10, 15, 20, 30, 45, 60])
    width = fs * em + rng.choice([0, 0, 0, 1, -1, 0.5, 0.25])
    width = max(0, width)
    if (wb == 'break-all' or ow != 'normal') and em < 4:
        nwords = min(nwords, 8)         # one character per line: the implementation is quadratic there
    indent = rng.choice([0, 0, 0, 0, fs, 3 * fs, 25, -5]) if not rtl else 0
    flt = None
    if rng.random() < 0.08 and not rtl:
        flt = dict(side=rng.choice(['left', 'right']), w=rng.choice([10, 30, int(width / 2), int(width)]),
                   h=rng.choice([5, fs, 3 * fs, 50]))
    body, toks = gen_inline(rng, cfg, 0, nwords)
    style = ('font-size:%dpx;white-space:%s;overflow-wrap:%s;word-break:%s;hyphens:manual;text-align:%s;'
             'text-indent:%spx;direction:%s' % (fs, ws, ow, wb, ta, indent, 'rtl' if rtl else 'ltr'))
    html = ('<style>@page{size:3000px 200000px;margin:0}body{margin:0;font-family:weasyprint;line-height:1}</style>'
            '<div style="width:%spx">%s<div id="p%d" style="%s">%s</div></div>' % (
                width, ('<div style="float:%s;width:%dpx;height:%dpx"></div>' % (flt['side'], flt['w'], flt['h'])) if flt else '',
                idx, style, body))
    return dict(html=html, toks=toks, fs=fs, ws=ws, ow=ow, wb=wb, ta=ta, rtl=rtl, width=width, indent=indent, flt=flt,
                mixed=cfg['mixed'], shy=cfg['shy'], spans=cfg['p_span'] > 0,
                leftdeco=cfg.get('has_deco_left', False), rightdeco=cfg.get('has_deco_right', False),
                nested=cfg.get('has_nested', False), ib_in_span=cfg.get('has_ib_in_span', False),
                right_max=cfg.get('right_max', 0), ibt=cfg.get('has_ibt', False))


def source_text(toks, ws):
    """the white-space-processed text of the paragraph"""
    out = ''
    for t in toks:
        out += t[1] if t[0] == 'w' else ' ' if t[0] == 's' else OBJ if t[0] == 'o' else \
            ('\n' if ws in ('pre', 'pre-wrap', 'pre-line') else ' ')
    return out


def line_string(line):
    s = ''
    for it in line['items']:
        if it['kind'] == 'text':
            s += it['text']
        elif it['kind'] == 'atomic':
            s += OBJ
    return s


def mbw(it):
    return it['ml'] + it['bl'] + it['pl'] + it['w'] + it['pr'] + it['br'] + it['mr']


def first_break_x(line):
    """x of the first break opportunity strictly inside the content of the line (None when the line is one
    unbreakable unit): the start of the first space that has visible content before and after it, or an
    inline-block boundary with content on both sides"""
    items = [it for it in line['items'] if it['kind'] in ('text', 'atomic')]

    def closing_spacing(atom):
        # the end margin / border / padding (ltr) of the inline boxes of this line whose last content is this atomic
        # box: they follow it without a break opportunity, so they belong to its unit
        allit, total = line['items'], 0
        for a, box in enumerate(allit):
            if box['kind'] != 'inline':
                continue
            sub = [x for x in allit[a + 1:a + 1 + box.get('span', 0)]
                   if x['kind'] in ('atomic', 'text') and not (x['kind'] == 'text' and not x['text'])]
            if sub and sub[-1] is atom:
                total += box['mr'] + box['br'] + box['pr']
        return total
    # visible content units in order: (kind, x_start, x_end)
    seq = []
    for it in items:
        if it['kind'] == 'atomic':
            seq.append(('o', it['x'], it['x'] + mbw(it) + closing_spacing(it)))
        else:
            nsp = 0
            for k, ch in enumerate(it['text']):
                x0 = it['x'] + k * it['fs'] + nsp * it['js']
                if ch == ' ' or ch == '\u00a0':
                    if ch == ' ':
                        seq.append(('s', x0, x0 + it['fs'] + it['js']))
                    else:
                        seq.append(('c', x0, x0 + it['fs'] + it['js']))
                    nsp += 1
                elif ch == '\n' or ch == SHY:
                    continue
                else:
                    seq.append(('c', x0, x0 + it['fs']))
    while seq and seq[-1][0] == 's':
        seq.pop()
    seen = False
    for k, (kind, x0, x1) in enumerate(seq):
        if kind == 's':
            if seen:
                return x0
        elif kind == 'o':
            if seen:
                return x0
            seen = True
            if k + 1 < len(seq):
                return x1
        else:
            seen = True
    return None


def judge_render(case, paras):
    """list of (clause, detail) violated by the rendered paragraph"""
    bad = []
    neg_avail = False
    if len(paras) != 1:
        return [('paragraph-rendered-once', len(paras))]
    P = paras[0]
    lines = P['lines']
    ws, fs = case['ws'], case['fs']
    wrap = ws in ('normal', 'pre-wrap', 'pre-line')
    collapse = ws in ('normal', 'nowrap', 'pre-line')
    can_break = case['wb'] == 'break-all' or case['ow'] in ('anywhere', 'break-word')
    S = source_text(case['toks'], ws)
    left, right = P['x'], P['x'] + P['w']
    simple = case['flt'] is None
    # -- (c) the lines' texts cover the source once; what separates two lines
    pos, seps = 0, []
    for i, ln in enumerate(lines):
        t = line_string(ln)
        hyph = False
        if t.endswith(SHY + HY):
            t, hyph = t[:-1], True
        elif t.endswith(HY) and not S.startswith(t, pos):
            t, hyph = t[:-1], True
        t_cmp = t.rstrip(' ') if collapse else t
        if collapse and not S.startswith(t_cmp, pos):
            # tolerate (and report separately) single spaces of the source missing inside the line
            j, k2, dropped = pos, 0, 0
            while k2 < len(t_cmp) and j < len(S):
                if S[j] == t_cmp[k2]:
                    j += 1; k2 += 1
                elif S[j] == ' ' and j + 1 < len(S) and S[j + 1] == t_cmp[k2]:
                    j += 1; dropped += 1
                else:
                    break
            if k2 == len(t_cmp) and dropped:
                bad.append(('space-dropped-inside-line', 'line %d %r: %d space(s) of the source missing' % (i, t, dropped)))
                t_cmp = S[pos:j]
        if not S.startswith(t_cmp, pos):
            bad.append(('lines-cover-text', 'line %d %r does not continue the source at %d (%r)' % (i, t, pos, S[pos:pos + 40])))
            break
        pos += len(t_cmp)
        k = pos
        while collapse and k < len(S) and S[k] == ' ':
            k += 1
        if not collapse:
            # preserved spaces hang at the end of the line they follow (already part of t)
            pass
        sep = 'space' if k > pos else 'none'
        if k < len(S) and S[k] == '\n':
            k += 1
            sep = 'nl'
            while collapse and k < len(S) and S[k] == ' ':
                k += 1
        seps.append((sep, hyph, t))
        pos = k
    else:
        if pos != len(S):
            bad.append(('lines-cover-text', 'source not exhausted: %r left' % S[pos:pos + 40]))
    if any(b[0] == 'lines-cover-text' for b in bad):
        return bad
    # -- per line
    for i, ln in enumerate(lines):
        sep, hyph, t = seps[i]
        last = i == len(lines) - 1
        avail = P['w']
        if i == 0 and case['indent'] > avail and can_break:
            neg_avail = True
        width = ln['w']
        units = first_break_x(ln) is not None
        tcontent = t.strip(' \n')
        # (a) no overflow unless one unbreakable unit (one character when words may be broken)
        hang = 0
        if not collapse:
            tbs = [it for it in ln['items'] if it['kind'] == 'text' and it['text']]
            if tbs:
                tt = tbs[-1]['text'].rstrip('\n')
                hang = (len(tt) - len(tt.rstrip(' '))) * tbs[-1]['fs']
        if simple and wrap and width - hang > avail + EPS:
            one_unit = not units
            if can_break:
                one_unit = one_unit and len(tcontent.replace(SHY, '')) <= 1
            if not one_unit:
                bad.append(('no-overflow-unless-one-unit', 'line %d %r width %s > %s' % (i, t, width, avail)))
        # (c') allowed break opportunities
        if not last:
            if not wrap and sep != 'nl':
                bad.append(('break-only-at-opportunities', 'line %d broken under white-space:%s' % (i, ws)))
            if sep == 'nl' and ws in ('normal', 'nowrap'):
                bad.append(('break-only-at-opportunities', 'newline break under %s' % ws))
            if wrap and sep == 'none':
                nxt = line_string(lines[i + 1])
                at_obj = t.endswith(OBJ) or nxt.startswith(OBJ)
                pre_space = (not collapse) and t.endswith(' ')
                if not (hyph or at_obj or pre_space or can_break):
                    bad.append(('break-only-at-opportunities', 'line %d %r | %r broken inside a word' % (i, t, nxt[:20])))
                if can_break and not (hyph or at_obj or pre_space):
                    # breaking inside a word only when needed: the unit did not fit on a line of its own
                    pass
        # (b) greedy: the first unit of the next line would not have fitted
        if simple and wrap and not last and sep in ('space', 'none') and case['ta'] != 'justify' and not case['rtl']:
            nl_ = lines[i + 1]
            fb = first_break_x(nl_)
            extent = (fb - nl_['x']) if fb is not None else nl_['w']
            gap = 0
            if sep == 'space':
                sizes = [it['fs'] for it in ln['items'] if it['kind'] == 'text'][-1:] + \
                        [it['fs'] for it in nl_['items'] if it['kind'] == 'text'][:1]
                gap = max(sizes) if sizes else 0      # the collapsed space belonged to one of the two boxes
                if not collapse:
                    gap = 0      # the preserved space is already on this line
            w_used = width
            next_broken_inside = (can_break and i + 1 < len(seps) and seps[i + 1][0] == 'none' and not seps[i + 1][1]
                                  and fb is None)
            if w_used + gap + extent <= avail - EPS and not (can_break and sep == 'none' and not hyph) \
                    and not next_broken_inside:
                bad.append(('greedy', 'line %d %r (%s of %s): next unit of extent %s would fit' % (i, t, w_used, avail, extent)))
        # (e) inside the block after alignment
        if simple and width <= avail + EPS:
            if ln['x'] < left - EPS or ln['x'] + width > right + EPS:
                bad.append(('line-inside-block', 'line %d x=%s w=%s block %s..%s' % (i, ln['x'], width, left, right)))
            ta = case['ta']
            if case['rtl']:
                ta = {'start': 'right', 'end': 'left'}.get(ta, ta)
            else:
                ta = {'start': 'left', 'end': 'right'}.get(ta, ta)
            lastish = last or sep == 'nl'
            if ta == 'justify' and (lastish or not collapse):
                ta = 'right' if case['rtl'] else 'left'
            if ta == 'left' and abs(ln['x'] - left) > EPS:
                bad.append(('text-align', 'left: line %d at %s' % (i, ln['x'])))
            if ta == 'right' and abs(ln['x'] + width - right) > EPS:
                bad.append(('text-align', 'right: line %d ends at %s' % (i, ln['x'] + width)))
            if ta == 'center' and abs((ln['x'] - left) - (right - ln['x'] - width)) > EPS:
                bad.append(('text-align', 'center: line %d at %s w %s' % (i, ln['x'], width)))
            if ta == 'justify' and ' ' in tcontent and abs(width - avail) > EPS:
                bad.append(('justify-fills', 'line %d %r width %s of %s' % (i, t, width, avail)))
        # (d) extents add up (ltr)
        if not case['rtl']:
            x = ln['x'] + (case['indent'] if i == 0 else 0)
            tot = (case['indent'] if i == 0 else 0)
            stack = []      # (remaining kids, end x expected)
            items = ln['items']
            def walk(k, x0, depth):
                xx = x0
                while k < len(items) and items[k]['depth'] == depth:
                    it = items[k]
                    if it['kind'] in ('float', 'abs'):
                        k += 1 + it.get('span', 0)
                        continue
                    if abs(it['x'] - xx) > EPS:
                        bad.append(('extents-add-up', 'line %d item %d (%s) at %s, expected %s' % (i, k, it['kind'], it['x'], xx)))
                        return None, None
                    if it['kind'] == 'inline':
                        inner = it['x'] + it['ml'] + it['bl'] + it['pl']
                        k2, end = walk(k + 1, inner, depth + 1)
                        if k2 is None:
                            return None, None
                        if abs(end - (inner + it['w'])) > EPS:
                            bad.append(('extents-add-up', 'line %d inline box %d content %s..%s but width %s' % (i, k, inner, end, it['w'])))
                            return None, None
                        k = k2
                    else:
                        k += 1
                    xx += mbw(it)
                return k, xx
            k, end = walk(0, x, 0)
            if k is not None and abs(end - (ln['x'] + width)) > EPS:
                bad.append(('extents-add-up', 'line %d children end at %s, line box at %s' % (i, end, ln['x'] + width)))
        # (d') extents add up (rtl): the in-flow children of the line box, in visual order, tile the line box
        if case['rtl']:
            top = sorted((it for it in ln['items'] if it['depth'] == 0 and it['kind'] not in ('float', 'abs')
                          and mbw(it) > EPS), key=lambda it: it['x'])
            xx = ln['x']
            for it in top:
                if abs(it['x'] - xx) > EPS:
                    bad.append(('extents-add-up', 'line %d (rtl) child (%s) at %s, expected %s' % (i, it['kind'], it['x'], xx)))
                    break
                xx += mbw(it)
            else:
                if top and abs(xx - (ln['x'] + width)) > EPS:
                    bad.append(('extents-add-up', 'line %d (rtl) children end at %s, line box at %s' % (i, xx, ln['x'] + width)))
        # (f) stacking
        if simple and i + 1 < len(lines):
            if abs(lines[i + 1]['y'] - (ln['y'] + ln['h'])) > EPS:
                bad.append(('lines-stack', 'line %d y=%s h=%s, next at %s' % (i, ln['y'], ln['h'], lines[i + 1]['y'])))
        if simple and i == 0 and abs(ln['y'] - P['y']) > EPS:
            bad.append(('lines-stack', 'first line at %s, block content at %s' % (ln['y'], P['y'])))
        if simple and not case['mixed'] and not any(it['kind'] == 'atomic' for it in ln['items']) \
                and abs(ln['h'] - fs) > EPS and any(it['kind'] == 'text' for it in ln['items']):
            bad.append(('lines-stack', 'line %d height %s with line-height %s' % (i, ln['h'], fs)))
    if not case['flt'] is None:
        # floats before the paragraph: lines do not overlap the float and stay inside the block
        f = case['flt']
        for i, ln in enumerate(lines):
            if ln['y'] < f['h'] - EPS and ln['w'] > 0:
                lo, hi = (left + f['w'], right) if f['side'] == 'left' else (left, right - f['w'])
                if ln['w'] <= hi - lo + EPS and (ln['x'] < lo - EPS or ln['x'] + ln['w'] > hi + EPS):
                    bad.append(('line-beside-float', 'line %d x=%s w=%s free %s..%s' % (i, ln['x'], ln['w'], lo, hi)))
    return bad



def judge_nested(case, blocks):
    """every block container that holds lines and is not the paragraph itself (inline-blocks, cells of inline-tables,
    items of inline-flex boxes put on the paragraph's lines): its lines lie inside its content box and the children of
    each line are side by side and add up to the line width.  When a line of the paragraph is justified or aligned,
    the atomic box is moved: its descendants must have moved with it."""
    bad = []
    for bi, B in enumerate(blocks):
        if B['main']:
            continue
        left, right = B['x'], B['x'] + B['w']
        for i, ln in enumerate(B['lines']):
            lo = left + (min(B['indent'], 0) if i == 0 else 0)
            if ln['w'] <= B['w'] + EPS and (ln['x'] < lo - EPS or ln['x'] + ln['w'] > right + EPS):
                bad.append(('descendants-move-with-their-box',
                            'block %d (%s) line %d x=%s w=%s outside its content box %s..%s' % (
                                bi, B['cls'], i, ln['x'], ln['w'], left, right)))
            if B['direction'] == 'ltr':
                x = ln['x'] + (B['indent'] if i == 0 else 0)
                top = [it for it in ln['items'] if it['depth'] == 0 and it['kind'] not in ('float', 'abs')]
                for it in top:
                    if abs(it['x'] - x) > EPS:
                        bad.append(('descendants-move-with-their-box',
                                    'block %d (%s) line %d: child at %s, expected %s' % (bi, B['cls'], i, it['x'], x)))
                        break
                    x += mbw(it)
                else:
                    if top and abs(x - (ln['x'] + ln['w'])) > EPS:
                        bad.append(('descendants-move-with-their-box',
                                    'block %d (%s) line %d: children end at %s, line box at %s' % (
                                        bi, B['cls'], i, x, ln['x'] + ln['w'])))
    return bad


# ----------------------------------------------------------------------------- lines next to stacked floats
SPACING_EMS = [0, 0, 0.5, 1, 1, 2, 2, 3]


def gen_float_spans(rng, lo, hi, depth, p):
    """properly nested inline boxes over the words lo..hi-1, at most two deep: dict(s, e, depth, start, end, how) with
    s..e the words inside (e included) and start / end the spacing in em at the start / end side of the box; most boxes
    close right after their first word"""
    out, k = [], lo
    while k < hi:
        if rng.random() < p:
            e = min(hi - 1, k + rng.choice([0, 0, 0, 1, 2, 4]))
            out.append(dict(s=k, e=e, depth=depth, start=rng.choice(SPACING_EMS), end=rng.choice(SPACING_EMS),
                            how=rng.choice(['padding', 'margin', 'border', 'mix'])))
            if depth < 1 and rng.random() < 0.4:
                out += gen_float_spans(rng, k, e + 1, depth + 1, 0.6)
            k = e + 1
        else:
            k += 1
    return out


def span_css(sp, fs, rtl):
    st = []
    for amount, side in ((sp['start'], 'right' if rtl else 'left'), (sp['end'], 'left' if rtl else 'right')):
        px = amount * fs
        if not px:
            continue
        if sp['how'] == 'padding':
            st.append('padding-%s:%gpx' % (side, px))
        elif sp['how'] == 'margin':
            st.append('margin-%s:%gpx' % (side, px))
        elif sp['how'] == 'border':
            st.append('border-%s:%gpx solid' % (side, px))
        else:
            st += ['padding-%s:%gpx' % (side, px / 2), 'border-%s:%gpx solid' % (side, px / 4),
                   'margin-%s:%gpx' % (side, px / 4)]
    return ';'.join(st)


def float_text_html(words, spans, fs, rtl, mid_html=None, mid_at=None, atom_h=None):
    out = ''
    for k, w in enumerate(words):
        if k:
            out += ' '
        if mid_at == k:
            out += mid_html
        for sp in sorted((sp for sp in spans if sp['s'] == k), key=lambda sp: sp['depth']):
            out += '<span style="%s">' % span_css(sp, fs, rtl)
        if w.startswith(OBJ):
            out += '<span style="display:inline-block;width:%dpx;height:%dpx"></span>' % (len(w) * fs, atom_h or fs)
        else:
            out += w
        out += '</span>' * len([sp for sp in spans if sp['e'] == k])
    return out


def gen_float_case(rng, idx, allow_inline=True, allow_mid=True, allow_tall_aligned=True, allow_atomic=False):
    """1..3 floats (left/right, clear) whose heights are exact multiples of the line height or one pixel off, before
    the text of the block (block-level floats or floated spans at the very start of the paragraph), sometimes one
    more float met in the middle of the text.  Two paragraphs out of three carry inline boxes with start / end margin,
    border, padding (multiples of half the font size, nested, mostly closing after their first word); then the room
    left beside one of the floats is a small number of em and the words are as long as that room or a little shorter,
    so that a word often fits there without the spacing of its inline boxes but not with it."""
    fs = rng.choice([5, 10, 10, 16])
    lh = rng.choice([fs, fs, 2 * fs, fs + 3])
    em = rng.choice([6, 8, 10, 12, 15, 20, 30])
    width = fs * em + rng.choice([0, 0, 0, 1, -1])
    ta = rng.choice(['left', 'left', 'left', 'start', 'right', 'justify'])
    if ta in ('right', 'justify') and not allow_tall_aligned:
        lh = fs
    inline = rng.random() < 0.3 and allow_inline
    spanned = rng.random() < 0.67
    rtl = spanned and rng.random() < 0.3
    room = rng.choice([2, 3, 3, 4, 4, 5, 6]) if spanned else None
    floats = []
    for k in range(rng.choice([1, 2, 2, 3])):
        side = rng.choice(['left', 'left', 'right'])
        fw = rng.choice([fs, 2 * fs, 3 * fs, 5 * fs, int(width / 2), int(width * 0.8)])
        if spanned and (k == 0 or rng.random() < 0.3) and em - room >= 1:
            fw = fs * (em - room)
        fh = max(1, lh * rng.choice([1, 1, 2, 3]) + rng.choice([0, 0, 0, 1, -1]))
        clear = rng.choice(['none', 'none', side, 'both'])
        floats.append(dict(side=side, w=fw, h=fh, clear=clear,
                           mt=rng.choice([0, 0, 0, lh, 1]), mb=rng.choice([0, 0, 0, lh])))
    words = gen_words(rng, nmax=rng.choice([6, 12, 25, 40]))
    words = [w[:rng.choice([1, 2, 3, 5, 8])] for w in words]
    if spanned:
        words = [(w + w + w)[:max(1, room - rng.choice([0, 0, 1, 1, 2]))] if rng.random() < 0.5 else w for w in words]
    if allow_atomic and spanned and rng.random() < 0.3:
        # atomic inline-level boxes as words: OBJ repeated k times stands for an inline-block k em wide (not generated
        # while F207 is open: see stream_floats)
        words = [OBJ * rng.choice([1, 2, max(1, room - 1), room, room + 1]) if rng.random() < 0.25 else w for w in words]
        atom_h = rng.choice([fs // 2, fs, lh, lh + fs])
    else:
        atom_h = fs
    tag = 'span' if inline else 'div'
    fl_html = ''.join('<%s style="float:%s;clear:%s;width:%dpx;height:%dpx;margin-top:%dpx;margin-bottom:%dpx"></%s>' % (
        tag, f['side'], f['clear'], f['w'], f['h'] - f['mt'] - f['mb'] if f['h'] - f['mt'] - f['mb'] > 0 else f['h'],
        f['mt'], f['mb'], tag) for f in floats)
    mid, mid_html, cut = None, None, len(words)
    if rng.random() < 0.1 and len(words) > 3 and allow_mid:
        j = rng.randint(1, len(words) - 1)
        mid = dict(side=rng.choice(['left', 'right']), w=rng.choice([fs, 3 * fs]), h=rng.choice([lh, 2 * lh + 1]), at=j)
        mid_html = '<span style="float:%s;width:%dpx;height:%dpx"></span>' % (mid['side'], mid['w'], mid['h'])
        cut = j
    spans = []
    if spanned:
        # the float met in the text stays a child of the line box: no inline box spans over it
        p = rng.choice([0.15, 0.3, 0.5])
        spans = gen_float_spans(rng, 0, cut, 0, p) + gen_float_spans(rng, cut, len(words), 0, p)
        if rng.random() < 0.5 and not any(sp['s'] == 0 for sp in spans):
            spans.append(dict(s=0, e=0, depth=0, start=rng.choice(SPACING_EMS[2:]), end=rng.choice(SPACING_EMS),
                              how=rng.choice(['padding', 'margin', 'border', 'mix'])))
    text = float_text_html(words, spans, fs, rtl, mid_html, mid and mid['at'], atom_h)
    style = 'width:%spx;font-size:%dpx;line-height:%dpx;text-align:%s' % (width, fs, lh, ta)
    if rtl:
        style += ';direction:rtl'
    if inline:
        body = '<p id="p%d" style="margin:0;%s">%s%s</p>' % (idx, style, fl_html, text)
    else:
        body = '<div id="p%d" style="%s">%s%s</div>' % (idx, style, fl_html, text)
    html = ('<style>@page{size:3000px 200000px;margin:0}body{margin:0;font-family:weasyprint}</style>' + body)
    return dict(html=html, words=words, fs=fs, lh=lh, width=width, ta=ta, inline=inline, nfloats=len(floats), mid=mid,
                spans=spans, rtl=rtl, atom_h=atom_h)


def free_interval(B, floats, top, bottom):
    """what the floats leave of the content box between y=top and y=bottom: a float narrows the interval iff its margin
    box shares some vertical extent with [top, bottom) - CSS 2.1 9.5.1: touching edges do not count"""
    left, right = B['x'], B['x'] + B['w']
    for f in floats:
        if f['y'] < bottom - EPS and f['y'] + f['mh'] > top + EPS:
            if f['side'] == 'left':
                left = max(left, f['x'] + f['mw'])
            else:
                right = min(right, f['x'])
    return left, right


def floats_beside(floats, top, bottom):
    return [f for f in floats if f['y'] < bottom - EPS and f['y'] + f['mh'] > top + EPS and f['mw'] > 0]


def float_line_text(ln, fs):
    """the text of the line; an atomic inline-level box k em wide reads as OBJ repeated k times"""
    s = ''
    for it in ln['items']:
        if it['kind'] == 'text':
            s += it['text']
        elif it['kind'] == 'atomic':
            s += OBJ * max(1, int(round(mbw(it) / fs)))
    return s


def float_lines(blocks, fs=None):
    """the main container and its lines that hold something"""
    mains = [b for b in blocks if b['main']]
    if len(mains) != 1:
        return None, []
    B = mains[0]
    if fs is not None:
        for ln in B['lines']:
            ln['text'] = float_line_text(ln, fs)
    return B, [ln for ln in B['lines'] if ln['text'].strip(' ') or ln['w'] > 0]


def float_units(case):
    """from the source: per word, the start spacing of the inline boxes that open before it and the end spacing of
    those that close after it (px).  No break opportunity separates a word from them: they belong to its unit."""
    n, fs = len(case['words']), case['fs']
    st, en = [0] * n, [0] * n
    for sp in case.get('spans', ()):
        st[sp['s']] += sp['start'] * fs
        en[sp['e']] += sp['end'] * fs
    return st, en


def judge_floats(case, blocks, hyp=None, stats=None):
    """hyp = (line index, dl, dr): judge that line only, in the free interval reduced by dl at the left and dr at the
    right (used by classify_floats to test a hypothesis about the mechanism of an alarm).
    The unit of a word = the word with the start / end spacing of the inline boxes that open right before / close right
    after it; a line of the words a..b-1 is as wide as its words, spaces and the spacing of the boxes that open or close
    on it (computed from the source, cross-checked on ltr lines with first_break_x of the rendered line)."""
    bad = []
    B, lines = float_lines(blocks, case['fs'])
    if B is None:
        return [('paragraph-rendered-once', 'line 0 %d containers' % len([b for b in blocks if b['main']]))]
    floats, fs, words = B['floats'], case['fs'], case['words']
    rtl = case.get('rtl', False)
    got = ' '.join(ln['text'].strip(' ') for ln in B['lines'] if ln['text'].strip(' '))
    if got != ' '.join(words):
        return [('lines-cover-text', 'line 0 texts %r' % got[:80])]
    st, en = float_units(case)

    def unit(k):
        return len(words[k]) * fs + st[k] + en[k]

    def natural(a, b):
        return (sum(len(w) for w in words[a:b]) + max(0, b - a - 1)) * fs + sum(st[a:b]) + sum(en[a:b])
    ranges, k = [], 0
    for ln in lines:
        cnt = len(ln['text'].split())
        ranges.append((k, k + cnt))
        k += cnt
    for i, ln in enumerate(lines):
        if hyp is not None and i != hyp[0]:
            continue
        a, b = ranges[i]
        top, bottom = ln['y'], ln['y'] + ln['h']
        left, right = free_interval(B, floats, top, bottom)
        if hyp is not None:
            left, right = left + hyp[1], right - hyp[2]
        avail = right - left
        text = ln['text'].strip(' ')
        last = i == len(lines) - 1
        holds_float = any(it['kind'] == 'float' for it in ln['items'])
        if stats is not None and b > a and st[a] + en[a] > 0:
            # the boundary this stream is after, at the position where the line is tried first (top of the block,
            # right below the previous line): a float is beside it and the first word fits in the room left there
            # without the spacing of its inline boxes but not with it
            y0 = B['y'] if i == 0 else lines[i - 1]['y'] + lines[i - 1]['h']
            l0, r0 = free_interval(B, floats, y0, y0 + ln['h'])
            if floats_beside(floats, y0, y0 + ln['h']) and len(words[a]) * fs <= r0 - l0 + EPS < unit(a):
                key = 'first_word_fits_beside_float_only_without_its_spacing_' + ('line0' if i == 0 else 'later_line')
                stats[key] = stats.get(key, 0) + 1
        if ln['w'] > avail + EPS and b - a >= 2:
            bad.append(('float-fit', 'line %d %r x=%s w=%s free %s..%s' % (i, text, ln['x'], ln['w'], left, right)))
        elif ln['w'] > avail + EPS and b > a and natural(a, b) > avail + EPS:
            # one unbreakable unit (its width from the source: a space kept at the end of the line box is not part of
            # it): it may stick out of the room left by the floats only where no float is left beside it (CSS 2.1
            # 9.5: otherwise the line box is shifted downward)
            beside = floats_beside(floats, top, bottom)
            if beside:
                over = [f for f in beside if
                        min(ln['x'] + ln['w'], f['x'] + f['mw']) - max(ln['x'], f['x']) > EPS]
                bad.append(('float-unit-beside-float', 'line %d %r x=%s w=%s free %s..%s: does not fit beside the float(s) '
                            'at its height%s' % (i, text, ln['x'], ln['w'], left, right,
                                                 ' and overlaps %d of them' % len(over) if over else '')))
        elif ln['w'] <= avail + EPS:
            ta = {'start': 'right' if rtl else 'left'}.get(case['ta'], case['ta'])
            if ta == 'justify' and (last or b - a < 2):
                ta = 'right' if rtl else 'left'
            n0 = len(bad)
            if ta == 'left' and abs(ln['x'] - left) > EPS:
                bad.append(('float-start-x', 'line %d %r x=%s w=%s free %s..%s' % (i, text, ln['x'], ln['w'], left, right)))
            if ta == 'right' and abs(ln['x'] + ln['w'] - right) > EPS:
                bad.append(('float-start-x', 'line %d %r x=%s w=%s free %s..%s' % (i, text, ln['x'], ln['w'], left, right)))
            if ta == 'justify' and (abs(ln['x'] - left) > EPS or abs(ln['w'] - avail) > EPS):
                bad.append(('float-start-x', 'line %d %r x=%s w=%s free %s..%s' % (i, text, ln['x'], ln['w'], left, right)))
            if len(bad) == n0 and (ln['x'] < left - EPS or ln['x'] + ln['w'] > right + EPS):
                bad.append(('float-overlap', 'line %d %r x=%s w=%s free %s..%s' % (i, text, ln['x'], ln['w'], left, right)))
        justified = case['ta'] == 'justify' and not last and b - a >= 2
        if not holds_float and not justified and b > a and abs(ln['w'] - natural(a, b)) > EPS:
            bad.append(('float-line-extent', 'line %d %r w=%s but its words, spaces and the spacing of the inline boxes '
                        'that open / close on it add up to %s' % (i, text, ln['w'], natural(a, b))))
        if not rtl and not holds_float and not justified and b > a:
            fb = first_break_x(ln)
            ext = (fb - ln['x']) if fb is not None else ln['w']
            if abs(ext - unit(a)) > EPS:
                bad.append(('float-unit-extent', 'line %d %r first unit ends at %s after the line start, source says %s' % (
                    i, text, ext, unit(a))))
        if i == 0 and hyp is None and b > a and ln['y'] > B['y'] + EPS:
            l2, r2 = free_interval(B, floats, B['y'], B['y'] + ln['h'])
            if unit(a) <= r2 - l2 + EPS:
                bad.append(('float-needless-gap', 'line %d starts at %s, its block at %s although %r (unit %s) fits in %s..%s' % (
                    i, ln['y'], B['y'], words[a], unit(a), l2, r2)))
        if not last:
            nxt = lines[i + 1]
            if b >= len(words) or b <= a:
                continue
            word = words[b]
            nat = natural(a, b)
            if case['ta'] != 'justify' and nat + fs + unit(b) <= avail - EPS:
                bad.append(('float-greedy', 'line %d %r (%s of %s..%s): %r (unit %s) would fit' % (
                    i, text, nat, left, right, word, unit(b))))
            if nxt['y'] < bottom - EPS:
                bad.append(('float-lines-stack', 'line %d ends at %s, next starts at %s' % (i, bottom, nxt['y'])))
            elif nxt['y'] > bottom + EPS:
                # the next line was pushed down: its first unit must not fit right below this line
                l2, r2 = free_interval(B, floats, bottom, bottom + nxt['h'])
                if unit(b) <= r2 - l2 + EPS:
                    bad.append(('float-needless-gap', 'line %d ends at %s, next at %s although %r (unit %s) fits in %s..%s' % (
                        i, bottom, nxt['y'], word, unit(b), l2, r2)))
    return bad


def classify_floats(case, blocks, clause, detail):
    """signature of the open finding whose mechanism explains this alarm on this line (None: unexplained).
    F202 inline-float-placed-below-its-line-takes-room-on-it: clause float-greedy only (the position of such a line
      is repaired: 3498515); the line holds a float that the float layout placed below the line (rule 5 of CSS 2.1
      9.5.1 or clear), and the line is greedy and fits when the width of that float is taken from the free interval at
      the float's side; a float that waited for the end of the line because it did not fit fails the fit test.
    F203 line-trailing-space-kept-before-out-of-flow-box: clause float-fit; the last text of the line ends with a
      collapsible space that is followed, in the line, by a float; the line fits without that space.
    F207 line-starting-with-atomic-box-kept-beside-float: clause float-unit-beside-float; the first content of the
      line is an atomic inline-level box (the estimate of the first unit is the empty line before the box: 0).
    F50, F51, F135, F183, F184, F187, F201 (line box of a line holding a left float), F210 (rtl) and F206 (first
    unit of a line beside floats measured with spacing / a space that is not on the line) are repaired: no branch for
    them.  The clauses float-unit-beside-float, float-line-extent, float-unit-extent and float-overlap have no open
    finding."""
    import re
    m = re.match(r'line (\d+)', detail)
    B, lines = float_lines(blocks, case['fs'])
    if m is None or B is None or int(m.group(1)) >= len(lines):
        return None
    i = int(m.group(1))
    ln = lines[i]
    items = ln['items']
    content = [it for it in items if it['kind'] == 'atomic' or (it['kind'] == 'text' and it['text'].strip(' '))]
    if clause == 'float-unit-beside-float' and content and content[0]['kind'] == 'atomic':
        return 'line-starting-with-atomic-box-kept-beside-float'
    fl = [it for it in items if it['kind'] == 'float']
    if not fl:
        return None
    below = [it for it in fl if it['y'] >= ln['y'] + ln['h'] - EPS]
    sides = {}
    for it in below:
        for f in B['floats']:
            if abs(f['x'] - it['x']) < EPS and abs(f['y'] - it['y']) < EPS and abs(f['mw'] - mbw(it)) < EPS:
                sides[id(it)] = f['side']
    dl = sum(mbw(it) for it in below if sides.get(id(it)) == 'left')
    dr = sum(mbw(it) for it in below if sides.get(id(it)) == 'right')
    # the collapsible space kept at the end of the text of the line because a float follows it in the line (F203)
    last_text, kept = None, 0
    for k, it in enumerate(items):
        if it['kind'] == 'text' and it['text']:
            last_text = k
        elif it['kind'] == 'atomic':
            last_text = None
    if last_text is not None and items[last_text]['text'].endswith(' ') and \
            any(it['kind'] == 'float' for it in items[last_text + 1:]):
        kept = items[last_text]['fs']
    left, right = free_interval(B, B['floats'], ln['y'], ln['y'] + ln['h'])
    if (dl or dr) and clause == 'float-greedy':
        if ln['w'] - kept <= (right - dr) - (left + dl) + EPS and \
                clause not in [c for c, _ in judge_floats(case, blocks, hyp=(i, dl, dr))]:
            return 'inline-float-placed-below-its-line-takes-room-on-it'
    if clause == 'float-fit' and kept and ln['w'] - kept <= right - left + EPS:
        return 'line-trailing-space-kept-before-out-of-flow-box'
    return None


def classify_render(case, paras, clause, detail):
    """signature of the open finding whose mechanism applies to the offending line (None: unexplained).
    Open: F118 (a collapsible space dropped inside a line), F120 (coarse: paragraphs with soft hyphens).  The branches
    for F116, F117, F119, F135, F136 and F200 (end spacing of an inline box after an atomic last child) were removed when
    those findings were repaired in /repo."""
    import re
    m = re.match(r'line (\d+)', detail)
    lines = paras[0]['lines'] if len(paras) == 1 else []
    i = int(m.group(1)) if m else None
    here = [lines[j] for j in (i, i + 1) if i is not None and j < len(lines)] if i is not None else []

    def txt(ln):
        return ''.join(it['text'] or '' for it in ln['items'] if it['kind'] == 'text')
    if case['shy'] and (clause in ('lines-cover-text', 'paragraph-rendered-once') or
                        any(SHY in txt(ln) or HY in txt(ln) for ln in here)):
        return 'render-soft-hyphen-paragraph'
    if clause == 'space-dropped-inside-line':
        return 'text-box-trailing-space-dropped-mid-line'
    return None


# ------------------------------------------------------------------------------------------------ check

def check(run):
    rng = random.Random(run.seed * 7919 + 9)
    thorough = run.tier == 'thorough'
    common.prove(run, 'C09', ['model/C09Line.vo', 'model/C09Spec.vo', 'model/C09Judge.vo', 'model/C09Align.vo', 'model/C09Float.vo',
                            'model/C09InlineBlock.vo', 'proofs/C09_gen_inline_block.vo', 'proofs/C09_gen_justify.vo'])
    run.trusted += ['Coq 8.16.1 kernel (coqc); vm_compute for the cases.v evaluation',
                    'harness/p_c09.py: case generators, Coq printers, the Python judge of the render monitor',
                    'harness/impl_c09.py: direct-call stubs (real computed style + four-attribute context; stub boxes '
                    'with Fraction fields for text_align)']
    run.assumptions += [
        'Pango is modelled by the definition G (first-fit, hanging final space, soft-hyphen / char-wrap hyphen rules) on '
        'the alphabet a-h / space / newline / U+00AD / U+2010 with integer font sizes; stream pango-G tests it against '
        'the raw library and stream sfl-direct against split_first_line on every case',
        'dictionary hyphenation (hyphens: auto), bidi, tabs, letter/word-spacing, real fonts are outside the model',
        'split_inline_box / _break_waiting_children (line breaking across inline boxes) is monitored by full renders, not proved',
        'line_box_verticality is proved for baseline-aligned children only; other vertical-align values are monitored '
        'through the stacking clause of the render monitor']
    import time
    t0 = time.time()
    stream_raw(run, rng, 4000 if thorough else 800)
    t1 = time.time()
    stream_sfl(run, rng, 15000 if thorough else 2000)
    t2 = time.time()
    stream_align(run, rng, 4000 if thorough else 500)
    t3 = time.time()
    stream_render(run, rng, 6000 if thorough else 700)
    t4 = time.time()
    stream_floats(run, rng, 5000 if thorough else 600)
    t5 = time.time()
    run.stream_info('float-lines', wall_s=round(t5 - t4, 1))
    stream_avoid(run, rng, 6000 if thorough else 800)
    run.stream_info('avoid-direct', wall_s=round(time.time() - t5, 1))
    t6 = time.time()
    stream_ibw(run, random.Random(run.seed * 104729 + 13), 3000 if thorough else 600)
    run.stream_info('ibw-direct', wall_s=round(time.time() - t6, 1))
    run.stream_info('pango-G', wall_s=round(t1 - t0, 1))
    run.stream_info('sfl-direct', wall_s=round(t2 - t1, 1))
    run.stream_info('align-direct', wall_s=round(t3 - t2, 1))
    run.stream_info('render-lines', wall_s=round(t4 - t3, 1))


def stream_raw(run, rng, n):
    cases = [gen_raw_case(rng) for _ in range(n)]
    outs = common.run_impl('impl_c09', 'raw', cases, chunksize=32)
    coq, kept = [], []
    for c, (st, o) in zip(cases, outs):
        if st != 'ok':
            run.fail('raw Pango call raised', {'stream': 'pango-G', 'case': c, 'outcome': o}, signature='raw-raise')
            continue
        coq.append(coq_raw_case(c, o)); kept.append((c, o))
    try:
        masks = common.eval_cases('c09raw', PRE, 'raw_case', coq, 'raw_judge')
        bad = [(c, o) for (c, o), m in zip(kept, masks) if m]
        run.oblige('corr:pango-G(hypothesis G = raw Pango first line and log attrs)', not bad,
                   'first disagreements: %s' % bad[:3])
        run.count('pango-G', len(kept), [(c['text'], c['w'], c['wc'], c['ow'], c['fs']) for c, _ in kept],
                  samples=[{'case': kept[0][0], 'pango': kept[0][1]}])
        run.stream_info('pango-G', rule='well-formed texts over a-h / single spaces / newlines / soft hyphens, their '
                        'prefixes and hyphenated candidates; widths on word-sum boundaries +-1/4px; WRAP_WORD and '
                        'WRAP_CHAR; insert_hyphens on/off; distinct = (text, width, mode, size)')
    except RuntimeError as exc:
        run.oblige('corr:pango-G', False, str(exc))


def trunc1024(mw):
    return int(Fraction(mw) * 1024)          # int() truncates towards zero like the implementation


def first_unit_em(text, hy):
    """advance (em) of the first unbreakable unit of the first paragraph"""
    p = text.split('\n')[0]
    i = 0
    while i < len(p) and p[i] == ' ':
        i += 1
    j = i
    while j < len(p) and p[j] != ' ' and not (hy == 'manual' and j > i and p[j - 1] == SHY):
        j += 1
    return vis_len(p[:j])


def classify_sfl(c, o, mask):
    """signature of the open finding explaining a deviation of the implementation from the greedy spec (None:
    unexplained).  The findings F110-F115 that this function used to recognise are repaired: no branch is left."""
    return None


def stream_sfl(run, rng, n):
    cases = [gen_sfl_case(rng, 'plain' if i % 3 == 0 else 'all') for i in range(n)]
    outs = common.run_impl('impl_c09', 'sfl', cases, chunksize=32)
    coq = [coq_sfl_case(c, st, o) for c, (st, o) in zip(cases, outs)]
    for c, (st, o) in zip(cases, outs):
        if st == 'timeout':
            run.fail('split_first_line timeout', {'stream': 'sfl-direct', 'case': c}, signature='timeout')
        elif st == 'exc':
            run.fail('split_first_line raised %s' % o['type'], {'stream': 'sfl-direct', 'case': c, 'exc': o},
                     signature='sfl-crash:%s' % (o['site'],))
    try:
        masks = common.eval_cases('c09sfl', PRE, 'sfl_case', coq, 'sfl_judge')
    except RuntimeError as exc:
        run.oblige('corr:sfl-direct', False, str(exc))
        return
    mism = [(c, o) for c, (st, o), m in zip(cases, outs, masks) if m & 1]
    run.oblige('corr:sfl-direct(split_first_line_model G vs split_first_line with the real Pango)', not mism,
               'first disagreements: %s' % mism[:3])
    known = {}
    for c, (st, o), m in zip(cases, outs, masks):
        if st != 'ok' or not (m & 0b11110):
            continue
        sig = classify_sfl(c, o, m)
        if sig is None:
            run.fail('first line differs from the greedy specification (mask %d)' % m,
                     {'stream': 'sfl-direct', 'case': c, 'impl_output': o, 'mask': m})
        else:
            known[sig] = known.get(sig, 0) + 1
            run.fail('first line differs from the greedy specification: %s' % sig,
                     {'stream': 'sfl-direct', 'case': c, 'impl_output': o, 'mask': m}, signature=sig)
    feats = set()
    for c in cases:
        feats.add((c['ws'], c['ow'], c['wb'], c['hy'], SHY in c['text'], c['mw'] is None, c['ils'], c['mini'],
                   c['fs'], len(c['text']) // 20))
    run.count('sfl-direct', len(cases), feats, samples=[{'case': cases[1], 'impl': outs[1][1]}])
    run.stream_info('sfl-direct', known_mechanisms_hit=known,
                    rule='1..60 words of 1..30 letters a-h, single spaces (newlines under pre*), soft hyphens in 30%% of '
                         'the hyphens:manual cases, 10 font sizes 1..40px, widths on word-sum boundaries +-1/4px / 0 / '
                         '4em (ratio switch) / negative, every white-space x overflow-wrap x word-break x hyphens, '
                         'is_line_start, minimum; 1/3 plain (no overflow-wrap/break-all/soft hyphen/edge spaces); distinct '
                         '= (style, soft hyphen?, width None?, flags, size, length/20)')


def stream_align(run, rng, n):
    cases = [gen_align_case(rng) for _ in range(n)]
    outs = common.run_impl('impl_c09', 'align', cases, chunksize=32)
    coq, kept = [], []
    for c, (st, o) in zip(cases, outs):
        if st != 'ok':
            run.fail('text_align raised', {'stream': 'align-direct', 'case': c, 'outcome': o}, signature='align-raise')
            continue
        coq.append(coq_align_case(c, o)); kept.append((c, o))
    try:
        masks = common.eval_cases('c09align', PRE, 'align_case', coq, 'align_judge')
    except RuntimeError as exc:
        run.oblige('corr:align-direct', False, str(exc))
        return
    mism = [(c, o) for (c, o), m in zip(kept, masks) if m & 1]
    run.oblige('corr:align-direct(text_align/justify_line/add_word_spacing model vs inline.py on stub trees)', not mism,
               'first disagreements: %s' % mism[:2])
    for (c, o), m in zip(kept, masks):
        if m & 2:
            run.fail('text_align offset outside [0, available - width]', {'stream': 'align-direct', 'case': c, 'impl_output': o})
        if m & 4:
            run.fail('justified line does not fill the available width', {'stream': 'align-direct', 'case': c, 'impl_output': o})
        if m & 8:
            run.fail('after text_align / justification a box inside an atomic inline-level box is outside that box',
                     {'stream': 'align-direct', 'case': c, 'impl_output': o})
    run.count('align-direct', len(kept), [(c['align'], c['align_last'], c['dir'], c['ws'], c['last'],
                                            Fraction(c['avail']) > items_width(c['items']), len(c['items'])) for c, _ in kept],
              samples=[{'case': kept[0][0], 'impl': kept[0][1]}])
    run.stream_info('align-direct', rule='stub line boxes: 1..4 children (text boxes with 0..4 spaces / nbsp, atomic boxes, '
                    'nested inline boxes), rational widths, every text-align x text-align-last x direction x white-space, '
                    'available width below/equal/above the line width')


PRE_IB = ('From Coq Require Import ZArith QArith List String.\nRequire Import WV.model.C09InlineBlock.\n'
          'Import ListNotations.\n')


def gen_ibw_case(rng):
    def q():
        return Fraction(rng.randint(0, 40), rng.choice([1, 1, 2, 3]))
    sp = [q() if rng.random() < 0.7 else Fraction(0) for _ in range(6)]
    if rng.random() < 0.2:
        sp[rng.randrange(2)] = -q()          # negative margins
    pmin = Fraction(rng.randint(0, 120), rng.choice([1, 2]))
    pref = pmin + Fraction(rng.randint(0, 200), rng.choice([1, 3]))
    r = rng.random()
    total = sum(sp)
    cbw = (total + pmin if r < 0.1 else total + pref if r < 0.2 else total + pmin - q() if r < 0.35
           else total + pmin + (pref - pmin) * Fraction(rng.randint(0, 8), 8) if r < 0.6
           else Fraction(rng.randint(0, 600), rng.choice([1, 3])))
    width = 'auto' if rng.random() < 0.7 else str(Fraction(rng.randint(0, 300), rng.choice([1, 2])))
    return dict(width=width, cbw=str(cbw), sp=[str(v) for v in sp], pmin=str(pmin), pref=str(pref))


def coq_ibw_case(c, o):
    w = 'None' if c['width'] == 'auto' else '(Some %s)' % qlit(Fraction(c['width']))
    return '(%s, %s, mk_hspace %s, %s, %s, %s)' % (
        w, qlit(Fraction(c['cbw'])), ' '.join(qlit(Fraction(v)) for v in c['sp']), qlit(Fraction(c['pmin'])),
        qlit(Fraction(c['pref'])), qlit(Fraction(o[0])))


def stream_ibw(run, rng, n):
    cases = [gen_ibw_case(rng) for _ in range(n)]
    outs = common.run_impl('impl_c09', 'ibw', cases, chunksize=64)
    coq, kept = [], []
    for c, (st, o) in zip(cases, outs):
        if st != 'ok':
            run.fail('inline_block_width raised', {'stream': 'ibw-direct', 'case': c, 'outcome': o}, signature='ibw-raise')
            continue
        coq.append(coq_ibw_case(c, o)); kept.append((c, o))
    try:
        masks = common.eval_cases('c09ibw', PRE_IB, 'ib_case', coq, 'ib_judge')
    except RuntimeError as exc:
        run.oblige('corr:ibw-direct', False, str(exc))
        return
    mism = [(c, o) for (c, o), m in zip(kept, masks) if m & 1 or not o[1]]
    run.oblige('corr:ibw-direct(ib_width model vs inline_block_width of inline.py on stub boxes)', not mism,
               'first disagreements: %s' % mism[:2])
    for (c, o), m in zip(kept, masks):
        if m & 1:
            run.fail('inline-block width is not the shrink-to-fit width for the containing block minus margins, '
                     'borders and paddings (auto) / the given width', {'stream': 'ibw-direct', 'case': c, 'impl_output': o})
        elif m & 2:
            run.fail('auto-width inline-block overflows its containing block although its minimum content width fits',
                     {'stream': 'ibw-direct', 'case': c, 'impl_output': o})
        elif not o[1]:
            run.fail('inline_block_width changed something other than box.width',
                     {'stream': 'ibw-direct', 'case': c, 'impl_output': o})

    def room(c):
        a = Fraction(c['cbw']) - sum(Fraction(v) for v in c['sp'])
        return 'below-min' if a < Fraction(c['pmin']) else 'above-pref' if a > Fraction(c['pref']) else 'between'
    run.count('ibw-direct', len(kept), [(c['width'] == 'auto', room(c)) for c, _ in kept],
              samples=[{'case': kept[0][0], 'impl': kept[0][1]}] if kept else [])
    run.stream_info('ibw-direct', rule='stub boxes with rational margins (some negative) / borders / paddings, width auto '
                    'or given, containing block below / at / between / above the preferred minimum and preferred widths')


def stream_render(run, rng, n):
    cases = [gen_render_case(rng, i) for i in range(n)]
    outs = common.run_impl('impl_c09', 'render_lines', [{'html': c['html']} for c in cases], limit=60, chunksize=4)
    known, nlines, clauses = {}, 0, set()
    for c, (st, o) in zip(cases, outs):
        if st == 'timeout':
            run.fail('render timeout', {'stream': 'render-lines', 'html': c['html']}, signature='timeout')
            continue
        if st == 'exc':
            sig = 'crash:%s' % (o['site'],)
            run.fail('render raised %s at %s' % (o['type'], o['site']),
                     {'stream': 'render-lines', 'html': c['html'], 'exc': o}, signature=sig)
            continue
        nlines += sum(len(p['lines']) for p in o)
        paras = [b for b in o if b['main']]
        bad = judge_render(c, paras) + judge_nested(c, o)
        seen = set()
        for clause, detail in bad:
            sig = classify_render(c, paras, clause, detail)
            if (clause, sig) in seen:
                continue
            seen.add((clause, sig))
            if sig is not None:
                known[sig] = known.get(sig, 0) + 1
            run.fail('paragraph violates clause %s: %s' % (clause, detail),
                     {'stream': 'render-lines', 'html': c['html'], 'case': {k: v for k, v in c.items() if k != 'html'},
                      'clause': clause, 'detail': detail}, signature=sig)
        clauses.add((c['ws'], c['ow'], c['wb'], c['ta'], c['rtl'], c['flt'] is not None, c['spans'], c['mixed'], c['shy']))
    run.count('render-lines', len(cases), clauses, samples=[cases[0]['html'][:700]])
    run.stream_info('render-lines', lines=nlines, known_mechanisms_hit=known, judged_in='Python (harness/p_c09.py judge_render)',
                    rule='paragraphs of 1..400 words of 1..30 letters a-h in containers 0..60em, 10 font sizes 1..40px, '
                         'white-space x overflow-wrap x word-break x text-align x text-indent, soft hyphens (12%), spans with '
                         'padding/border/margin (nested <= 2), inline-blocks, mixed sizes (15%), rtl (10%), a float before '
                         'the paragraph (8%); clauses: lines cover the source once, breaks only at allowed opportunities, '
                         'no overflow unless one unit, greedy, inside the block / text-align / justify fills, extents add up (ltr: every '
                         'nesting level; rtl: the children of the line box tile it), '
                         'stacking y+h; distinct = style combination')


def gen_avoid_case(rng):
    """float stubs stacked on a grid of half line heights so that edges touch exactly; a line box stub"""
    lh = rng.choice([10, 10, 20, 7])
    cbx, cbw = Fraction(rng.choice([0, 0, 15])), Fraction(rng.choice([60, 100, 150, 200]))
    shapes = []
    for _ in range(rng.choice([0, 1, 1, 2, 2, 3, 4])):
        side = rng.choice(['left', 'left', 'right'])
        mw = Fraction(rng.choice([10, 20, 50, int(cbw) // 2, int(cbw)]))
        y = Fraction(rng.randint(-2, 8) * lh, 2) + rng.choice([0, 0, 0, 0, 1, -1, Fraction(1, 3)])
        mh = Fraction(rng.randint(1, 6) * lh, 2) + rng.choice([0, 0, 0, 1, -1])
        if rng.random() < 0.03:
            mh = Fraction(0)
        x = cbx if side == 'left' else cbx + cbw - mw
        if rng.random() < 0.2 and shapes:
            x = x + (10 if side == 'left' else -10)
        shapes.append([side, str(x), str(y), str(mw), str(max(mh, 0))])
    bh = Fraction(rng.choice([lh, lh, lh, lh // 2 or 1, 2 * lh, 0 if rng.random() < 0.1 else lh]))
    return dict(shapes=shapes, cbx=str(cbx), cbw=str(cbw), dir=rng.choice(['ltr', 'ltr', 'rtl']),
                bw=str(Fraction(rng.choice([0, 10, 30, 55, 90, 120, int(cbw)]))), bh=str(bh),
                y=str(Fraction(rng.randint(-1, 8) * lh, 2)))


def coq_avoid_case(c, o):
    return '([%s], %s, %s, %s, %s, %s, %s, (%s, %s, %s))' % (
        '; '.join('(%s, %s, %s, %s, %s)' % (cbool(s[0] == 'left'), qlit(Fraction(s[1])), qlit(Fraction(s[2])),
                                            qlit(Fraction(s[3])), qlit(Fraction(s[4]))) for s in c['shapes']),
        qlit(Fraction(c['cbx'])), qlit(Fraction(c['cbw'])), cbool(c['dir'] == 'rtl'), qlit(Fraction(c['bw'])),
        qlit(Fraction(c['bh'])), qlit(Fraction(c['y'])), qlit(Fraction(o[0])), qlit(Fraction(o[1])), qlit(Fraction(o[2])))


def stream_avoid(run, rng, n):
    cases = [gen_avoid_case(rng) for _ in range(n)]
    outs = common.run_impl('impl_c09', 'avoid', cases, chunksize=64)
    coq, kept = [], []
    for c, (st, o) in zip(cases, outs):
        if st != 'ok':
            run.fail('avoid_collisions raised', {'stream': 'avoid-direct', 'case': c, 'outcome': o}, signature='avoid-raise')
            continue
        coq.append(coq_avoid_case(c, o)); kept.append((c, o))
    try:
        masks = common.eval_cases('c09avoid', PRE, 'avoid_case', coq, 'avoid_judge')
    except RuntimeError as exc:
        run.oblige('corr:avoid-direct', False, str(exc))
        return
    mism = [(c, o) for (c, o), m in zip(kept, masks) if m & 1]
    run.oblige('corr:avoid-direct(avoid_collisions model vs float.py on a LineBox stub between float stubs)', not mism,
               'first disagreements: %s' % mism[:2])
    for (c, o), m in zip(kept, masks):
        if m & 2:
            run.fail('the interval left to the line box is not the one left by the floats that share vertical extent with '
                     'it (half-open boundaries)', {'stream': 'avoid-direct', 'case': c, 'impl_output': o})
        if m & 4:
            run.fail('avoid_collisions moved the line box upwards', {'stream': 'avoid-direct', 'case': c, 'impl_output': o})
    run.count('avoid-direct', len(kept), [(len(c['shapes']), c['dir'], c['bh'], c['bw'], c['y'], c['cbw']) for c, _ in kept],
              samples=[{'case': kept[0][0], 'impl': kept[0][1]}])
    run.stream_info('avoid-direct', rule='0..4 float stubs (left/right) whose tops and heights are multiples of half a line '
                    'height (+-1, +1/3), so that edges coincide exactly with the edges of the line box stub; box widths '
                    'from 0 to the container width; ltr/rtl; exact rationals')


def stream_floats(run, rng, n):
    allow_mid = allow_inline = True
    import glob, os
    corpus = []
    for f in sorted(glob.glob(os.path.join(common.VERIF, 'corpus', 'C09', '*.json'))):
        d = json.load(open(f))
        if d.get('stream') == 'float-lines':
            corpus.append(d['case'])
    cases = corpus + [gen_float_case(rng, i) for i in range(n)]
    outs = common.run_impl('impl_c09', 'render_lines', [{'html': c['html']} for c in cases], limit=60, chunksize=8)
    known, nlines, kinds, stats = {}, 0, set(), {}
    for c, (st, o) in zip(cases, outs):
        if st != 'ok':
            run.fail('render %s' % (st if st == 'timeout' else 'raised %s at %s' % (o['type'], o['site'])),
                     {'stream': 'float-lines', 'html': c['html'], 'exc': o},
                     signature='timeout' if st == 'timeout' else 'crash:%s' % (o['site'],))
            continue
        nlines += sum(len(b['lines']) for b in o if b['main'])
        seen = set()
        for clause, detail in judge_floats(c, o, stats=stats):
            sig = classify_floats(c, o, clause, detail)
            if (clause, sig) in seen:
                continue
            seen.add((clause, sig))
            if sig is not None:
                known[sig] = known.get(sig, 0) + 1
            run.fail('line next to floats violates clause %s: %s' % (clause, detail),
                     {'stream': 'float-lines', 'html': c['html'], 'case': {k: v for k, v in c.items() if k != 'html'},
                      'clause': clause, 'detail': detail}, signature=sig)
        kinds.add((c['nfloats'], c['ta'], c['inline'], c['mid'] is not None, c['lh'] == c['fs'], c['width'], c['rtl'],
                   min(3, len(c['spans'])), any(sp['depth'] for sp in c['spans'])))
    run.count('float-lines', len(cases), kinds, samples=[cases[0]['html'][:600]])
    # the boundary the inline boxes are generated for must be met, on first lines and on continuation lines
    enough = all(stats.get('first_word_fits_beside_float_only_without_its_spacing_' + k, 0) >= max(3, n // 100)
                 for k in ('line0', 'later_line'))
    run.oblige('coverage:float-lines(first word fits beside a float without the spacing of its inline boxes, not with it)',
               enough, 'measured %s in %d paragraphs' % (stats, n))
    run.stream_info('float-lines', lines=nlines, known_mechanisms_hit=known, judged_in='Python (judge_floats)',
                    floats_in_mid_line_generated=allow_mid, floated_spans_at_paragraph_start_generated=allow_inline,
                    atomic_boxes_as_words_generated='no (judge, classifier and one corpus case only: open finding F207 and two more unanalysed mechanisms show up at once)',
                    paragraphs_with_inline_boxes=sum(1 for c in cases if c['spans']),
                    rtl_paragraphs=sum(1 for c in cases if c['rtl']), corpus_cases=len(corpus),
                    nested_inline_boxes=sum(1 for c in cases if any(sp['depth'] for sp in c['spans'])), boundary=stats,
                    inline_boxes='two paragraphs out of three (30% of them rtl): inline boxes over 1..5 words (half of '
                                 'them over one word), nested twice at most, with start / end spacing of 0, 1/2, 1, 2, 3 em '
                                 'as padding, border, margin or a mix; one float leaves 2..6 em (+-1px) and half of '
                                 'the words are as long as that room or 1..2 letters shorter; `boundary` counts the lines '
                                 'whose first word fits beside a float, where the line is tried first, without the '
                                 'spacing that belongs to its unit but not with it; clauses: a line of several units '
                                 'fits the free interval; a line of one unit (word + the start spacing of the boxes '
                                 'opening before it + the end spacing of those closing after it, from the source) sticks '
                                 'out only where no float is beside it; greedy and no needless gap with that unit; the '
                                 'line box is as wide as its words, spaces and the spacing that opens / closes on it; the '
                                 'first break opportunity of the rendered line (first_break_x) is where the source says',
                    rule='1..3 left/right floats with clear none/side/both, heights = 1..3 line heights and one pixel '
                         'above/below, vertical margins, as block-level boxes before the text or as floated spans at the '
                         'start of the paragraph (30%), one more float in the middle of the text (10%); per line: the free '
                         'interval is recomputed from the float geometry of the rendered page with half-open boundaries '
                         '(CSS 2.1 9.5.1): the line starts at its edge, fits in it, is greedy in it, lines stack without '
                         'overlap and a line is only pushed down when its first word does not fit right below')


def replay(data):
    d = data.get('data', {})
    stream = d.get('stream')
    if stream == 'render-lines':
        (st, o), = common.run_impl('impl_c09', 'render_lines', [{'html': d['html']}], limit=60)
        if st != 'ok':
            print('replay: render', st, o and o.get('type'))
            return 1
        case = dict(d['case'], html=d['html'])
        case['toks'] = [tuple(t) for t in case['toks']]
        bad = judge_render(case, [b for b in o if b['main']]) + judge_nested(case, o)
        print('replay:', bad[:5])
        return 1 if any(b[0] == d.get('clause') for b in bad) or bad else 0
    if stream == 'float-lines':
        (st, o), = common.run_impl('impl_c09', 'render_lines', [{'html': d['html']}], limit=60)
        if st != 'ok':
            print('replay: render', st, o and o.get('type'))
            return 1
        case = dict(d['case'], html=d['html'])
        bad = judge_floats(case, o)
        print('replay:', bad[:5])
        return 1 if bad else 0
    if stream == 'avoid-direct':
        c = d['case']
        (st, o), = common.run_impl('impl_c09', 'avoid', [c])
        if st != 'ok':
            print('replay: raised', o)
            return 1
        m = common.eval_cases('c09replay', PRE, 'avoid_case', [coq_avoid_case(c, o)], 'avoid_judge')
        print('implementation ->', o, 'judge mask (1 model<>impl, 2 interval, 4 moved up):', m)
        return 1 if m[0] else 0
    if stream == 'sfl-direct':
        c = d['case']
        (st, o), = common.run_impl('impl_c09', 'sfl', [c])
        print('replay: implementation ->', st, o if st == 'ok' else o.get('type'))
        m = common.eval_cases('c09replay', PRE, 'sfl_case', [coq_sfl_case(c, st, o)], 'sfl_judge')
        print('judge mask (bit0 model<>impl, bit1 line end/next, bit2 hyphen, bit3 width, bit4 unreadable):', m)
        return 1 if m[0] else 0
    if stream == 'align-direct':
        c = d['case']
        (st, o), = common.run_impl('impl_c09', 'align', [c])
        if st != 'ok':
            print('replay: raised', o)
            return 1
        m = common.eval_cases('c09replay', PRE, 'align_case', [coq_align_case(c, o)], 'align_judge')
        print('judge mask', m)
        return 1 if m[0] else 0
    if stream == 'ibw-direct':
        c = d['case']
        (st, o), = common.run_impl('impl_c09', 'ibw', [c])
        if st != 'ok':
            print('replay: raised', o)
            return 1
        m = common.eval_cases('c09replay', PRE_IB, 'ib_case', [coq_ibw_case(c, o)], 'ib_judge')
        print('replay: implementation ->', o, 'judge mask', m)
        return 1 if m[0] or not o[1] else 0
    if stream == 'pango-G':
        c = d['case']
        (st, o), = common.run_impl('impl_c09', 'raw', [c])
        m = common.eval_cases('c09replay', PRE, 'raw_case', [coq_raw_case(c, o)], 'raw_judge')
        print('raw', o, 'mask', m)
        return 1 if m[0] else 0
    print('nothing to replay for', stream)
    return 0
