"""Implementation-side functions for C07 (run in worker processes; weasyprint imported from REPO)."""
import ast, hashlib, inspect, math, os, re
from fractions import Fraction

BASE_URL = 'http://example.test/base/'


# ------------------------------------------------------------------------------------------ conversions

def _clean(s):
    """strings go into Coq literals: keep printable ASCII, escape the rest reversibly"""
    out = []
    for ch in s:
        o = ord(ch)
        if 32 <= o < 127 and ch != '\\':
            out.append(ch)
        else:
            out.append('\\%x.' % o)
    return ''.join(out)


def tok_json(tok, atoms):
    """tinycss2 node -> nested list (see coq/model/C07Tok.v)"""
    t = tok.type
    if t == 'ident':
        return ['I', _clean(tok.value), _clean(tok.lower_value)]
    if t == 'literal':
        return ['L', _clean(tok.value)]
    if t == 'whitespace':
        return ['W']
    if t == 'comment':
        return ['C']
    if t == 'number' and isinstance(tok.value, (int, float)) and math.isfinite(tok.value):
        return ['N', str(Fraction(tok.value)), tok.int_value]
    if t == 'function':
        return ['F', _clean(tok.name), _clean(tok.lower_name), [tok_json(a, atoms) for a in tok.arguments]]
    if t in ('() block', '[] block', '{} block'):
        return ['B', {'() block': 0, '[] block': 1, '{} block': 2}[t], [tok_json(a, atoms) for a in tok.content]]
    key = (t, tok.serialize())
    if key not in atoms:
        atoms[key] = len(atoms) + 1
    return ['A', atoms[key]]


def canon(value):
    """a canonical, address-free text for any validated value"""
    from weasyprint.css.utils import Pending
    import tinycss2.ast
    if isinstance(value, Pending):
        kind = type(value).__name__
        name = value.validator.keywords['name'] if hasattr(value, 'validator') else value.name
        return 'P<%s %s %s>' % (kind, name, '|'.join(t.serialize() for t in value.tokens))
    if isinstance(value, tinycss2.ast.Node):
        return 'T<%s %s>' % (value.type, value.serialize())
    if isinstance(value, (list, tuple)):
        name = type(value).__name__
        return '%s[%s]' % ('seq' if name in ('list', 'tuple') else name, ','.join(canon(v) for v in value))
    if isinstance(value, (set, frozenset)):
        return 'set[%s]' % ','.join(sorted(canon(v) for v in value))
    if isinstance(value, dict):
        return 'dict[%s]' % ','.join(sorted('%s:%s' % (canon(k), canon(v)) for k, v in value.items()))
    if isinstance(value, (bool, str, type(None))):
        return repr(value)
    if isinstance(value, (int, float)):
        return repr(float(value) + 0.0) if math.isfinite(value) and abs(value) < 2 ** 53 else repr(value)
    r = repr(value)
    if ' at 0x' in r:
        d = getattr(value, '__dict__', None)
        if d is None and hasattr(value, '__slots__'):
            d = {k: getattr(value, k, None) for k in value.__slots__}
        return 'O<%s %s>' % (type(value).__name__, canon(d) if d is not None else '?')
    return r


def vid(value):
    return int(hashlib.sha1(canon(value).encode('utf-8', 'replace')).hexdigest()[:13], 16)


def _site(exc):
    import traceback
    tb = traceback.extract_tb(exc.__traceback__)
    for fr in reversed(tb):
        if '/weasyprint/' in fr.filename or '/tinycss2/' in fr.filename or '/cssselect2/' in fr.filename:
            return '%s:%s:%s' % (type(exc).__name__, os.path.basename(fr.filename), fr.name)
    return '%s:?' % type(exc).__name__


# ------------------------------------------------------------------------------------------ registries

def _frac_eval(node):
    """exact rational of an expression made of decimal literals, / and * (the literal's text, not the float)"""
    if isinstance(node, ast.Constant) and isinstance(node.value, (int, float)):
        return None          # needs the source text: handled by the caller through get_source_segment
    raise ValueError('not a literal')


def _frac_of(src, node):
    if isinstance(node, ast.Constant):
        text = ast.get_source_segment(src, node)
        return Fraction(text.rstrip('.') if text.endswith('.') else text)
    if isinstance(node, ast.BinOp):
        a, b = _frac_of(src, node.left), _frac_of(src, node.right)
        if isinstance(node.op, ast.Div):
            return a / b
        if isinstance(node.op, ast.Mult):
            return a * b
        if isinstance(node.op, ast.Add):
            return a + b
        if isinstance(node.op, ast.Sub):
            return a - b
    if isinstance(node, ast.UnaryOp) and isinstance(node.op, ast.USub):
        return -_frac_of(src, node.operand)
    raise ValueError('LENGTHS_TO_PIXELS: unsupported expression %s' % ast.dump(node))


def _validator_strings(fn, depth=0):
    """idents quoted in a validator's source (following the decorators' wrapped functions)"""
    out = set()
    seen = set()
    stack = [fn]
    while stack:
        f = stack.pop()
        if id(f) in seen or f is None:
            continue
        seen.add(id(f))
        for attr in ('__wrapped__', '__func__', 'single_value'):
            g = getattr(f, attr, None)
            if g is not None:
                stack.append(g)
        try:
            src = inspect.getsource(f)
        except (OSError, TypeError):
            continue
        for m in re.finditer(r"'([a-zA-Z][-a-zA-Z0-9]*)'", src):
            out.add(m.group(1))
    return out


def registry(_case):
    from weasyprint.css import utils
    from weasyprint.css.properties import KNOWN_PROPERTIES, INITIAL_VALUES
    from weasyprint.css import validation
    from weasyprint.css.validation import properties as vp, expanders as ve
    src = open(inspect.getsourcefile(utils)).read()
    tree = ast.parse(src)
    table = None
    for s in tree.body:
        if isinstance(s, ast.Assign) and len(s.targets) == 1 and getattr(s.targets[0], 'id', None) == 'LENGTHS_TO_PIXELS':
            table = [(k.value, str(_frac_of(src, v))) for k, v in zip(s.value.keys, s.value.values)]
    test_strings = set()
    import weasyprint
    root = os.path.dirname(os.path.dirname(inspect.getsourcefile(weasyprint)))
    for name in ('test_validation.py', 'test_expanders.py'):
        p = os.path.join(root, 'tests', 'css', name)
        if not os.path.exists(p):
            continue
        for node in ast.walk(ast.parse(open(p).read())):
            if isinstance(node, ast.Constant) and isinstance(node.value, str) and 0 < len(node.value) < 160 \
                    and '\n' not in node.value:
                v = node.value
                test_strings.add(v)
                m = re.match(r'^\s*[-a-zA-Z]+\s*:(.*)$', v)
                if m:
                    test_strings.add(m.group(1).strip())
    words = {}
    for name, fn in list(vp.PROPERTIES.items()) + list(ve.EXPANDERS.items()):
        words[name] = sorted(_validator_strings(fn))
    return dict(
        properties=list(vp.PROPERTIES), expanders=list(ve.EXPANDERS), known=sorted(KNOWN_PROPERTIES),
        not_print=sorted(validation.NOT_PRINT_MEDIA), proprietary=sorted(vp.PROPRIETARY),
        unstable=sorted(vp.UNSTABLE), prefix=vp.PREFIX, initial=sorted(INITIAL_VALUES),
        id_initial=vid('initial'), id_inherit=vid('inherit'), lengths_source=table, lengths_runtime=[(k, repr(float(v))) for k, v in utils.LENGTHS_TO_PIXELS.items()],
        length_units=sorted(utils.LENGTH_UNITS), test_strings=sorted(test_strings), words=words)


def _parse_decl(name, value):
    import tinycss2
    items = [i for i in tinycss2.parse_blocks_contents('%s:%s' % (name, value))
             if i.type not in ('whitespace', 'comment')]
    if len(items) == 1 and items[0].type == 'declaration':
        return items[0]
    return None


def _call_validator(name, tokens):
    """EXPANDERS.get(name, validate_non_shorthand)(tokens, name, base_url) -> ('ok', pairs)|('invalid',)|('exc', site)"""
    from weasyprint.css.utils import InvalidValues
    from weasyprint.css.validation.expanders import EXPANDERS
    from weasyprint.css.validation.properties import validate_non_shorthand
    validator = EXPANDERS.get(name, validate_non_shorthand)
    try:
        return ('ok', list(validator(tokens, name, BASE_URL)))
    except InvalidValues:
        return ('invalid',)
    except RecursionError as exc:
        return ('exc', _site(exc))
    except Exception as exc:   # noqa
        return ('exc', _site(exc))


def discover(case):
    """case: dict(name=property or shorthand, candidates=[value text]) -> indices of the accepted candidates"""
    from weasyprint.css.utils import remove_whitespace
    ok = []
    for i, v in enumerate(case['candidates']):
        d = _parse_decl(case['name'], v)
        if d is None:
            continue
        toks = remove_whitespace(d.value)
        if not toks:
            continue
        r = _call_validator(case['name'], toks)
        if r[0] == 'ok' and r[1]:
            ok.append(i)
    return ok


# ------------------------------------------------------------------------------------------ pp-skeleton

def _pp(items):
    from weasyprint.css.validation import preprocess_declarations
    try:
        return ('ok', [[n, vid(v), bool(i)] for n, v, i in preprocess_declarations(BASE_URL, items)])
    except RecursionError as exc:
        return ('exc', _site(exc))
    except Exception as exc:   # noqa
        return ('exc', _site(exc))


def pp_block(case):
    """case: dict(css=declaration block text).
    -> dict(items=[[kind, name, lower_name, nonempty, important, oracle]], full, singles, filtered, crash)"""
    import tinycss2
    from weasyprint.css.utils import remove_whitespace
    from weasyprint.css.validation.properties import PREFIX
    items = tinycss2.parse_blocks_contents(case['css'])
    full = _pp(items)
    summary, singles, kept = [], [], []
    crash = full[1] if full[0] == 'exc' else None
    for it in items:
        kind = {'declaration': 0, 'error': 1, 'qualified-rule': 2, 'at-rule': 3}.get(it.type, 4)
        if kind != 0:
            summary.append([kind, '', '', False, False, []])
        else:
            toks = remove_whitespace(it.value)
            names = [it.name if it.name.startswith('--') else it.lower_name]
            if names[0].startswith(PREFIX):
                names.append(names[0][len(PREFIX):])
            oracle = []
            if toks:
                for n in names:
                    r = _call_validator(n, toks)
                    if r[0] == 'ok':
                        oracle.append([_clean(n), [[_clean(k), vid(v)] for k, v in r[1]]])
                    elif r[0] == 'invalid':
                        oracle.append([_clean(n), None])
                    else:
                        oracle.append([_clean(n), 'exc'])
                        crash = crash or r[1]
            summary.append([0, _clean(it.name), _clean(it.lower_name), bool(toks), bool(it.important), oracle])
        s = _pp([it])
        if s[0] == 'exc':
            crash = crash or s[1]
            singles.append([])
        else:
            singles.append(s[1])
            if s[1]:
                kept.append(it)
    filtered = _pp(kept)
    if filtered[0] == 'exc':
        crash = crash or filtered[1]
    return dict(items=summary, full=full[1] if full[0] == 'ok' else None, singles=singles,
                filtered=filtered[1] if filtered[0] == 'ok' else None, crash=crash)


# ------------------------------------------------------------------------------------------ dispatch-direct

FOUR_SIDES = ['border-color', 'border-style', 'border-width', 'margin', 'padding', 'bleed']
BORDER_SIDES = ['border-top', 'border-right', 'border-bottom', 'border-left', 'column-rule', 'outline']
RADIUS = ['border-top-left-radius', 'border-top-right-radius', 'border-bottom-right-radius',
          'border-bottom-left-radius']


def _four_names(name):
    out = []
    for suffix in ('-top', '-right', '-bottom', '-left'):
        i = name.rfind('-')
        out.append(name + suffix if i == -1 else name[:i] + suffix + name[i:])
    return out


def _prop_call(longname, tokens):
    """PROPERTIES[longname](tokens[, base_url]) -> value | None ; raises what it raises"""
    from weasyprint.css.utils import InvalidValues
    from weasyprint.css.validation.properties import PROPERTIES
    fn = PROPERTIES.get(longname)
    if fn is None:
        return None
    try:
        return fn(tokens, BASE_URL) if fn.wants_base_url else fn(tokens)
    except InvalidValues:
        return None


def dispatch_case(case):
    """case: dict(name=, value=) -> None when `name: value` is not one declaration, else
    dict(tokens, vtab, ctab, ftab, code, outs, crash)"""
    from tinycss2.ast import NumberToken, IdentToken, DimensionToken
    from tinycss2.color4 import parse_color
    from weasyprint.css.utils import remove_whitespace, Pending
    from weasyprint.css.validation import properties as vp
    d = _parse_decl(case['name'], case['value'])
    if d is None:
        return None
    name = d.name if d.name.startswith('--') else d.lower_name
    toks = tuple(remove_whitespace(d.value))
    if not toks:
        return None
    atoms = {}
    jt = [tok_json(t, atoms) for t in toks]
    singles = [t for t in toks]
    cand = []                                 # (longhand, [real tokens])
    auto = IdentToken(1, 1, 'auto')
    zero_px = DimensionToken(1, 1, 0, 0, '0', 'px')
    extra_json = {id(auto): ['I', 'auto', 'auto'], id(zero_px): ['A', 0]}
    if name in FOUR_SIDES:
        for n in _four_names(name):
            cand += [(n, [t]) for t in singles]
    elif name in BORDER_SIDES or name == 'border':
        bases = [name] if name != 'border' else ['border' + s for s in ('-top', '-right', '-bottom', '-left')]
        for b in bases:
            for s in ('-width', '-color', '-style'):
                cand += [(b + s, [t]) for t in singles]
    elif name == 'border-radius':
        slash = [i for i, t in enumerate(toks) if t.type == 'literal' and t.value == '/']
        if len(toks) <= 12:
            if slash:
                hs, vs = toks[:slash[0]], [t for t in toks[slash[0]:] if not (t.type == 'literal' and t.value == '/')]
            else:
                hs = vs = toks
            for n in RADIUS:
                cand += [(n, [h, v]) for h in hs for v in vs]
    elif name == 'columns':
        for n in ('column-width', 'column-count'):
            cand += [(n, [t]) for t in singles] + [(n, [auto])]
    elif name == 'flex':
        nums = [NumberToken(1, 1, 1, 1, '1'), NumberToken(1, 1, 0, 0, '0')]
        for t in toks:
            if t.type == 'number':
                g = t.value
                nt = NumberToken(1, 1, g, int(g) if float(g).is_integer() else None, str(g))
                nums.append(nt)
        for nt in nums:
            extra_json[id(nt)] = ['N', str(Fraction(nt.value)), nt.int_value]
        for n in ('flex-grow', 'flex-shrink'):
            cand += [(n, [nt]) for nt in nums]
        cand += [('flex-basis', [t]) for t in singles] + [('flex-basis', [zero_px]), ('flex-basis', [auto])]
    else:
        cand.append((name, list(toks)))
    jmap = {id(t): j for t, j in zip(toks, jt)}
    jmap.update(extra_json)
    crash = None
    vtab = []
    for n, ts in cand:
        try:
            v = _prop_call(n, ts)
        except Exception as exc:   # noqa
            crash = crash or _site(exc)
            continue
        if v is not None:
            vtab.append([_clean(n), [jmap[id(t)] for t in ts], vid(v)])
    ctab, ftab = [], []
    for t, j in zip(toks, jt):
        color = vp.outline_color if name == 'outline' else vp.other_colors
        tests = [lambda: color([t]) is not None, lambda: vp.border_width([t]) is not None,
                 lambda: vp.border_style([t]) is not None, lambda: vp.column_width([t]) is not None,
                 lambda: vp.column_count([t]) is not None, lambda: vp.flex_basis([t]) is not None]
        mask = 0
        for bit, test in enumerate(tests):
            try:
                if test():
                    mask |= 1 << bit
            except Exception as exc:   # noqa
                crash = crash or _site(exc)
        ctab.append([j, mask])
        try:
            g = vp.flex_grow_shrink([t])
        except Exception as exc:   # noqa
            g = None
        if g is not None and isinstance(g, (int, float)) and math.isfinite(g):
            ftab.append([j, str(Fraction(g)), int(g) if float(g).is_integer() else None])
    r = _call_validator(name, toks)
    outs = []
    if r[0] == 'ok':
        code = 2
        for k, v in r[1]:
            if k.startswith('--'):
                val = ['raw', [tok_json(t, atoms) for t in v]]
            elif isinstance(v, Pending):
                if hasattr(v, 'validator'):
                    val = ['pexp', [tok_json(t, atoms) for t in v.tokens], _clean(v.validator.keywords['name'])]
                else:
                    val = ['pprop', [tok_json(t, atoms) for t in v.tokens], _clean(v.name)]
            else:
                val = ['val', vid(v)]
            outs.append([_clean(k), val])
    elif r[0] == 'invalid':
        code = 0
    else:
        code = 1
        crash = crash or r[1]
    return dict(name=_clean(name), tokens=jt, vtab=vtab, ctab=ctab, ftab=ftab, code=code, outs=outs, crash=crash,
                natoms=len(atoms))


# ------------------------------------------------------------------------------------------ units

def length_case(case):
    """case: dict(value='n/d', unit=) -> exact rational of computed_values.length(..., pixels_only=True)"""
    from weasyprint.css import computed_values
    from weasyprint.css.properties import Dimension
    r = computed_values.length({}, 'width', Dimension(Fraction(case['value']), case['unit']), pixels_only=True)
    return str(Fraction(r))


# ------------------------------------------------------------------------------------------ var()

def _style(envtext):
    """a real ComputedStyle (root element) whose cascaded custom properties are the given ones"""
    import tinycss2
    from weasyprint.css import ComputedStyle
    from weasyprint.css.utils import remove_whitespace
    cascaded = {}
    for k, v in envtext.items():
        toks = tuple(remove_whitespace(tinycss2.parse_component_value_list(v)))
        if toks:      # preprocess_declarations drops a custom property without tokens
            cascaded['__' + k[2:]] = (toks, 0)     # the key preprocess_declarations gives a custom property
    return ComputedStyle(None, cascaded, None, None, None, None)


def _resolve_all(style, tokens):
    """what ComputedStyle.__missing__ does with the tokens of a pending value; raises InvalidValues when the
    value is invalid at computed-value time"""
    from weasyprint import css
    return css.resolve_vars(style, tokens, None)


def var_case(case):
    """case: dict(env={'--x': 'value text'}, values=['value text', ...]).  The loop of ComputedStyle.__missing__
    (resolve_var on each token of a pending value) for each value in turn on ONE real ComputedStyle - the
    declarations of one element - and each on a style of its own.
    -> dict(env=[[stored key, tokens]], items=[dict(tokens, code, out, site, alone=[code, out])])"""
    import tinycss2
    from weasyprint.css.utils import InvalidValues, remove_whitespace
    atoms = {}
    style = _style(case['env'])
    jenv = [[_clean(k), [tok_json(t, atoms) for t in v[0]]] for k, v in style.cascaded.items()]
    items = []
    for value in case.get('values') or [case['value']]:
        tokens = tuple(remove_whitespace(tinycss2.parse_component_value_list(value)))
        jt = [tok_json(t, atoms) for t in tokens]
        res = []
        for st in (style, _style(case['env'])):
            code, out, site = 0, [], None
            try:
                out = [tok_json(t, atoms) for t in _resolve_all(st, tokens)]
            except InvalidValues:
                code = 4
            except RecursionError as exc:
                code, site = 2, _site(exc)
            except Exception as exc:   # noqa
                code, site = 3, _site(exc)
            res.append((code, out, site))
        items.append(dict(tokens=jt, code=res[0][0], out=res[0][1], site=res[0][2], alone=[res[1][0], res[1][1]]))
    return dict(env=jenv, items=items)


# ------------------------------------------------------------------------------------------ renders

FLOAT_RE = re.compile(r'-?\d+\.\d+(?:e[-+]?\d+)?')
GEOM = ('position_x', 'position_y', 'width', 'height', 'margin_top', 'margin_right', 'margin_bottom',
        'margin_left', 'padding_top', 'padding_right', 'padding_bottom', 'padding_left',
        'border_top_width', 'border_right_width', 'border_bottom_width', 'border_left_width')


def _g(x):
    if isinstance(x, (int, float)):
        return repr(float(x))
    return canon(x)


def _walk(box, out, keys, depth):
    from weasyprint.formatting_structure import boxes
    head = '%d %s %s' % (depth, type(box).__name__, box.element_tag)
    if isinstance(box, boxes.TextBox):
        head += ' ' + repr(box.text)
    geom = [_g(getattr(box, a, None)) for a in GEOM]
    st = box.style
    styles = []
    if st is not None:
        for k in keys:
            try:
                text = canon(st[k])
            except KeyError:
                text = '?'
            if k == 'background_position':
                # the shorthand resets to 0px what the initial value writes 0%: the same offset
                text = re.sub(r"Dimension\[0\.0,'(%|px)'\]", 'ZERO', text)
            styles.append(text)
    is_target = box.element is not None and box.element.get('id') == 't'
    out.append((head, geom, styles, is_target))
    for c in getattr(box, 'children', ()) or ():
        _walk(c, out, keys, depth + 1)
    inner = getattr(box, '_box', None)
    if inner is not None:
        _walk(inner, out, keys, depth + 1)


def _same_text(a, b, abs_tol=0.0):
    """equal up to the last bits of the floats written in them"""
    if a == b:
        return True
    ta, tb = FLOAT_RE.sub('#', a), FLOAT_RE.sub('#', b)
    if ta != tb:
        return False
    for x, y in zip(FLOAT_RE.findall(a), FLOAT_RE.findall(b)):
        x, y = float(x), float(y)
        if abs(x - y) > max(abs_tol, 1e-6 * max(1.0, abs(x))):
            return False
    return True


def fingerprint(case):
    """case: dict(html=) -> list of box records (head, geometry, computed style values, is #t)"""
    from tests.testing_utils import render_pages
    from weasyprint.css.properties import INITIAL_VALUES
    keys = sorted(INITIAL_VALUES)
    pages = render_pages(case['html'])
    out = []
    for p in pages:
        _walk(p, out, keys, 0)
    return out, keys, len(pages)


def fingerprint_pair(case):
    """case: dict(a=html, b=html) -> dict(same=bool, diff=first difference)"""
    # lengths spelled in different units differ in the last bit of the float product; Pango then rounds font
    # sizes and spacings to 1/1024 pt: a hundredth of a pixel per box is noise, not a different length
    tol = case.get('tol', 0.0)
    fa, keys, pages = fingerprint({'html': case['a']})
    fb, _, _ = fingerprint({'html': case['b']})
    res = dict(same=True, boxes=len(fa), pages=pages, diff=None)
    if len(fa) != len(fb):
        res.update(same=False, diff='box count %d vs %d' % (len(fa), len(fb)))
        return res
    for x, y in zip(fa, fb):
        if x[0] != y[0]:
            res.update(same=False, diff='box %s vs %s' % (x[0], y[0]))
            return res
        for name, a, b in zip(GEOM, x[1], y[1]):
            if not _same_text(a, b, tol):
                res.update(same=False, diff='box %s: %s = %s vs %s' % (x[0], name, a, b))
                return res
        if len(x[2]) != len(y[2]):
            res.update(same=False, diff='box %s: styled vs unstyled' % x[0])
            return res
        for k, a, b in zip(keys, x[2], y[2]):
            if not _same_text(a, b):
                res.update(same=False, diff='box %s: style %s = %s vs %s' % (x[0], k, a[:120], b[:120]))
                return res
    return res


class _CountingLogger:
    def __init__(self):
        self.n = 0

    def warning(self, *a, **k):
        self.n += 1

    def __getattr__(self, name):
        return lambda *a, **k: None


def probe_decl(case):
    """case: dict(css=one declaration) -> dict(yields=number of (name, value) pairs, names=[...], warned=number of
    warnings logged) ; raises on a crash"""
    import tinycss2
    from weasyprint.css import validation
    counter = _CountingLogger()
    saved = validation.LOGGER
    validation.LOGGER = counter
    try:
        r = _pp(tinycss2.parse_blocks_contents(case['css']))
    finally:
        validation.LOGGER = saved
    if r[0] != 'ok':
        raise RuntimeError('declaration crashes: %s' % (r[1],))
    return dict(yields=len(r[1]), names=[n for n, _, _ in r[1]], warned=counter.n)


def render_pair(case):
    """case: dict(a=, b=, kind=, bad=...) ; for bad-decl the inserted declaration must really yield nothing"""
    if case.get('kind') == 'bad-decl':
        import tinycss2
        r = _pp(tinycss2.parse_blocks_contents(case['bad']))
        if r[0] != 'ok':
            raise RuntimeError('bad declaration crashes: %s' % (r[1],))
        if r[1]:
            return dict(skipped=True)
    res = fingerprint_pair(case)
    control = case.get('control')
    if not res['same'] and control:
        # mechanism test of a known finding: the pair differs AND the control pair (the same documents with the
        # suspected cause taken out, or against what the defect is believed to compute) agrees
        c = fingerprint_pair(dict(control, tol=case.get('tol', 0.0)))
        res['mechanism'] = control['sig'] if c['same'] else None
        res['control_diff'] = c['diff']
    return res


# ------------------------------------------------------------------------------------------ shared Pending

def _pending_of(name, value):
    """the Pending object preprocess_declarations makes for `name: value`, and the longhands that share it"""
    import tinycss2
    from weasyprint.css.utils import Pending
    from weasyprint.css.validation import preprocess_declarations
    out = list(preprocess_declarations(BASE_URL, tinycss2.parse_blocks_contents('%s:%s' % (name, value))))
    obj = next((v for _, v, _ in out if isinstance(v, Pending)), None)
    if obj is None:
        return None, []
    return obj, [k.replace('_', '-') for k, v, _ in out if v is obj]


def _solve(obj, solved, key):
    """one call of Pending.solve on obj: (code, value id, number of warnings)"""
    from weasyprint.css import utils
    from weasyprint.css.utils import InvalidValues
    counter = _CountingLogger()
    saved = utils.LOGGER
    utils.LOGGER = counter
    try:
        try:
            v = obj.solve(solved, key)
            return [2, vid(v), counter.n]
        except InvalidValues:
            return [0, 0, counter.n]
        except Exception:   # noqa
            return [1, 0, counter.n]
    finally:
        utils.LOGGER = saved


def pending_seq(case):
    """case: dict(name=, value= (with var()), calls=[dict(env={'--x': text}, key=index)]).
    The calls are made in order on ONE Pending object (what ComputedStyle.__missing__ does for the elements a rule
    matches), and each on a fresh object.  -> None when the declaration makes no Pending object, else
    dict(is_property, shorthand, keys, calls=[[empty, [[key, vid]...], end, wanted]], shared=[[code, vid, warned]], fresh)"""
    import tinycss2
    from weasyprint.css.utils import InvalidValues, remove_whitespace
    from weasyprint.css.validation.properties import validate_non_shorthand

    obj, keys = _pending_of(case['name'], case['value'])
    if obj is None or not keys:
        return None
    is_property = not hasattr(obj, 'validator')
    shorthand = obj.name if is_property else obj.validator.keywords['name']
    calls, shared, fresh = [], [], []
    for c in case['calls']:
        key = keys[c['key'] % len(keys)]
        try:
            solved = _resolve_all(_style(c['env']), obj.tokens)
        except InvalidValues:
            continue          # invalid before solve() is reached: not a call on the object
        # the trace of the validator on the substituted tokens
        items, end = [], 0
        try:
            if is_property:
                for k, v in validate_non_shorthand(solved, obj.name, obj.base_url):
                    items.append([_clean(k), vid(v)])
            else:
                for k, v in obj.validator(solved):
                    items.append([_clean(k), vid(v)])
        except InvalidValues:
            end = 1
        except Exception:   # noqa
            end = 2
        calls.append([not solved, items, end, _clean(key)])
        shared.append(_solve(obj, solved, key))
        fobj, _ = _pending_of(case['name'], case['value'])
        fresh.append(_solve(fobj, _resolve_all(_style(c['env']), fobj.tokens), key))
    return dict(is_property=is_property, shorthand=_clean(shorthand), keys=keys, calls=calls, shared=shared, fresh=fresh)


FOUR_FAMILY = ('margin', 'padding', 'border-width', 'border-style', 'border-color')


def _unset_decls(longhands):
    from weasyprint.css.properties import INHERITED
    return ['%s:%s' % (k, 'inherit' if k.replace('-', '_') in INHERITED else 'initial') for k in longhands]


def shared_pair(case):
    """case: dict(template= html with @@RULES@@, selector= of the shared rule, decls=[dict(prop=, value= with var())],
    elems=[dict(id=, subst=[substituted value text or None (guaranteed-invalid) per declaration], erased=[the same
    with the undefined var() erased])]).
    A: one rule `selector{decls}` for all the elements.  B: the textual-substitution reference, one rule per element:
    `prop: substituted` where that is a valid declaration, else every longhand of prop unset (initial / inherit).
    Controls of the open findings (a deviation is theirs only if A equals the control):
      F161 var:shorthand-partial - as B, but in a four-sides shorthand the sides validated before the first invalid
        one keep their value;
      var:undefined-dropped - as B, but an undefined var() without fallback is erased from the declaration.
    -> dict(same, diff, mechanism=[signatures] or None, a, b, valid)"""
    import tinycss2
    from weasyprint.css.utils import InvalidValues, remove_whitespace
    from weasyprint.css.validation.expanders import EXPANDERS
    longs = []
    for d in case['decls']:
        obj, keys = _pending_of(d['prop'], d['value'])
        if obj is None:
            raise RuntimeError('no Pending object for %s:%s' % (d['prop'], d['value']))
        r = _pp(tinycss2.parse_blocks_contents('%s:%s' % (d['prop'], d['value'])))
        longs.append([n.replace('_', '-') for n, _, _ in r[1]])

    def accepted(prop, text):
        r = _pp(tinycss2.parse_blocks_contents('%s:%s' % (prop, text)))
        if r[0] != 'ok':
            raise RuntimeError('substituted declaration crashes: %s' % (r[1],))
        return len(r[1]) > 0

    def reference(partial, erase):
        rules, used = [], set()
        for e in case['elems']:
            out = []
            for d, sub, era, lh in zip(case['decls'], e['subst'], e['erased'], longs):
                if sub is None and erase:
                    sub = era
                    used.add('var:undefined-dropped')
                if sub is not None and accepted(d['prop'], sub):
                    out.append('%s:%s' % (d['prop'], sub))
                    continue
                kept = {}
                if partial and sub is not None and d['prop'] in FOUR_FAMILY:
                    toks = remove_whitespace(tinycss2.parse_component_value_list(sub))
                    texts = [t.serialize() for t in toks]
                    if 1 <= len(texts) <= 4:
                        second = texts[1] if len(texts) > 1 else texts[0]
                        sides = [texts[0], second, texts[2] if len(texts) > 2 else texts[0],
                                 texts[3] if len(texts) > 3 else second]
                        try:
                            for i, (k, v) in enumerate(EXPANDERS[d['prop']](tuple(toks), d['prop'], BASE_URL)):
                                kept[k] = sides[i]
                        except InvalidValues:
                            pass
                if kept:
                    used.add('var:shorthand-partial')
                out += ['%s:%s' % (k, kept[k]) for k in lh if k in kept] + _unset_decls([k for k in lh if k not in kept])
            rules.append('#%s{%s}' % (e['id'], ';'.join(out)))
        return case['template'].replace('@@RULES@@', ''.join(rules)), used

    a = case['template'].replace('@@RULES@@', '%s{%s}' % (case['selector'], ';'.join(
        '%s:%s' % (d['prop'], d['value']) for d in case['decls'])))
    b, _ = reference(False, False)
    res = fingerprint_pair({'a': a, 'b': b})
    verdicts = [sub is not None and accepted(d['prop'], sub) for e in case['elems'] for d, sub in zip(case['decls'], e['subst'])]
    res.update(a=a, b=b, valid=verdicts, mechanism=None)
    if not res['same']:
        for partial, erase in ((False, True),):
            c, used = reference(partial, erase)
            if used and c != b and fingerprint_pair({'a': a, 'b': c})['same']:
                res['mechanism'] = sorted(used)
                break
    return res


def multi(case):
    """several streams share one worker pool"""
    case = dict(case)
    fn = case.pop('fn')
    return globals()[fn](case)
