"""Implementation-side functions for C16 (run in worker processes; weasyprint imported from REPO).

stream_direct(case)   drive a real weasyprint.pdf.stream.Stream with a list of API calls, read its state back
render_pdf(case)      full render of an HTML document under a set of options; returns the PDF bytes (latin-1 str),
                      the page geometry of the Document and, optionally, the recorded Stream call traces
"""
import io
import os
import sys
from types import SimpleNamespace

# ---------------------------------------------------------------------------------------- palettes (shared)
# alpha: (python value, thousandths, printed as int?)
ALPHAS = [(0.0, 0, False), (0.125, 125, False), (0.5, 500, False), (1.0, 1000, False), (1, 1000, True), (0, 0, True)]
# colour: (space, channels) ; the index in SPACES is the model's space id
SPACES = ['srgb', 'hsl', 'hwb', 'xyz-d65', 'oklab', 'oklch', 'xyz-d50', 'lab', 'lch', None, 'display-p3']
COLORS = [('srgb', (1, 0, 0)), ('srgb', (0, 0, 1)), ('hsl', (120, 50, 50)), ('hwb', (10, 20, 30)),
          ('xyz-d65', (0.1, 0.2, 0.3)), ('oklab', (0.5, 0.1, 0.1)), ('oklch', (0.5, 0.1, 20)),
          ('xyz-d50', (0.1, 0.2, 0.3)), ('lab', (50, 20, 30)), ('lch', (50, 20, 30)), ('display-p3', (1, 0, 0.5)),
          ('srgb', (0, 0.5, 0))]
FONTS = ['Fa', 'Fb', 'ZaDb']
SIZES = [10, 12, 7.5]
# raw pydyf operators used as `Tok k`: (method, args, operator keyword)
RAW = [('rectangle', (0, 0, 1, 1), 're'), ('fill', (), 'f'), ('clip', (), 'W'), ('end', (), 'n'),
       ('move_to', (1, 2), 'm'), ('line_to', (3, 4), 'l'), ('stroke', (), 'S'), ('set_line_width', (2,), 'w'),
       ('show_text', ('<0041>',), 'TJ'), ('draw_x_object', ('x0',), 'Do'), ('paint_shading', ('s0',), 'sh'),
       ('close', (), 'h'), ('set_dash', ([1, 2], 0), 'd'), ('move_text_to', (1, 1), 'Td'),
       ('set_text_rise', (1,), 'Ts'), ('curve_to', (1, 2, 3, 4, 5, 6), 'c'), ('fill_and_stroke', (), 'B'),
       ('set_line_cap', (1,), 'J'), ('set_miter_limit', (4,), 'M'), ('show_text_string', ('a',), 'Tj')]


def _color(idx, alpha):
    import tinycss2.color4 as c4
    space, chans = COLORS[idx]
    return c4.Color(space, tuple(float(x) for x in chans), alpha)


def _color_bytes():
    """bytes that pydyf prints for each palette colour (conversion done with tinycss2, not with weasyprint)"""
    import pydyf
    table = {}
    for idx, (space, chans) in enumerate(COLORS):
        c = _color(idx, 1.0)
        if space in ('srgb', 'hsl', 'hwb'):
            co = c.to('srgb').coordinates
        elif space in ('xyz-d65', 'oklab', 'oklch', 'xyz-d50', 'lab', 'lch'):
            co = c.to('lab').coordinates
        else:
            co = c.coordinates
        table[b' '.join(pydyf._to_bytes(x) for x in co)] = idx
    assert len(table) == len(COLORS)
    return table


def _alpha_value(text):
    for v, _, _ in ALPHAS:
        if str(v) == text:
            return v
    raise ValueError(text)


def _thousandths(x):
    return None if x is None else int(round(float(x) * 1000))


def _gs_content(resources, key):
    d = resources['ExtGState'][key]
    return [_thousandths(d.get('ca')), _thousandths(d.get('CA'))]


def _new_stream(mark, keys0):
    import pydyf
    from weasyprint.pdf.stream import Stream
    eg = pydyf.Dictionary()
    for k in keys0:                       # what Stream.set_alpha would have stored / an opaque state for s<n>
        eg[k] = pydyf.Dictionary({'ca': _alpha_value(k[1:])} if k[0] == 'a' else
                                 {'CA': _alpha_value(k[1:])} if k[0] == 'A' else {})
    resources = pydyf.Dictionary({
        'ExtGState': eg, 'XObject': pydyf.Dictionary(), 'Pattern': pydyf.Dictionary(),
        'Shading': pydyf.Dictionary(), 'ColorSpace': pydyf.Dictionary()})
    return Stream({}, (0, 0, 100, 100), resources, {}, mark, compress=False), resources


def _decode_item(item, ctable, content):
    """one item of Stream.stream -> abstract token (JSON-able list)"""
    import pydyf
    if isinstance(item, pydyf.Dictionary):
        return ['props', int(item['MCID'])]
    if isinstance(item, str):
        item = item.encode()
    if item in (b'q', b'Q', b'BT', b'ET', b'BMC', b'BDC', b'EMC'):
        return [item.decode()]
    parts = item.split()
    opname = parts[-1]
    if opname == b'gs':
        return ['gs', parts[0][1:].decode()] + content
    if opname in (b'rg', b'RG'):
        return ['rg', opname == b'RG', ctable[b' '.join(parts[:-1])]]
    if opname in (b'cs', b'CS'):
        return ['cs', opname == b'CS', {b'/lab-d65': 1, b'/lab-d50': 2, b'/Pattern': 9}[parts[0]]]
    if opname in (b'scn', b'SCN'):
        if parts[0].startswith(b'/p'):
            return ['pat', opname == b'SCN', int(parts[0][2:])]
        return ['scn', opname == b'SCN', ctable[b' '.join(parts[:-1])]]
    if opname == b'Tf':
        return ['Tf', FONTS.index(parts[0][1:].decode()), [str(s) for s in SIZES].index(parts[1].decode())]
    if opname in (b'cm', b'Tm'):
        return [opname.decode()] + [int(x) for x in parts[:-1]]
    if len(parts) == 1 and item.startswith(b'/'):
        return ['tag']
    for k, (_, _, kw) in enumerate(RAW):
        if opname == kw.encode():
            return ['other', k]
    raise ValueError('cannot decode stream item %r' % (item,))


def _cache_color(t):
    if t is None:
        return None
    space, chans = t[0], tuple(t[1:])
    for idx, (sp, ch) in enumerate(COLORS):
        if sp == space and tuple(float(x) for x in ch) == tuple(float(x) for x in chans):
            return idx
    raise ValueError('unknown cached colour %r' % (t,))


def _note_contents(stream, contents):
    """contents[i] = what the ExtGState dictionary held under the name when item i (`/name gs`) was appended"""
    del contents[len(stream.stream):]
    for item in stream.stream[len(contents):]:
        if isinstance(item, bytes) and item.endswith(b' gs'):
            contents.append(_gs_content(stream._resources, item.split()[0][1:].decode()))
        else:
            contents.append(None)


def apply_ops(stream, ops, contents=None):
    import pydyf
    box = SimpleNamespace(element_tag='div', element=None)
    for o in ops:
        if contents is not None:
            _note_contents(stream, contents)
        k = o[0]
        if k == 'push':
            stream.push_state()
        elif k == 'pop':
            stream.pop_state()
        elif k == 'bt':
            stream.begin_text()
        elif k == 'et':
            stream.end_text()
        elif k == 'color':
            stream.set_color(_color(o[2], ALPHAS[o[3]][0]), stroke=o[1])
        elif k == 'alpha':
            if o[3] is None:
                stream.set_alpha(ALPHAS[o[1]][0], stroke=o[2])
            else:
                stream.set_alpha(ALPHAS[o[1]][0], stroke=o[2], fill=o[3])
        elif k == 'font':
            stream.set_font_size(FONTS[o[1]], SIZES[o[2]])
        elif k == 'state':
            ca, CA = o[1], o[2]
            if ca == 4 and CA is None:
                stream.set_alpha_state(0, 0, 1, 1)          # {'ca': 1, SMask...}
            elif ca is None and CA is None:
                stream.set_blend_mode('Multiply')
            else:
                d = pydyf.Dictionary({'Type': '/ExtGState'})
                if ca is not None:
                    d['ca'] = ALPHAS[ca][0]
                if CA is not None:
                    d['CA'] = ALPHAS[CA][0]
                stream.set_state(d)
        elif k == 'pattern':
            stream.set_color_space('Pattern', stroke=o[1])
            stream.set_color_special('p%d' % o[2], stroke=o[1])
        elif k == 'cm':
            stream.transform(*o[1:])
        elif k == 'tm':
            stream.set_text_matrix(*o[1:])
        elif k == 'bmc':
            stream.begin_marked_content(box, mcid=o[1])
        elif k == 'emc':
            stream.end_marked_content()
        elif k == 'tok':
            name, args, _ = RAW[o[1]]
            getattr(stream, name)(*args)
        else:
            raise ValueError(o)


def stream_direct(case):
    """case: dict(mark, keys0, ops) -> dict(state read back) or {'raised': type} when a call raises."""
    stream, resources = _new_stream(case['mark'], case['keys0'])
    contents = []
    try:
        apply_ops(stream, case['ops'], contents)
    except (IndexError, AssertionError) as exc:
        return {'raised': type(exc).__name__}
    _note_contents(stream, contents)
    ctable = _color_bytes()
    f = lambda t: None if t is None else [FONTS.index(t[0]), SIZES.index(t[1])]
    return {
        'toks': [_decode_item(i, ctable, c) for i, c in zip(stream.stream, contents)],
        'ctms': [[int(v) for v in m.values] for m in stream._ctm_stack],
        'col': _cache_color(stream._current_color), 'cols': _cache_color(stream._current_color_stroke),
        'alpha': stream._current_alpha, 'alphas': stream._current_alpha_stroke,
        'font': f(stream._current_font), 'ofont': f(stream._old_font),
        'keys': [[k] + _gs_content(resources, k) for k in resources['ExtGState']], 'nmark': len(stream.marked),
        'bytes': b'\n'.join(i if isinstance(i, bytes) else (i.data if hasattr(i, 'data') else str(i).encode())
                            for i in stream.stream).decode('latin-1'),
    }
