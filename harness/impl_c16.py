"""Implementation-side functions for C16 (run in worker processes; weasyprint imported from REPO).

stream_direct(case)   drive a real weasyprint.pdf.stream.Stream with a list of API calls, read its state back
render_pdf(case)      full render of an HTML document under a set of options; returns the PDF bytes (latin-1 str),
                      the page geometry of the Document and, optionally, the recorded Stream call traces
"""
import io
import os
import sys
from types import SimpleNamespace

# ---------------------------------------------------------------------------------------- palettes (shared)
# alpha: (python value, thousandths, printed as int?)
ALPHAS = [(0.0, 0, False), (0.125, 125, False), (0.5, 500, False), (1.0, 1000, False), (1, 1000, True), (0, 0, True)]
# colour: (space, channels) ; the index in SPACES is the model's space id
SPACES = ['srgb', 'hsl', 'hwb', 'xyz-d65', 'oklab', 'oklch', 'xyz-d50', 'lab', 'lch', None, 'display-p3']
COLORS = [('srgb', (1, 0, 0)), ('srgb', (0, 0, 1)), ('hsl', (120, 50, 50)), ('hwb', (10, 20, 30)),
          ('xyz-d65', (0.1, 0.2, 0.3)), ('oklab', (0.5, 0.1, 0.1)), ('oklch', (0.5, 0.1, 20)),
          ('xyz-d50', (0.1, 0.2, 0.3)), ('lab', (50, 20, 30)), ('lch', (50, 20, 30)), ('display-p3', (1, 0, 0.5)),
          ('srgb', (0, 0.5, 0))]
FONTS = ['Fa', 'Fb', 'ZaDb']
SIZES = [10, 12, 7.5]
# raw pydyf operators used as `Tok k`: (method, args, operator keyword)
RAW = [('rectangle', (0, 0, 1, 1), 're'), ('fill', (), 'f'), ('clip', (), 'W'), ('end', (), 'n'),
       ('move_to', (1, 2), 'm'), ('line_to', (3, 4), 'l'), ('stroke', (), 'S'), ('set_line_width', (2,), 'w'),
       ('show_text', ('<0041>',), 'TJ'), ('draw_x_object', ('x0',), 'Do'), ('paint_shading', ('s0',), 'sh'),
       ('close', (), 'h'), ('set_dash', ([1, 2], 0), 'd'), ('move_text_to', (1, 1), 'Td'),
       ('set_text_rise', (1,), 'Ts'), ('curve_to', (1, 2, 3, 4, 5, 6), 'c'), ('fill_and_stroke', (), 'B'),
       ('set_line_cap', (1,), 'J'), ('set_miter_limit', (4,), 'M'), ('show_text_string', ('a',), 'Tj')]


def _color(idx, alpha):
    import tinycss2.color4 as c4
    space, chans = COLORS[idx]
    return c4.Color(space, tuple(float(x) for x in chans), alpha)


def _color_bytes():
    """bytes that pydyf prints for each palette colour (conversion done with tinycss2, not with weasyprint)"""
    import pydyf
    table = {}
    for idx, (space, chans) in enumerate(COLORS):
        c = _color(idx, 1.0)
        if space in ('srgb', 'hsl', 'hwb'):
            co = c.to('srgb').coordinates
        elif space in ('xyz-d65', 'oklab', 'oklch', 'xyz-d50', 'lab', 'lch'):
            co = c.to('lab').coordinates
        else:
            co = c.coordinates
        table[b' '.join(pydyf._to_bytes(x) for x in co)] = idx
    assert len(table) == len(COLORS)
    return table


def _alpha_value(text):
    for v, _, _ in ALPHAS:
        if str(v) == text:
            return v
    raise ValueError(text)


def _thousandths(x):
    return None if x is None else int(round(float(x) * 1000))


def _gs_content(resources, key):
    d = resources['ExtGState'][key]
    return [_thousandths(d.get('ca')), _thousandths(d.get('CA'))]


def _new_stream(mark, keys0):
    import pydyf
    from weasyprint.pdf.stream import Stream
    eg = pydyf.Dictionary()
    for k in keys0:                       # what Stream.set_alpha would have stored / an opaque state for s<n>
        eg[k] = pydyf.Dictionary({'ca': _alpha_value(k[1:])} if k[0] == 'a' else
                                 {'CA': _alpha_value(k[1:])} if k[0] == 'A' else {})
    resources = pydyf.Dictionary({
        'ExtGState': eg, 'XObject': pydyf.Dictionary(), 'Pattern': pydyf.Dictionary(),
        'Shading': pydyf.Dictionary(), 'ColorSpace': pydyf.Dictionary()})
    return Stream({}, (0, 0, 100, 100), resources, {}, mark, compress=False), resources


def _decode_item(item, ctable, content):
    """one item of Stream.stream -> abstract token (JSON-able list)"""
    import pydyf
    if isinstance(item, pydyf.Dictionary):
        return ['props', int(item['MCID'])]
    if isinstance(item, str):
        item = item.encode()
    if item in (b'q', b'Q', b'BT', b'ET', b'BMC', b'BDC', b'EMC'):
        return [item.decode()]
    parts = item.split()
    opname = parts[-1]
    if opname == b'gs':
        return ['gs', parts[0][1:].decode()] + content
    if opname in (b'rg', b'RG'):
        return ['rg', opname == b'RG', ctable[b' '.join(parts[:-1])]]
    if opname in (b'cs', b'CS'):
        return ['cs', opname == b'CS', {b'/lab-d65': 1, b'/lab-d50': 2, b'/Pattern': 9}[parts[0]]]
    if opname in (b'scn', b'SCN'):
        if parts[0].startswith(b'/p'):
            return ['pat', opname == b'SCN', int(parts[0][2:])]
        return ['scn', opname == b'SCN', ctable[b' '.join(parts[:-1])]]
    if opname == b'Tf':
        return ['Tf', FONTS.index(parts[0][1:].decode()), [str(s) for s in SIZES].index(parts[1].decode())]
    if opname in (b'cm', b'Tm'):
        return [opname.decode()] + [int(x) for x in parts[:-1]]
    if len(parts) == 1 and item.startswith(b'/'):
        return ['tag']
    for k, (_, _, kw) in enumerate(RAW):
        if opname == kw.encode():
            return ['other', k]
    raise ValueError('cannot decode stream item %r' % (item,))


def _cache_color(t):
    if t is None:
        return None
    space, chans = t[0], tuple(t[1:])
    for idx, (sp, ch) in enumerate(COLORS):
        if sp == space and tuple(float(x) for x in ch) == tuple(float(x) for x in chans):
            return idx
    raise ValueError('unknown cached colour %r' % (t,))


def _note_contents(stream, contents):
    """contents[i] = what the ExtGState dictionary held under the name when item i (`/name gs`) was appended"""
    del contents[len(stream.stream):]
    for item in stream.stream[len(contents):]:
        if isinstance(item, bytes) and item.endswith(b' gs'):
            contents.append(_gs_content(stream._resources, item.split()[0][1:].decode()))
        else:
            contents.append(None)


def apply_ops(stream, ops, contents=None, resolved=None):
    import pydyf
    box = SimpleNamespace(element_tag='div', element=None)
    cps = []
    for o in ops:
        if contents is not None:
            _note_contents(stream, contents)
        k = o[0]
        if k == 'cp':                       # checkpoint = stream.checkpoint(): no effect on the stream
            cps.append(stream.checkpoint())
            continue
        if k == 'rb':                       # stream.rollback(one of the checkpoints taken so far)
            if not cps:
                continue
            cp = cps[o[1] % len(cps)]
            stream.rollback(cp)
            if resolved is not None:
                resolved.append(['rb', cp[0], cp[1], cp[2]['ExtGState']])
            continue
        if resolved is not None:
            resolved.append(o)
        if k == 'push':
            stream.push_state()
        elif k == 'pop':
            stream.pop_state()
        elif k == 'bt':
            stream.begin_text()
        elif k == 'et':
            stream.end_text()
        elif k == 'color':
            stream.set_color(_color(o[2], ALPHAS[o[3]][0]), stroke=o[1])
        elif k == 'alpha':
            if o[3] is None:
                stream.set_alpha(ALPHAS[o[1]][0], stroke=o[2])
            else:
                stream.set_alpha(ALPHAS[o[1]][0], stroke=o[2], fill=o[3])
        elif k == 'font':
            stream.set_font_size(FONTS[o[1]], SIZES[o[2]])
        elif k == 'state':
            ca, CA = o[1], o[2]
            if ca == 4 and CA is None:
                stream.set_alpha_state(0, 0, 1, 1)          # {'ca': 1, SMask...}
            elif ca is None and CA is None:
                stream.set_blend_mode('Multiply')
            else:
                d = pydyf.Dictionary({'Type': '/ExtGState'})
                if ca is not None:
                    d['ca'] = ALPHAS[ca][0]
                if CA is not None:
                    d['CA'] = ALPHAS[CA][0]
                stream.set_state(d)
        elif k == 'pattern':
            stream.set_color_space('Pattern', stroke=o[1])
            stream.set_color_special('p%d' % o[2], stroke=o[1])
        elif k == 'cm':
            stream.transform(*o[1:])
        elif k == 'tm':
            stream.set_text_matrix(*o[1:])
        elif k == 'bmc':
            stream.begin_marked_content(box, mcid=o[1])
        elif k == 'emc':
            stream.end_marked_content()
        elif k == 'tok':
            name, args, _ = RAW[o[1]]
            getattr(stream, name)(*args)
        else:
            raise ValueError(o)


def stream_direct(case):
    """case: dict(mark, keys0, ops) -> dict(state read back) or {'raised': type} when a call raises."""
    stream, resources = _new_stream(case['mark'], case['keys0'])
    contents, resolved = [], []
    try:
        apply_ops(stream, case['ops'], contents, resolved)
    except (IndexError, AssertionError) as exc:
        return {'raised': type(exc).__name__, 'ops': resolved}
    _note_contents(stream, contents)
    ctable = _color_bytes()
    f = lambda t: None if t is None else [FONTS.index(t[0]), SIZES.index(t[1])]
    return {
        'ops': resolved,
        'toks': [_decode_item(i, ctable, c) for i, c in zip(stream.stream, contents)],
        'ctms': [[int(v) for v in m.values] for m in stream._ctm_stack],
        'col': _cache_color(stream._current_color), 'cols': _cache_color(stream._current_color_stroke),
        'alpha': stream._current_alpha, 'alphas': stream._current_alpha_stroke,
        'font': f(stream._current_font), 'ofont': f(stream._old_font),
        'keys': [[k] + _gs_content(resources, k) for k in resources['ExtGState']], 'nmark': len(stream.marked),
        'bytes': b'\n'.join(i if isinstance(i, bytes) else (i.data if hasattr(i, 'data') else str(i).encode())
                            for i in stream.stream).decode('latin-1'),
    }


# ------------------------------------------------------------------ recording the Stream calls of real renders

_REC = None
_INSTALLED = False
STATEFUL = ('push_state', 'pop_state', 'begin_text', 'end_text', 'set_color', 'set_alpha', 'set_font_size',
            'set_state', 'transform', 'set_text_matrix', 'begin_marked_content', 'end_marked_content',
            'set_color_space', 'set_color_special', 'checkpoint', 'rollback')
# operator keywords for `Tok k` of recorded traces (k = index); anything else is appended on the fly
KWS = ['re', 'f', 'W', 'n', 'm', 'l', 'S', 'w', 'TJ', 'Do', 'sh', 'h', 'd', 'Td', 'Ts', 'c', 'B', 'J', 'M', 'Tj',
       'f*', 'W*', 'B*', 'b', 'b*', 's', 'v', 'y', 'j', 'Tr', 'EI']


class Trace(object):
    def __init__(self, stream, index):
        import pydyf
        self.stream = stream                 # keeps the object alive: ids are not reused
        self.index = index
        self.list_obj = stream.stream
        self.depth = 0
        self.ops = []
        self.labels = []
        self.flags = set()
        self.alphas = {}                     # float value -> id
        self.colors = {}
        self.fonts = {}
        self.sizes = {}
        self.ncm = 0
        self.ntm = 0
        self.cps = []                        # (position in self.ops, checkpoint tuple) of every checkpoint() call
        self.dead = set()                    # indices of self.ops erased by a rollback (the failed drawings)
        self.last_result = None
        self.mark = bool(stream._mark)
        eg = stream._resources['ExtGState']
        self.known = list(eg.keys())
        self.keys0 = [self.key(k) + self.content(eg[k]) for k in eg]
        self.initial_len = len(stream.stream)
        if self.initial_len:
            self.flags.add('nonempty-at-start')

    # -- value tables
    def aid(self, value):
        return self.alphas.setdefault(float(value), len(self.alphas))

    def key(self, name):
        """'a0.5' -> ['KA', stroke, alpha id, isint] ; 's3' -> ['KS', 3]"""
        import re
        m = re.fullmatch(r's(\d+)', name)
        if m:
            return ['KS', int(m.group(1))]
        if name and name[0] in 'aA':
            try:
                v = float(name[1:])
            except ValueError:
                v = None
            if v is not None and v == v:
                return ['KA', name[0] == 'A', self.aid(v), bool(re.fullmatch(r'-?\d+', name[1:]))]
        self.flags.add('unmodelled-key')
        return ['KS', -1]

    def content(self, d):
        ca, CA = (d.get('ca'), d.get('CA')) if hasattr(d, 'get') else (None, None)
        return [None if ca is None else self.aid(ca), None if CA is None else self.aid(CA)]

    def cid(self, color):
        sp = color.space
        space = SPACES.index(sp) if sp in SPACES else 10
        key = (sp, tuple(color.coordinates))
        return [space, self.colors.setdefault(key, len(self.colors))]

    # -- hooks
    def before(self):
        s = self.stream
        if s.stream is not self.list_obj:
            self.flags.add('list-replaced')
            self.list_obj = s.stream
        if len(s.stream) != len(self.labels) + self.initial_len:
            self.flags.add('foreign-append')
        eg = s._resources['ExtGState']
        if len(eg) != len(self.known):
            for k in list(eg.keys())[len(self.known):]:
                kk = self.key(k)
                if kk[0] == 'KS':
                    self.ops.append(['xstate'] + self.content(eg[k]))
                else:
                    self.ops.append(['xalpha', kk[1], kk[2], kk[3]])
            self.known = list(eg.keys())

    def label_new(self, maker):
        s = self.stream
        del self.labels[max(0, len(s.stream) - self.initial_len):]
        for item in s.stream[len(self.labels) + self.initial_len:]:
            self.labels.append(maker(item))
        self.known = list(s._resources['ExtGState'].keys())

    def generic(self, item):
        import pydyf
        if isinstance(item, pydyf.Dictionary):
            return ['props', int(item.get('MCID', -1))]
        if isinstance(item, str):
            item = item.encode()
        if not isinstance(item, bytes):
            self.flags.add('odd-item')
            return ['other', 0]
        if item in (b'q', b'Q', b'BT', b'ET', b'BMC', b'BDC', b'EMC'):
            return [item.decode()]
        parts = item.split()
        kw = parts[-1].decode('latin-1') if parts else ''
        if kw == 'gs':
            name = parts[0][1:].decode()
            return ['gs'] + [self.key(name)] + self.content(self.stream._resources['ExtGState'].get(name))
        if len(parts) == 1 and item.startswith(b'/'):
            return ['tag']
        if kw not in KWS:
            KWS.append(kw)
        return ['other', KWS.index(kw)]

    def after(self, name, a, k, raised):
        s = self.stream
        if raised:
            self.flags.add('raised:' + raised)
        g = self.generic
        if name == 'checkpoint':
            self.cps.append((len(self.ops), self.last_result))
            return
        if name == 'rollback':
            cp = a[0] if a else k.get('checkpoint')
            start = [pos for pos, c in self.cps if c is cp]
            if not start or not isinstance(cp, tuple):
                self.flags.add('unmodelled-rollback-of-unknown-checkpoint')
                start = [len(self.ops)]
            self.dead.update(range(start[-1], len(self.ops) + 1))
            self.ops.append(['rb', cp[0] - self.initial_len, cp[1], cp[2].get('ExtGState', 0)])
            self.label_new(g)
            return
        if name == 'push_state':
            self.ops.append(['push']); self.label_new(g)
        elif name == 'pop_state':
            self.ops.append(['pop']); self.label_new(g)
        elif name == 'begin_text':
            self.ops.append(['bt']); self.label_new(g)
        elif name == 'end_text':
            self.ops.append(['et']); self.label_new(g)
        elif name == 'set_color':
            color = a[0] if a else k['color']
            stroke = bool(a[1] if len(a) > 1 else k.get('stroke', False))
            c = self.cid(color)
            alpha = list(color)[-1]
            self.ops.append(['color', stroke, c, self.aid(alpha), isinstance(alpha, int)])

            def mk(item):
                kw = item.split()[-1] if isinstance(item, bytes) else b''
                if kw in (b'rg', b'RG'):
                    return ['rg', kw == b'RG', c]
                if kw in (b'cs', b'CS'):
                    return ['cs', kw == b'CS', {b'/lab-d65': 1, b'/lab-d50': 2}.get(item.split()[0], 0)]
                if kw in (b'scn', b'SCN'):
                    return ['scn', kw == b'SCN', c]
                return g(item)
            self.label_new(mk)
        elif name == 'set_alpha':
            alpha = a[0] if a else k['alpha']
            stroke = bool(a[1] if len(a) > 1 else k.get('stroke', False))
            fill = a[2] if len(a) > 2 else k.get('fill', None)
            self.ops.append(['alpha', self.aid(alpha), isinstance(alpha, int), stroke, None if fill is None else bool(fill)])
            self.label_new(g)
        elif name == 'set_font_size':
            font = a[0] if a else k['font']
            size = a[1] if len(a) > 1 else k['size']
            f = [self.fonts.setdefault(str(font), len(self.fonts)), self.sizes.setdefault(float(size), len(self.sizes))]
            self.ops.append(['font'] + f)
            self.label_new(lambda item: ['Tf'] + f if isinstance(item, bytes) and item.endswith(b' Tf') else g(item))
        elif name == 'set_state':
            state = a[0] if a else k['state']
            self.ops.append(['state'] + self.content(state))
            self.label_new(g)
        elif name == 'transform':
            self.ncm += 1
            n = self.ncm
            self.ops.append(['cm', n])
            self.label_new(lambda item: ['cm', n] if isinstance(item, bytes) and item.endswith(b' cm') else g(item))
        elif name == 'set_text_matrix':
            self.ntm += 1
            n = self.ntm
            self.ops.append(['tm', n])
            self.label_new(lambda item: ['Tm', n] if isinstance(item, bytes) and item.endswith(b' Tm') else g(item))
        elif name == 'begin_marked_content':
            mcid = a[1] if len(a) > 1 else k.get('mcid', False)
            self.ops.append(['bmc', bool(mcid)]); self.label_new(g)
        elif name == 'end_marked_content':
            self.ops.append(['emc']); self.label_new(g)
        elif name == 'set_color_space' and (a[0] if a else k.get('space')) == 'Pattern':
            stroke = bool(a[1] if len(a) > 1 else k.get('stroke', False))
            self.ops.append(['pattern-cs', stroke])
            self.label_new(lambda item: ['cs', stroke, 9])
        elif name == 'set_color_special' and (a[0] if a else k.get('name')):
            pname = str(a[0] if a else k.get('name'))
            stroke = bool(a[1] if len(a) > 1 else k.get('stroke', False))
            try:
                pid = int(pname[1:]) if pname[0] == 'p' else -1
            except ValueError:
                pid = -1
            if pid < 0:
                self.flags.add('unmodelled-special-colour')
            self.ops.append(['pattern-scn', stroke, pid])
            self.label_new(lambda item: ['pat', stroke, pid])
        else:
            if name in ('set_matrix', 'set_color_rgb', 'set_color_space', 'set_color_special'):
                self.flags.add('unmodelled-direct-' + name)       # goes behind the ctm stack / the caches
            n0 = len(self.labels)
            self.label_new(g)
            for lab in self.labels[n0:]:
                self.ops.append(['tok', lab[1]] if lab[0] == 'other' else ['tok', 0])
                if lab[0] != 'other':
                    self.flags.add('unmodelled-raw-' + lab[0])

    def result(self):
        s = self.stream
        self.before()
        ops, kops, i = [], [], 0

        def out(o, idx):
            ops.append(o)
            if idx not in self.dead:
                kops.append(o)
        while i < len(self.ops):
            o = self.ops[i]
            if o[0] == 'pattern-cs' and i + 1 < len(self.ops) and self.ops[i + 1][0] == 'pattern-scn' \
                    and self.ops[i + 1][1] == o[1]:
                out(['pattern', o[1], self.ops[i + 1][2]], i); i += 2
                continue
            if o[0] in ('pattern-cs', 'pattern-scn'):
                self.flags.add('unmodelled-unpaired-pattern')
                out(['tok', 0], i); i += 1
                continue
            out(o, i); i += 1
        if len(self.labels) + self.initial_len != len(s.stream):
            self.flags.add('foreign-append')
        return {'index': self.index, 'mark': self.mark, 'keys0': self.keys0, 'ops': ops, 'kops': kops, 'rollbacks': len(self.ops) - len([1 for o in self.ops if o[0] != 'rb']),
                'toks': self.labels,
                'flags': sorted(self.flags), 'ctm_depth': len(s._ctm_stack), 'id': getattr(s, 'id', None),
                'nalpha': len(self.alphas)}


class Recorder(object):
    def __init__(self):
        self.traces = {}
        self.order = []

    def trace_of(self, stream):
        t = self.traces.get(id(stream))
        if t is None:
            t = self.traces[id(stream)] = Trace(stream, len(self.order))
            self.order.append(t)
        return t


def _install_recorder():
    global _INSTALLED
    if _INSTALLED:
        return
    import pydyf
    from weasyprint.pdf.stream import Stream
    names = [n for n in dir(pydyf.Stream) if not n.startswith('_') and callable(getattr(pydyf.Stream, n))
             and not isinstance(getattr(pydyf.Stream, n), property)]
    names = sorted(set(names) | set(STATEFUL))
    for name in names:
        if name in ('data', 'indirect', 'reference', 'compressible'):
            continue
        orig = getattr(Stream, name, None)
        if orig is None or not callable(orig):
            continue

        def make(name, orig):
            def method(self, *a, **k):
                rec = _REC
                if rec is None:
                    return orig(self, *a, **k)
                tr = rec.trace_of(self)
                if tr.depth:
                    tr.depth += 1
                    try:
                        return orig(self, *a, **k)
                    finally:
                        tr.depth -= 1
                tr.before()
                tr.depth = 1
                raised = None
                try:
                    tr.last_result = orig(self, *a, **k)
                    return tr.last_result
                except BaseException as exc:
                    raised = type(exc).__name__
                    raise
                finally:
                    tr.depth = 0
                    tr.after(name, a, k, raised)
            method.__name__ = name
            return method
        setattr(Stream, name, make(name, orig))
    _INSTALLED = True


# ------------------------------------------------------------------------------------------- full renders

RESOURCES = None


def _html(case):
    from tests.testing_utils import FakeHTML, resource_path
    return FakeHTML(string=case['html'], base_url=resource_path('<inline HTML>'))


def _options(case):
    opts = dict(case.get('options') or {})
    if isinstance(opts.get('pdf_identifier'), str):
        opts['pdf_identifier'] = opts['pdf_identifier'].encode('latin-1')
    if opts.get('attachments'):
        from weasyprint import Attachment
        opts['attachments'] = [Attachment(string=a['data'].encode('latin-1'), name=a.get('name'),
                                          description=a.get('description')) for a in opts['attachments']]
    return opts


class _Capture(__import__('logging').Handler):
    """exceptions that WeasyPrint swallows while drawing (SVGImage.draw logs them at DEBUG level)"""
    def __init__(self):
        super().__init__(level=0)
        self.sites = []

    def emit(self, record):
        if record.exc_info and str(record.msg).startswith('Error while rendering SVG'):
            exc = record.exc_info if isinstance(record.exc_info, BaseException) else record.exc_info[1]
            import traceback
            site = None
            for fr in reversed(traceback.extract_tb(exc.__traceback__)):
                if '/weasyprint/' in fr.filename:
                    site = '%s:%s:%s' % (type(exc).__name__, fr.filename.split('/weasyprint/')[-1], fr.name)
                    break
            self.sites.append(site or type(exc).__name__)


def render_pdf(case):
    """case: dict(html, options, zoom, record, twin).  Renders, parses the PDF with harness/pdfread.py and judges it
    with p_c16.judge_pdf inside the worker (the PDF bytes do not travel).  Returns dict(bad=[(clause, detail)],
    stats, skeletons, traces?)."""
    global _REC
    import p_c16
    opts = _options(case)
    zoom = case.get('zoom', 1)
    rec = None
    if case.get('record'):
        _install_recorder()
        rec = _REC = Recorder()
    import logging
    from weasyprint.logger import LOGGER
    cap = _Capture()
    old_level, old_propagate = LOGGER.level, LOGGER.propagate
    LOGGER.addHandler(cap)
    LOGGER.setLevel(logging.DEBUG)
    LOGGER.propagate = False
    try:
        document = _html(case).render(**opts)
        pdf = document.write_pdf(zoom=zoom, **opts)
    finally:
        _REC = None
        LOGGER.removeHandler(cap)
        LOGGER.setLevel(old_level)
        LOGGER.propagate = old_propagate
    pages = [{'w': p.width, 'h': p.height, 'bleed': dict(p.bleed)} for p in document.pages]
    verdict = p_c16.judge_pdf(pdf, case, pages)
    verdict['swallowed'] = cap.sites
    if case.get('twin'):
        # the same document with the opposite compression: the decoded content streams must be the same
        opts2 = _options(case)
        opts2['uncompressed_pdf'] = not opts2.get('uncompressed_pdf', False)
        pdf2 = _html(case).render(**opts2).write_pdf(zoom=zoom, **opts2)
        verdict['bad'] += p_c16.compare_twins(pdf, pdf2)
        verdict['stats']['twin'] = True
    if rec is not None:
        verdict['traces'] = [t.result() for t in rec.order]
    if case.get('keep_pdf'):
        verdict['pdf'] = pdf.decode('latin-1')
    return verdict


# ------------------------------------------------------------------- resource naming over a forest of streams

def res_direct(case):
    """case: dict(ops=[[sid, kind, ...]]) on a root Stream and the streams it creates.  Returns the resolved call list
    (names chosen by index are replaced by the real names) and, per Stream, what was read back."""
    import pydyf
    root, _ = _new_stream(False, [])
    streams = [root]
    resdicts = [root._resources]

    def add(stream):
        streams.append(stream)
        if not any(stream._resources is r for r in resdicts):
            resdicts.append(stream._resources)

    resolved = []
    for op in case['ops']:
        sid, kind = op[0], op[1]
        if sid >= len(streams):
            continue
        s = streams[sid]
        if kind == 'alpha':
            v = ALPHAS[op[2]]
            s.set_alpha(v[0], stroke=op[3], fill=not op[3])
            resolved.append([sid, 'alpha', v[1], v[2], op[3]])
        elif kind == 'state':
            s.set_blend_mode('Multiply')
            resolved.append([sid, 'state'])
        elif kind == 'alphastate':
            add(s.set_alpha_state(0, 0, 1, 1))
            resolved.append([sid, 'alphastate'])
        elif kind == 'group':
            add(s.add_group(0, 0, 1, 1))
            resolved.append([sid, 'group'])
        elif kind == 'pattern':
            from weasyprint.matrix import Matrix
            add(s.add_pattern(0, 0, 1, 1, 1, 1, Matrix()))
            resolved.append([sid, 'pattern'])
        elif kind == 'shading':
            s.add_shading(2, 'RGB', (0, 1), (0, 0, 1, 1), True, pydyf.Dictionary())
            resolved.append([sid, 'shading'])
        elif kind == 'image':
            s.add_image(SimpleNamespace(id=str(op[2])), op[3], 1)
            resolved.append([sid, 'image', op[2], bool(op[3])])
        elif kind == 'clone':
            add(s.clone())
            resolved.append([sid, 'clone'])
        elif kind in ('draw', 'shade', 'patcolor'):
            cat = {'draw': 'XObject', 'shade': 'Shading', 'patcolor': 'Pattern'}[kind]
            keys = list(s._resources[cat].keys())
            if not keys:
                continue
            name = keys[op[2] % len(keys)]
            _use_name(s, kind, name)
            resolved.append([sid, kind, name])
        elif kind == 'raw':                      # a name that may not be defined on that stream
            _use_name(s, op[2], op[3])
            resolved.append([sid, op[2], op[3]])
    out = []
    for s in streams:
        rid = [i for i, r in enumerate(resdicts) if r is s._resources][0]
        names = []
        for item in s.stream:
            if isinstance(item, str):
                item = item.encode()
            if not isinstance(item, bytes):
                continue
            parts = item.split()
            if parts and parts[-1] in (b'Do', b'sh', b'gs') or (parts and parts[-1] in (b'scn', b'SCN') and parts[0].startswith(b'/')):
                names.append([parts[-1].decode(), parts[0][1:].decode()])
        r = s._resources
        out.append({'rid': rid, 'names': names, 'gs': list(r['ExtGState'].keys()), 'xo': list(r['XObject'].keys()),
                    'pat': list(r['Pattern'].keys()), 'sh': list(r['Shading'].keys())})
    return {'calls': resolved, 'streams': out}


def _use_name(s, kind, name):
    if kind == 'draw':
        s.draw_x_object(name)
    elif kind == 'shade':
        s.paint_shading(name)
    else:
        s.set_color_space('Pattern')
        s.set_color_special(name)
