"""C18 - Navigation and metadata: links, destinations, outline, attachments, info."""
import random, json, os, glob, math
from fractions import Fraction
from urllib.parse import urljoin, quote
import common
from common import zlit, slit, qlit

HDR = 'From Coq Require Import ZArith List Bool String.\nImport ListNotations.\nOpen Scope Z_scope.\n'
PRE_BM = HDR + 'Require Import WV.model.C18Bookmarks.\n'
PRE_OL = HDR + 'Require Import WV.model.C18Outline.\n'
PRE_LK = HDR + 'Require Import WV.model.C18Links.\n'
PRE_DT = HDR + 'Require Import WV.model.C18Date.\n'
PRE_HR = HDR + 'Require Import WV.model.C18Href.\n'
PRE_NM = HDR + 'Require Import WV.model.C18Names.\n'
PRE_AB = 'From Coq Require Import QArith List.\nImport ListNotations.\nRequire Import WV.model.C18Aabb.\nOpen Scope Q_scope.\n'


def blit(b):
    return 'true' if b else 'false'


def nlit(n):
    return '%d%%nat' % n


def olit(v):
    return 'None' if v is None else '(Some %s)' % zlit(v)


def corpus(stream):
    out = []
    for p in sorted(glob.glob(os.path.join(common.VERIF, 'corpus', 'C18', '*.json'))):
        d = json.load(open(p))
        if d.get('stream') == stream:
            out.append(d['case'])
    return out


# ================================================================================ 1. bookmark tree

BM_MODES = ['walk', 'random', 'increasing', 'decreasing', 'sawtooth', 'skips', 'const', 'two-level', 'invalid']


def gen_levels(rng, n, mode):
    if mode == 'walk':
        lv, out = rng.randint(1, 3), []
        for _ in range(n):
            lv = max(1, min(9, lv + rng.choice([-3, -2, -1, -1, 0, 0, 1, 1, 2, 3])))
            out.append(lv)
        return out
    if mode == 'random':
        return [rng.randint(1, 6) for _ in range(n)]
    if mode == 'increasing':
        step = rng.choice([1, 1, 2, 3])
        return [1 + i * step for i in range(n)]
    if mode == 'decreasing':
        step = rng.choice([1, 1, 2])
        return [1 + (n - 1 - i) * step for i in range(n)]
    if mode == 'sawtooth':
        a, b = rng.randint(1, 3), rng.randint(2, 9)
        return [a if i % 2 == 0 else b for i in range(n)]
    if mode == 'skips':
        return [rng.choice([1, 3, 6, 9, 100, 2]) for _ in range(n)]
    if mode == 'const':
        k = rng.choice([1, 2, 6])
        return [k] * n
    if mode == 'two-level':
        return [rng.choice([2, 5]) for _ in range(n)]
    if mode == 'invalid':    # not producible by the CSS grammar: exercises the error values of the model
        out = [rng.randint(1, 4) for _ in range(n)]
        if out:
            out[rng.randrange(len(out))] = rng.choice([0, 0, -1, -3])
        return out
    raise ValueError(mode)


def gen_bm_case(rng):
    r = rng.random()
    n = (rng.choice([0, 1, 2, 3]) if r < 0.15 else rng.choice([79, 80]) if r < 0.25 else rng.randint(4, 80))
    mode = rng.choice(BM_MODES[:-1]) if rng.random() < 0.96 else 'invalid'
    levels = gen_levels(rng, n, mode)
    npages = rng.choice([1, 2, 3, 4, 6])
    cuts = sorted(rng.randint(0, n) for _ in range(npages - 1))
    bounds = [0] + cuts + [n]
    closed_p = rng.choice([0, 0.3, 1])
    pages, lab = [], 0
    for a, b in zip(bounds, bounds[1:]):
        pg = []
        for lv in levels[a:b]:
            pg.append([lv, lab, rng.random() < closed_p, rng.randint(0, 50), rng.randint(0, 300)])
            lab += 1
        pages.append(pg)
    return dict(pages=pages, heights=[str(rng.choice([100, 300, Fraction(841, 2)])) for _ in pages],
                scale=str(rng.choice([1, Fraction(3, 4), 2, Fraction(3, 2)])), transform=rng.random() < 0.6,
                mode=mode)


def coq_itree(t):
    label, pn, closed, x, y, kids = t
    return '(INode %s %s %s [%s])' % (nlit(pn), zlit(label), blit(closed), '; '.join(coq_itree(k) for k in kids))


def coq_bm_case(c, st, o):
    pages = '[%s]' % '; '.join('[%s]' % '; '.join('(%s, (%s, %s))' % (zlit(lv), zlit(lab), blit(cl))
                                                  for lv, lab, cl, _, _ in pg) for pg in c['pages'])
    if st == 'ok':
        out = '(inr [%s])' % '; '.join(coq_itree(t) for t in o)
    else:
        code = {'IndexError': 1, 'AssertionError': 2}.get(o['type'], 0) if st == 'exc' else 0
        out = '(inl %s)' % nlit(code)
    return '(%s, %s)' % (pages, out)


def bm_points_ok(c, o):
    """targets: (page_number, x, y) = the bookmark's point through Matrix(scale) / the PDF page matrix"""
    exp = {}
    s = Fraction(c['scale'])
    for pn, (pg, h) in enumerate(zip(c['pages'], c['heights'])):
        for lv, lab, cl, x, y in pg:
            exp[lab] = (pn, str(Fraction(x) * s), str((Fraction(h) - y) * s if c['transform'] else Fraction(y) * s))
    bad = []

    def walk(t):
        label, pn, closed, x, y, kids = t
        if exp.get(label) != (pn, x, y):
            bad.append((label, (pn, x, y), exp.get(label)))
        for k in kids:
            walk(k)
    for t in o:
        walk(t)
    return bad


def stream_bookmarks(run, rng, n):
    cases = corpus('bookmarks') + [gen_bm_case(rng) for _ in range(n)]
    outs = common.run_impl('impl_c18', 'bookmarks', cases)
    coq = [coq_bm_case(c, st, o) for c, (st, o) in zip(cases, outs)]
    try:
        masks = common.eval_cases('c18bm', PRE_BM, 'list (list (Z * (Z * bool))) * (nat + list itree)', coq,
                                  'bookmark_judge', per_file=max(40, len(coq) // 15))
    except RuntimeError as exc:
        run.oblige('corr:bookmarks-direct', False, str(exc))
        return
    mism = [c for c, m in zip(cases, masks) if m & 1]
    run.oblige('corr:bookmarks-direct(model doc_tree vs Document.make_bookmark_tree)', not mism,
               'first disagreements: %s' % json.dumps(mism[:2])[:3000])
    for c, m, (st, o) in zip(cases, masks, outs):
        if m & 2:
            run.fail('make_bookmark_tree: %s' % ('raised %s' % o['type'] if st == 'exc' else
                                                 'tree is not the preorder/nearest-lower-parent tree of the bookmarks'),
                     {'stream': 'bookmarks', 'case': c, 'outcome': o if st != 'ok' else None},
                     signature='bookmark-tree')
            break
    for c, (st, o) in zip(cases, outs):
        if st == 'ok':
            bad = bm_points_ok(c, o)
            if bad:
                run.fail('make_bookmark_tree target differs from (page, matrix(point)): %s' % (bad[:2],),
                         {'stream': 'bookmarks', 'case': c}, signature='bookmark-target')
                break
    keys = []
    for c in cases:
        lv = [b[0] for pg in c['pages'] for b in pg]
        keys.append((c.get('mode'), len(lv), len(c['pages']), any(b > a + 1 for a, b in zip(lv, lv[1:])),
                     any(b < a for a, b in zip(lv, lv[1:])), tuple(lv[:12])))
    run.count('bookmarks-direct', len(cases), keys, samples=[{'case': cases[-1]['pages'], 'impl': outs[-1][1]}])
    lens = [sum(len(p) for p in c['pages']) for c in cases]
    run.stream_info('bookmarks-direct', rule='0..80 bookmarks (boundaries over-represented) over 1..6 stub pages (empty '
                    'pages included), level sequences: random walk, uniform, strictly increasing/decreasing, sawtooth, '
                    'skips {1,3,6,9,100}, constant, two-level, 4% invalid (<=0) to exercise the error values; states '
                    'open/closed; direct call of Document.make_bookmark_tree with Fraction points, 4 scales, both matrices',
                    max_len=max(lens), mean_len=sum(lens) / len(lens),
                    with_skips=sum(1 for k in keys if k[3]), with_decrease=sum(1 for k in keys if k[4]),
                    raised=sum(1 for st, _ in outs if st != 'ok'))


# ================================================================================ 2. outline objects

def ref_forest(items):
    """reference: nearest earlier strictly lower level is the parent.  items: [(level, payload)] ->
    forest of [payload, kids]"""
    root, stack = [], []          # stack of (level, kids list)
    for lv, pay in items:
        while stack and stack[-1][0] >= lv:
            stack.pop()
        node = [pay, []]
        (stack[-1][1] if stack else root).append(node)
        stack.append((lv, node[1]))
    return root


def gen_ol_case(rng):
    r = rng.random()
    n = (rng.choice([0, 1, 2]) if r < 0.12 else 80 if r < 0.2 else rng.randint(3, 80))
    mode = rng.choice(['walk', 'random', 'increasing', 'sawtooth', 'const', 'two-level'])
    levels = gen_levels(rng, n, mode)
    npages = rng.randint(1, 5)
    closed_p = rng.choice([0, 0.25, 0.5, 1])
    f = ref_forest([(lv, (i, rng.randrange(npages), rng.random() < closed_p)) for i, lv in enumerate(levels)])

    def conv(t):
        (title, page, closed), kids = t
        return [title, page, closed, [conv(k) for k in kids]]
    return dict(forest=[conv(t) for t in f], npages=npages, pre=rng.choice([0, 0, 1, 5]))


def coq_otree(t):
    title, page, closed, kids = t
    return '(ONode %s %s %s [%s])' % (zlit(title), nlit(page), blit(closed), '; '.join(coq_otree(k) for k in kids))


def num(v, default=-99999):
    return v if isinstance(v, int) and not isinstance(v, bool) else default


def coq_ol_case(forest, page_refs, n0, items, root):
    objs = '; '.join('(mkobj %s %s %s %s %s %s %s %s %s)' % (
        zlit(it['num']), zlit(num(it['title'])), zlit(num(it['dest'])), zlit(num(it['count'])),
        olit(num(it['parent']) if it['parent'] is not None else None),
        olit(num(it['prev']) if it['prev'] is not None else None),
        olit(num(it['next']) if it['next'] is not None else None),
        olit(num(it['first']) if it['first'] is not None else None),
        olit(num(it['last']) if it['last'] is not None else None)) for it in items)
    if root is None:
        rt = 'None'
    else:
        rt = '(Some (%s, %s, %s, %s))' % (zlit(root['num']), zlit(num(root['count'])),
                                          olit(num(root['first']) if root['first'] is not None else None),
                                          olit(num(root['last']) if root['last'] is not None else None))
    return '([%s], %s, [%s], [%s], %s)' % ('; '.join(zlit(r) for r in page_refs), zlit(n0),
                                           '; '.join(coq_otree(t) for t in forest), objs, rt)


OL_TYPE = 'list Z * Z * list otree * list oobj * option rootdict'


def stream_outlines(run, rng, n):
    cases = corpus('outlines') + [gen_ol_case(rng) for _ in range(n)]
    outs = common.run_impl('impl_c18', 'outlines', cases)
    coq, kept = [], []
    for c, (st, o) in zip(cases, outs):
        if st != 'ok':
            run.fail('add_outlines raised %s' % (o,), {'stream': 'outlines', 'case': c, 'outcome': o},
                     signature='outlines-raise')
            continue
        coq.append(coq_ol_case(c['forest'], o['page_refs'], o['n0'], o['items'], o['root']))
        kept.append((c, o))
    try:
        masks = common.eval_cases('c18ol', PRE_OL, OL_TYPE, coq, 'outline_judge', per_file=max(30, len(coq) // 15))
    except RuntimeError as exc:
        run.oblige('corr:outlines-direct', False, str(exc))
        return
    mism = [c for (c, o), m in zip(kept, masks) if m & 1]
    run.oblige('corr:outlines-direct(model add_outlines_model vs add_outlines on pydyf.PDF)', not mism,
               'first disagreements: %s' % json.dumps(mism[:2])[:3000])
    for (c, o), m in zip(kept, masks):
        if m & 2:
            run.fail('add_outlines: First/Last/Next/Prev/Parent/Count of the written objects are not those of the tree',
                     {'stream': 'outlines', 'case': c, 'impl': o}, signature='outline-links')
            break
    for c, o in kept:      # what the Coq case does not carry
        nitems = len(o['items'])
        extra = []
        if o['nobjects'] != o['n0'] + nitems + (1 if o['root'] else 0):
            extra.append('object count')
        if any(it['dest_kind'] != '/XYZ' or it['x'] != it['title'] or it['y'] != 7 or it['zoom'] != 0 for it in o['items']):
            extra.append('destination array')
        if o['root'] and (o['ret_count'] != o['root']['count'] or o['root']['keys'] != ['Count', 'First', 'Last']):
            extra.append('outlines dictionary')
        if extra:
            run.fail('add_outlines: %s' % extra, {'stream': 'outlines', 'case': c, 'impl': o}, signature='outline-extra')
            break

    def stats(f, depth=1):
        n = d = cl = 0
        for t in f:
            a, b, c2 = stats(t[3], depth + 1)
            n += 1 + a
            d = max(d, depth, b)
            cl += (1 if t[2] else 0) + c2
        return n, d, cl
    keys = [stats(c['forest']) + (c['npages'], c['pre']) for c, _ in kept]
    run.count('outlines-direct', len(kept), [k + (json.dumps(c['forest'])[:80],) for k, (c, _) in zip(keys, kept)],
              samples=[{'case': kept[-1][0]['forest'], 'impl_items': kept[-1][1]['items'][:3]}])
    run.stream_info('outlines-direct', rule='forests of 0..80 items built from the level-sequence generators, states closed '
                    'with probability 0/.25/.5/1, 1..5 pages, 0..5 unrelated objects before; add_outlines on a real '
                    'pydyf.PDF, all dictionaries re-read', max_items=max(k[0] for k in keys), max_depth=max(k[1] for k in keys),
                    closed_items=sum(k[2] for k in keys))


# ================================================================================ 3. links

def gen_box(rng, counter, depth, budget, pool):
    counter[0] += 1
    bid = counter[0]
    textlike = depth > 0 and rng.random() < 0.25
    anchor = rng.choice(pool) if rng.random() < 0.35 else None
    link = None
    r = rng.random()
    if r < 0.3:
        link = [True, rng.choice(pool + [90, 91, 92])]
    elif r < 0.45:
        link = [False, rng.randint(100, 120)]
    attach = rng.random() < 0.3
    kids = []
    if not textlike and depth < 4:
        for _ in range(rng.choice([0, 0, 1, 2, 3])):
            if budget[0] <= 0:
                break
            budget[0] -= 1
            kids.append(gen_box(rng, counter, depth + 1, budget, pool))
    return [bid, anchor, link, textlike, attach, kids]


def gen_lk_case(rng):
    counter = [0]
    npages = rng.choice([1, 2, 3, 5])
    pool = list(range(rng.choice([2, 4, 8, 20])))
    pages = []
    total = rng.choice([3, 10, 30, 60])
    for _ in range(npages):
        budget = [max(1, total // npages)]
        pages.append(gen_box(rng, counter, 0, budget, pool))
    return dict(pages=pages)


def coq_box(t):
    bid, anchor, link, textlike, attach, kids = t
    lk = 'None' if link is None else '(Some (%s, %s))' % (blit(link[0]), zlit(link[1]))
    return '(Box %s %s %s %s %s [%s])' % (zlit(bid), olit(anchor), lk, blit(textlike), blit(attach),
                                          '; '.join(coq_box(k) for k in kids))


LT = {'internal': 'Internal', 'external': 'External', 'attachment': 'Attachment'}


def coq_lk_case(c, o):
    out = '; '.join('([%s], [%s])' % ('; '.join('(%s, %s, %s)' % (LT[l[0]], zlit(l[1]), zlit(l[2])) for l in ls),
                                      '; '.join('(%s, %s)' % (zlit(a[0]), zlit(a[1])) for a in an))
                    for ls, an in o['out'])
    return '([%s], [%s], [%s])' % ('; '.join(coq_box(p) for p in c['pages']), out, '; '.join(zlit(e) for e in o['errs']))


def stream_links(run, rng, n):
    cases = corpus('links') + [gen_lk_case(rng) for _ in range(n)]
    outs = common.run_impl('impl_c18', 'links', cases)
    coq, kept = [], []
    for c, (st, o) in zip(cases, outs):
        if st != 'ok':
            run.fail('Page()/resolve_links raised %s' % (o,), {'stream': 'links', 'case': c, 'outcome': o},
                     signature='links-raise')
            continue
        coq.append(coq_lk_case(c, o))
        kept.append((c, o))
    try:
        masks = common.eval_cases('c18lk', PRE_LK, 'list box * list (list link * list anchor) * list Z', coq, 'links_judge',
                                  per_file=max(40, len(coq) // 15))
    except RuntimeError as exc:
        run.oblige('corr:links-direct', False, str(exc))
        return
    mism = [c for (c, o), m in zip(kept, masks) if m & 1]
    run.oblige('corr:links-direct(model doc_links vs Page + resolve_links)', not mism,
               'first disagreements: %s' % json.dumps(mism[:2])[:3000])
    for (c, o), m in zip(kept, masks):
        if m & 2:
            run.fail('resolve_links output: dangling/duplicate/misplaced destination or a link lost or kept wrongly',
                     {'stream': 'links', 'case': c, 'impl': o}, signature='links-spec')
            break

    def flat(t, acc):
        acc.append(t)
        for k in t[5]:
            flat(k, acc)
        return acc
    keys = []
    dup = missing = 0
    for c, o in kept:
        boxes = [b for p in c['pages'] for b in flat(p, [])]
        names = [b[1] for b in boxes if b[1] is not None]
        targets = [b[2][1] for b in boxes if b[2] and b[2][0] and not b[3]]
        d = len(names) - len(set(names))
        ms = sum(1 for t in targets if t not in names)
        dup += d > 0
        missing += ms > 0
        keys.append((len(boxes), len(c['pages']), d, ms, json.dumps(c['pages'])[:60]))
    run.count('links-direct', len(kept), keys, samples=[{'case': kept[-1][0]['pages'], 'impl': kept[-1][1]['out']}])
    run.stream_info('links-direct', rule='1..5 stub page box trees (3..60 boxes, depth<=5): anchors from a pool of 2..20 names '
                    '(duplicates within and across pages), internal links to pool names and to 3 names nobody carries, '
                    'external links, attachment flag, Text/Line boxes carrying an inherited link; real Page() and '
                    'resolve_links, error log captured', cases_with_duplicates=dup, cases_with_missing=missing)


# ================================================================================ 3b. rectangle_aabb

def mat_mul(m, n):
    """row-vector convention of weasyprint.matrix: first m, then n"""
    a, b, c, d, e, f = m
    a2, b2, c2, d2, e2, f2 = n
    return (a * a2 + b * c2, a * b2 + b * d2, c * a2 + d * c2, c * b2 + d * d2, e * a2 + f * c2 + e2, e * b2 + f * d2 + f2)


def gen_matrix(rng):
    F = Fraction
    lin = rng.choice([
        (F(3, 5), F(4, 5), F(-4, 5), F(3, 5)), (F(4, 5), F(-3, 5), F(3, 5), F(4, 5)), (F(5, 13), F(12, 13), F(-12, 13), F(5, 13)),
        (F(-7, 25), F(24, 25), F(-24, 25), F(-7, 25)), (F(0), F(1), F(-1), F(0)), (F(-1), F(0), F(0), F(-1)),
        (F(1), F(0), F(0), F(1)), (F(2), F(0), F(0), F(3)), (F(-1), F(0), F(0), F(1)), (F(2), F(0), F(0), F(-1)),
        (F(1), F(1, 2), F(1, 3), F(1)), (F(1), F(0), F(3, 4), F(1)), (F(1), F(-2), F(0), F(1)),
        (F(1, 2), F(1), F(1), F(1, 2)), (F(0), F(1), F(1), F(0)), (F(3, 5), F(4, 5), F(4, 5), F(-3, 5)),
        (F(1), F(2), F(2), F(4)), (F(0), F(0), F(0), F(0)), (F(0), F(0), F(1), F(1)),
        (F(rng.randint(-8, 8), rng.choice([1, 2, 3])), F(rng.randint(-8, 8), rng.choice([1, 2, 5])),
         F(rng.randint(-8, 8), rng.choice([1, 2, 3])), F(rng.randint(-8, 8), rng.choice([1, 4, 7])))])
    tr = (F(rng.randint(-50, 50), rng.choice([1, 1, 2, 3])), F(rng.randint(-50, 50), rng.choice([1, 1, 4]))) \
        if rng.random() < 0.6 else (F(0), F(0))
    return lin + tr


def gen_ab_case(rng):
    F = Fraction
    r = rng.random()
    if r < 0.1:
        m = None
    elif r < 0.7:
        m = gen_matrix(rng)
    else:                          # nested transforms: product of two or three
        m = gen_matrix(rng)
        for _ in range(rng.choice([1, 2])):
            m = mat_mul(m, gen_matrix(rng))
    rect = [F(rng.randint(-100, 300), rng.choice([1, 1, 2, 3])), F(rng.randint(-100, 300), rng.choice([1, 1, 2, 8])),
            rng.choice([F(0), F(1), F(100), F(rng.randint(0, 400), rng.choice([1, 2, 3]))]),
            rng.choice([F(0), F(10), F(20), F(rng.randint(0, 200), rng.choice([1, 2, 7]))])]
    return dict(m=None if m is None else [str(v) for v in m], r=[str(v) for v in rect])


def coq_ab_case(c, o):
    m = 'None' if c['m'] is None else '(Some (%s))' % ', '.join(qlit(v) for v in c['m'])
    return '(%s, (%s), (%s))' % (m, ', '.join(qlit(v) for v in c['r']), ', '.join(qlit(v) for v in o))


def stream_aabb(run, rng, n):
    fixed = [dict(m=['3/5', '4/5', '-4/5', '3/5', '0', '0'], r=['0', '0', '100', '20']),
             dict(m=None, r=['5', '7', '100', '20']),
             dict(m=['1/2', '1', '1', '1/2', '3', '4'], r=['10', '10', '40', '10'])]
    cases = corpus('aabb') + fixed + [gen_ab_case(rng) for _ in range(n)]
    outs = common.run_impl('impl_c18', 'aabb', cases)
    coq, kept = [], []
    for c, (st, o) in zip(cases, outs):
        if st != 'ok':
            run.fail('rectangle_aabb raised %s' % (o,), {'stream': 'aabb', 'case': c, 'outcome': o}, signature='aabb-raise')
            continue
        coq.append(coq_ab_case(c, o))
        kept.append((c, o))
    try:
        masks = common.eval_cases('c18ab', PRE_AB, 'option matrix * (Q * Q * Q * Q) * (Q * Q * Q * Q)', coq, 'aabb_judge',
                                  per_file=max(40, len(coq) // 12))
    except RuntimeError as exc:
        run.oblige('corr:aabb-direct', False, str(exc))
        return
    mism = [(c, o) for (c, o), m in zip(kept, masks) if m & 1]
    run.oblige('corr:aabb-direct(model rectangle_aabb vs anchors.rectangle_aabb with Matrix of Fractions)', not mism,
               'first disagreements: %s' % mism[:3])
    for (c, o), m in zip(kept, masks):
        if m & 2:
            run.fail('rectangle_aabb(%s, %s) = %s does not cover the four transformed corners of the rectangle tightly'
                     % (c['m'], c['r'], o), {'stream': 'aabb', 'case': c, 'impl': o}, signature='aabb-not-bounding-box')
            break

    def kind(c):
        if c['m'] is None:
            return 'none'
        a, b, cc, d = [Fraction(v) for v in c['m'][:4]]
        det = a * d - b * cc
        return ('neg' if det < 0 else 'zero' if det == 0 else 'pos', b != 0 or cc != 0)
    run.count('aabb-direct', len(kept), [(kind(c), tuple(c['m'] or ()), tuple(c['r'])) for c, _ in kept],
              samples=[{'case': kept[0][0], 'impl': kept[0][1]}])
    run.stream_info('aabb-direct', rule='exact rational matrices: rotations by Pythagorean triples (not multiples of 90 '
                    'degrees), quarter/half turns, scales and mirrors, skews, negative and zero determinants, random, with '
                    'translations, products of 2-3 of them (nested transforms), None; rectangles with zero and positive '
                    'sizes; anchors.rectangle_aabb called with the real Matrix class on Fractions',
                    negative_det=sum(1 for c, _ in kept if kind(c) != 'none' and kind(c)[0] == 'neg'),
                    oblique=sum(1 for c, _ in kept if kind(c) != 'none' and kind(c)[1]))


# ================================================================================ 3c. spellings of internal links

# anchor names with reserved and non-ASCII characters (ASCII-first and non-ASCII-first, BMP and astral: the /Dests name
# tree must be sorted as the bytes that are written, ASCII literal strings before FEFF + UTF-16BE)
NAMES = ['x', 'a b', 'a+b', 'a&b=c', 'q?r', '50%', '(x)', "it's", 'a/b', 'a#b', 'A.b-c_d~e', 'a:b@c', 'x%y', '100%25',
         'élan', 'é caf é', '中文', 'ü+1', 'ñ/ñ?ñ', 'éa%b', 'Ωmega', 'ßx', 'café', 'aé', 'z中', 'a😀b', '😀', 'ｚ', 'zz é']
SAME_DOC = ['doc.html', './doc.html', '../dir/doc.html', 'http://base.test/dir/doc.html', '//base.test/dir/doc.html',
            '/dir/doc.html', '/dir/../dir/doc.html']
# a document URL that iri_to_uri has to escape, and spellings of it (raw, escaped, mixed)
BASE2 = 'http://base.test/dir/döc é.html'
SAME_DOC2 = ['döc é.html', 'd%C3%B6c%20%C3%A9.html', './döc%20é.html', 'http://base.test/dir/döc é.html',
             'http://base.test/dir/d%C3%B6c%20%C3%A9.html', '//base.test/dir/döc é.html', '/dir/döc é.html']
OTHER_DOC = ['other.html', 'http://e.test/dir/doc.html', 'doc.html?q=1', 'doc.html/', '/doc.html', 'https://base.test/dir/doc.html',
             'http://base.test/dir/doc.htm', 'mailto:a@b.test']


def spell_fragment(rng, name, p_enc=0.5):
    """one spelling of `name` as a URL fragment: each character raw or percent-encoded (UTF-8), hexadecimal digits in
    either case; '%' itself is always encoded.  Returns (text, Coq `how` list per byte)."""
    out, hows = '', []
    for ch in name:
        bs = ch.encode('utf-8')
        if ch == '%' or rng.random() < p_enc:
            for b in bs:
                u1, u2 = rng.random() < 0.5, rng.random() < 0.5
                h = '%02X' % b
                out += '%' + (h[0] if u1 else h[0].lower()) + (h[1] if u2 else h[1].lower())
                hows.append('(Enc %s %s)' % (blit(u1), blit(u2)))
        else:
            out += ch
            hows += ['Raw'] * len(bs)
    return out, hows


def zs(bs):
    return '[%s]' % '; '.join(zlit(b) for b in bs)


def gen_href_case(rng):
    base = rng.choice([BASE, BASE, BASE2, None])
    same = SAME_DOC2 if base == BASE2 else SAME_DOC
    r = rng.random()
    name = rng.choice(NAMES)
    frag, _ = spell_fragment(rng, name, rng.choice([0, 0.3, 0.7, 1]))
    if r < 0.04:
        return dict(base=base, href=rng.choice(['', ' ', '\t']), attr=('empty',), want=None)
    if r < 0.12:          # empty fragment
        href = rng.choice(['#', same[0] + '#', same[3] + '#', ' # '])
        return dict(base=base, href=href, attr=('url', 0, ''), want=None)
    if r < 0.4:
        return dict(base=base, href=rng.choice(['', ' ', '\n']) + '#' + frag, attr=('bare', frag), want=name)
    if r < 0.8:
        doc = rng.choice(same)
        return dict(base=base, href=doc + '#' + frag, attr=('url', 0, frag), want=name if base else None)
    i = rng.randrange(len(OTHER_DOC))
    frag = rng.choice([frag, frag, ''])
    return dict(base=base, href=OTHER_DOC[i] + ('#' + frag if frag else ''), attr=('url', 1 + i, frag), want=None)


def coq_href_case(c, o):
    a = c['attr']
    if a[0] == 'empty':
        attr = 'AEmpty'
    elif a[0] == 'bare':
        attr = '(ABare %s)' % zs(a[1].encode('utf-8'))
    else:
        attr = '(AUrl %s %s)' % (zlit(a[1]), zs(a[2].encode('utf-8')))
    if o is None:
        out = 'LNone'
    elif o[0] == 'internal':
        out = '(LInternal %s)' % zs(o[1].encode('utf-8'))
    else:
        uri = o[1]
        out = '(LExternal %s %s)' % (zlit(a[1] if a[0] == 'url' else -1),
                                     zs(uri.split('#', 1)[1].encode('utf-8') if '#' in uri else b''))
    want = 'None' if c['want'] is None else '(Some %s)' % zs(c['want'].encode('utf-8'))
    return '(%s, %s, %s, %s)' % ('None' if c['base'] is None else '(Some 0)', attr, want, out)


def stream_hrefs(run, rng, n):
    fixed = [dict(base='http://base.test/dir/döc.html', href='döc.html#x', attr=('url', 0, 'x'), want='x'),
             dict(base='http://base.test/dir/a b.html', href='a b.html#x', attr=('url', 0, 'x'), want='x'),
             dict(base=BASE, href='doc.html#caf%C3%A9', attr=('url', 0, 'caf%C3%A9'), want='café'),
             dict(base=BASE, href=BASE + '#café', attr=('url', 0, 'café'), want='café'),
             dict(base=BASE, href='#caf%c3%A9', attr=('bare', 'caf%c3%A9'), want='café'),
             dict(base=None, href='#a%20b', attr=('bare', 'a%20b'), want='a b')]
    cases = corpus('hrefs') + fixed + [gen_href_case(rng) for _ in range(n)]
    outs = common.run_impl('impl_c18', 'hrefs', [dict(base=c['base'], href=c['href']) for c in cases])
    coq, kept = [], []
    for c, (st, o) in zip(cases, outs):
        if st != 'ok':
            run.fail('get_link_attribute raised %s' % (o,), {'stream': 'hrefs', 'case': c, 'outcome': o}, signature='href-raise')
            continue
        coq.append(coq_href_case(c, o))
        kept.append((c, o))
    try:
        masks = common.eval_cases('c18hr', PRE_HR, 'option Z * attr * option (list Z) * linkres', coq, 'href_judge',
                                  per_file=max(40, len(coq) // 12))
    except RuntimeError as exc:
        run.oblige('corr:hrefs-direct', False, str(exc))
        return
    mism = [(c, o) for (c, o), m in zip(kept, masks) if m & 1]
    run.oblige('corr:hrefs-direct(model get_link_attribute on (document, fragment bytes) vs urls.get_link_attribute)', not mism,
               'first disagreements: %s' % mism[:3])
    for (c, o), m in zip(kept, masks):
        if m & 2:
            run.fail('get_link_attribute(href=%r, base=%r) = %r: %s' % (
                c['href'], c['base'], o, 'a spelling of anchor %r of this document is not an internal link to it' % c['want']
                if c['want'] is not None else 'a link elsewhere is taken for internal'),
                {'stream': 'hrefs', 'case': c, 'impl': o}, signature='href-spelling')
            break
    run.count('hrefs-direct', len(kept), [(c['base'] is None, c['attr'][0], c['href']) for c, _ in kept],
              samples=[{'case': kept[-1][0], 'impl': kept[-1][1]}])
    run.stream_info('hrefs-direct', rule='%d anchor names with reserved, non-ASCII and %% characters, each character raw or '
                    'percent-encoded with upper/lower case digits; written as bare #fragment, as 7 relative/absolute '
                    'spellings of the document URL (also a document URL with non-ASCII characters and a space, raw or escaped), '
                    'as 8 other documents, with empty fragment, empty attribute, with and without a base URL; direct call of urls.get_link_attribute on a stub element' % len(NAMES),
                    internal_expected=sum(1 for c, _ in kept if c['want'] is not None),
                    percent_encoded=sum(1 for c, _ in kept if '%' in c['href']))


# ================================================================================ 4. dates

WS = ['', '', '', ' ', '\t', '\n', ' \r\n', '\f']


def gen_date_fields(rng):
    fmt = rng.randint(1, 6)
    g = dict(year=rng.choice([0, 1, 1970, 1999, 2011, 2024, 9999, rng.randint(0, 9999)]), month=None, day=None,
             hour=None, minute=None, second=None, frac=None, tz=None)
    if fmt >= 2:
        g['month'] = rng.choice([1, 12, 2, 10, rng.randint(1, 12), 0 if rng.random() < 0.1 else 9])
    if fmt >= 3:
        g['day'] = rng.choice([1, 28, 29, 30, 31, 10, rng.randint(1, 31), 0 if rng.random() < 0.1 else 19])
    if fmt >= 4:
        g['hour'] = rng.choice([0, 23, 12, rng.randint(0, 23)])
        g['minute'] = rng.choice([0, 59, 30, rng.randint(0, 59)])
        r = rng.random()
        if r < 0.3:
            g['tz'] = None
        else:
            g['tz'] = rng.choice([(False, 0, 0), (True, 0, 0), (True, 0, 30), (True, 0, 1), (False, 0, 30), (False, 23, 59),
                                  (True, 23, 59), (False, 1, 0), (True, 12, 0), (True, 9, 30), (False, 5, 45),
                                  (rng.random() < 0.5, rng.randint(0, 23), rng.randint(0, 59))])
    if fmt >= 5:
        g['second'] = rng.choice([0, 59, 7, rng.randint(0, 59)])
    if fmt == 6:
        g['frac'] = rng.choice(['0', '5', '45', '123456789', '000', '9'])
    return g


def date_string(g, rng=None):
    s = '%04d' % g['year']
    if g['month'] is not None:
        s += '-%02d' % g['month']
    if g['day'] is not None:
        s += '-%02d' % g['day']
    if g['hour'] is not None:
        s += 'T%02d:%02d' % (g['hour'], g['minute'])
        if g['second'] is not None:
            s += ':%02d' % g['second']
            if g['frac'] is not None:
                s += '.' + g['frac']
        s += 'Z' if g['tz'] is None else '%s%02d:%02d' % ('-' if g['tz'][0] else '+', g['tz'][1], g['tz'][2])
    if rng is not None:
        s = rng.choice(WS) + s + rng.choice(WS)
    return s


def expected_pdf_date(g):
    """independent of the model: ISO 32000-1 7.9.4 for the fields of the W3C date"""
    s = 'D:%04d' % g['year']
    for k in ('month', 'day'):
        if g[k] is not None:
            s += '%02d' % g[k]
    if g['hour'] is not None:
        s += '%02d%02d%02d' % (g['hour'], g['minute'], g['second'] or 0)
        s += 'Z' if g['tz'] is None else "%s%02d'%02d" % ('-' if g['tz'][0] else '+', g['tz'][1], g['tz'][2])
    return s


def classify_date(s):
    """hand-written recogniser of https://www.w3.org/TR/NOTE-datetime (no regular expression).
    'valid' | 'loose' (right shape, month/day 00 or day beyond the month) | 'malformed'"""
    t = s.strip(' \t\n\f\r')
    pos = [0]

    def digits(k):
        d = t[pos[0]:pos[0] + k]
        if len(d) == k and all(c in '0123456789' for c in d):
            pos[0] += k
            return int(d)
        return None

    def lit(c):
        if t[pos[0]:pos[0] + 1] == c:
            pos[0] += 1
            return True
        return False
    loose = False
    y = digits(4)
    if y is None:
        return 'malformed'
    if pos[0] == len(t):
        return 'valid'
    if not lit('-'):
        return 'malformed'
    mo = digits(2)
    if mo is None or mo > 12:
        return 'malformed'
    loose |= mo == 0
    if pos[0] == len(t):
        return 'loose' if loose else 'valid'
    if not lit('-'):
        return 'malformed'
    d = digits(2)
    if d is None or d > 31:
        return 'malformed'
    loose |= d == 0 or (mo in (4, 6, 9, 11) and d > 30) or (mo == 2 and d > 29)
    if pos[0] == len(t):
        return 'loose' if loose else 'valid'
    if not lit('T'):
        return 'malformed'
    h = digits(2)
    if h is None or h > 23 or not lit(':'):
        return 'malformed'
    mi = digits(2)
    if mi is None or mi > 59:
        return 'malformed'
    if lit(':'):
        sec = digits(2)
        if sec is None or sec > 59:
            return 'malformed'
        if lit('.'):
            k = pos[0]
            while pos[0] < len(t) and t[pos[0]] in '0123456789':
                pos[0] += 1
            if pos[0] == k:
                return 'malformed'
    if lit('Z'):
        pass
    elif lit('+') or lit('-'):
        zh = digits(2)
        if zh is None or zh > 23 or not lit(':'):
            return 'malformed'
        zm = digits(2)
        if zm is None or zm > 59:
            return 'malformed'
    else:
        return 'malformed'
    if pos[0] != len(t):
        return 'malformed'
    return 'loose' if loose else 'valid'


def gen_bad_date(rng):
    base = date_string(gen_date_fields(rng))
    r = rng.random()
    if r < 0.25 and len(base) > 1:
        i = rng.randrange(len(base))
        return base[:i] + base[i + 1:]
    if r < 0.5:
        i = rng.randrange(len(base) + 1)
        return base[:i] + rng.choice(['x', '-', ':', 'T', 'Z', '0', ' ', '+', '.', '٢', '１', 'z', 't']) + base[i:]
    if r < 0.7:
        i = rng.randrange(len(base))
        return base[:i] + rng.choice(['9', '6', '3', '2', 'x', '٣']) + base[i + 1:]
    return rng.choice(['', ' ', '2011-13', '2011-04-32', '2011-04-21T24:00Z', '2011-04-21T23:60Z', '2011-04-21T23:00:60Z',
                       '2011-04-21T23:00', '2011-04-21T23Z', '2011-04-21 23:00Z', '2011-04-21T23:00+24:00',
                       '2011-04-21T23:00+01', '2011-04-21T23:00+0100', '2011-04-21T23:00:07.Z', '20110421', '11-04-21',
                       '2011-4-21', '2011-04-21T23:00z', '٢٠١١', '2011-04-21T23:00Z\n\n', '2011\x0b',
                       '2011-04-21T23:00:07,5Z', '+2011', '2011-04-21T23:00-00:60', '2011-04-21t23:00Z'])


def coq_groups(g):
    tz = 'None' if g['tz'] is None else '(Some (%s, %s, %s))' % (blit(g['tz'][0]), zlit(g['tz'][1]), zlit(g['tz'][2]))
    return '(mkg %s %s %s %s %s %s %s)' % (zlit(g['year']), olit(g['month']), olit(g['day']), olit(g['hour']),
                                           olit(g['minute']), olit(g['second']), tz)


def stream_dates(run, rng, n):
    fields = [c for c in corpus('dates')]
    # the six formats x boundary values, exhaustively for the small axes
    for tz in [None, (False, 0, 0), (True, 0, 0), (True, 0, 30), (False, 23, 59), (True, 23, 59), (False, 1, 0)]:
        for sec, frac in [(None, None), (0, None), (59, None), (7, '5'), (0, '000')]:
            for h, mi in [(0, 0), (23, 59)]:
                fields.append(dict(year=2011, month=4, day=21, hour=h, minute=mi, second=sec, frac=frac, tz=tz))
    for y in [0, 1, 999, 1000, 9999]:
        fields.append(dict(year=y, month=None, day=None, hour=None, minute=None, second=None, frac=None, tz=None))
        fields.append(dict(year=y, month=12, day=None, hour=None, minute=None, second=None, frac=None, tz=None))
        fields.append(dict(year=y, month=1, day=31, hour=None, minute=None, second=None, frac=None, tz=None))
    while len(fields) < n:
        fields.append(gen_date_fields(rng))
    strings = [date_string(g, rng if i % 3 == 0 else None) for i, g in enumerate(fields)]
    outs = common.run_impl('impl_c18', 'dates', [{'s': s} for s in strings])
    coq, kept = [], []
    for g, s, (st, o) in zip(fields, strings, outs):
        out = o['out'] if st == 'ok' else None
        coq.append('(%s, %s)' % (coq_groups(g), 'None' if out is None else '(Some %s%%string)' % slit(out)))
        kept.append((g, s, out, st, o))
    try:
        masks = common.eval_cases('c18dt', PRE_DT, 'groups * option string', coq, 'date_judge', per_file=max(40, len(coq) // 15))
    except RuntimeError as exc:
        run.oblige('corr:dates-direct', False, str(exc))
        return
    mism = [(s, out) for (g, s, out, st, o), m in zip(kept, masks) if m & 1]
    run.oblige('corr:dates-direct(model w3c_date_to_pdf on the groups vs _w3c_date_to_pdf on the string)', not mism,
               'first disagreements: %s' % mism[:3])
    for (g, s, out, st, o), m in zip(kept, masks):
        cls = classify_date(s)
        if m & 2 and cls != 'malformed':
            run.fail('_w3c_date_to_pdf(%r) = %r: a PDF reader does not get the fields back (expected %r)'
                     % (s, out, expected_pdf_date(g)), {'stream': 'dates', 'fields': g, 'string': s, 'impl': out},
                     signature='date-fields')
            break
        if cls == 'valid' and out != expected_pdf_date(g):
            run.fail('_w3c_date_to_pdf(%r) = %r, expected %r' % (s, out, expected_pdf_date(g)),
                     {'stream': 'dates', 'fields': g, 'string': s, 'impl': out}, signature='date-fields')
            break
    # malformed strings: rejected with a warning
    bad = [gen_bad_date(rng) for _ in range(max(60, n // 2))]
    bouts = common.run_impl('impl_c18', 'dates', [{'s': s} for s in bad])
    nmal = 0
    for s, (st, o) in zip(bad, bouts):
        cls = classify_date(s)
        if st != 'ok':
            run.fail('_w3c_date_to_pdf(%r) raised %s' % (s, o), {'stream': 'dates-malformed', 'string': s},
                     signature='date-raise')
            break
        if cls == 'malformed':
            nmal += 1
            if o['out'] is not None or not o['warned']:
                run.fail('_w3c_date_to_pdf(%r) = %r (warned=%s): not one of the six W3C formats, must be rejected '
                         'with a warning' % (s, o['out'], o['warned']), {'stream': 'dates-malformed', 'string': s},
                         signature='date-malformed-accepted')
                break
        elif cls == 'valid' and o['out'] is None:
            run.fail('_w3c_date_to_pdf(%r) rejected a valid W3C date' % s, {'stream': 'dates-malformed', 'string': s},
                     signature='date-valid-rejected')
            break
    run.count('dates-direct', len(fields) + len(bad),
              [(g['month'] is None, g['day'] is None, g['hour'] is None, g['second'], g['frac'], tuple(g['tz']) if g['tz'] else None, g['year'])
               for g in fields] + [('bad', s) for s in bad], samples=[strings[0], strings[-1], bad[0]])
    run.stream_info('dates-direct', rule='six W3C formats: 7 zones x 5 seconds/fraction shapes x 2 times exhaustively, years '
                    '0/1/999/1000/9999, then random fields with boundary values (month/day 00 as the regex allows), a third '
                    'with HTML whitespace around; + mutated/malformed strings classified by a hand-written recogniser',
                    malformed=nmal, wellformed=len(fields))


# ================================================================================ 5. render monitor

CSS = ('@page{size:200px 100px;margin:0}html,body{margin:0;font-family:weasyprint;font-size:10px;line-height:10px}'
       'h1,h2,h3,h4,h5,h6,p,div,section,article{display:block;margin:0;font-size:10px;font-weight:normal}a{color:black}'
       'table{border-spacing:0}td,th,caption{padding:0;font-size:10px;font-weight:normal;text-align:left}'
       'ul,ol{margin:0;padding:0 0 0 20px}li{margin:0}')
WORDS = ['abc', 'abcd', 'aaaa', 'bbbbbbbb', 'cdcdcd', 'hhh', 'efgh', 'ab', 'dddddddddd']
UNI = ['é', '中文', 'ß', '😀', 'Ω', '(', ')', '\\', '"', "'", 'ü']
BASE = 'http://base.test/dir/doc.html'


def esc(s):
    return s.replace('&', '&amp;').replace('<', '&lt;').replace('>', '&gt;').replace('"', '&quot;')


def text(rng, lo, hi):
    return ' '.join(rng.choice(WORDS) for _ in range(rng.randint(lo, hi)))


TF = [('rotate', 30), ('rotate', 45), ('rotate', -20), ('rotate', 10), ('rotate', 135), ('rotate', 90), ('rotate', 180),
      ('scale', (2, 2)), ('scale', (0.5, 1.5)), ('scale', (-1, 1)), ('scale', (2, -1)),
      ('translate', (10, 5)), ('translate', (-7, 12)),
      ('skew', (20, 10)), ('skew', (-15, 0)), ('skew', (0, 30)),
      ('matrix', (0.5, 1, 1, 0.5, 3, 4)), ('matrix', (0, 1, 1, 0, 0, 0)), ('matrix', (1, 0.5, -0.5, 1, 0, 0)),
      ('matrix', (-1, 0, 0, 1, 5, 5)), ('matrix', (0.75, -0.25, 0.5, 1.25, -2, 6))]


def gen_transform(rng):
    return dict(funcs=[rng.choice(TF) for _ in range(rng.choice([1, 1, 1, 2]))],
                origin=rng.choice([None, None, ('pct', (0, 0)), ('pct', (100, 0)), ('px', (10, 5)), ('pct', (25, 75))]))


def css_transform(t):
    parts = []
    for name, a in t['funcs']:
        parts.append({'rotate': 'rotate(%sdeg)', 'scale': 'scale(%s,%s)', 'translate': 'translate(%spx,%spx)',
                      'skew': 'skew(%sdeg,%sdeg)', 'matrix': 'matrix(%s,%s,%s,%s,%s,%s)'}[name] % (a if name != 'rotate' else (a,)))
    st = 'transform:%s;' % ' '.join(parts)
    if t['origin']:
        st += 'transform-origin:%s;' % (('%s%% %s%%' if t['origin'][0] == 'pct' else '%spx %spx') % tuple(t['origin'][1]))
    return st


def apply_funcs(funcs, dx, dy):
    """CSS Transforms: the listed functions are multiplied in order, i.e. the last one acts on the point first."""
    for name, a in reversed(funcs):
        if name == 'rotate':
            r = math.radians(a)
            dx, dy = dx * math.cos(r) - dy * math.sin(r), dx * math.sin(r) + dy * math.cos(r)
        elif name == 'scale':
            dx, dy = dx * a[0], dy * a[1]
        elif name == 'translate':
            dx, dy = dx + a[0], dy + a[1]
        elif name == 'skew':
            dx, dy = dx + math.tan(math.radians(a[0])) * dy, dy + math.tan(math.radians(a[1])) * dx
        elif name == 'matrix':
            dx, dy = a[0] * dx + a[2] * dy + a[4], a[1] * dx + a[3] * dy + a[5]
        else:
            raise ValueError(name)
    return dx, dy


def chain_point(exp, geo, page, chain, px, py):
    """image of a point of page `page` under the transforms of the boxes in `chain` (outermost first): each box turns
    around its own transform-origin (default: centre of its border box), inner boxes first"""
    for kk in reversed(chain or []):
        frag = next((area for pi, area, _ in geo.get(kk, []) if pi == page), None)
        if frag is None:
            return None
        ax, ay, w, h = frag
        t = exp['tboxes'][kk]
        if t['origin'] is None:
            ox, oy = ax + w / 2, ay + h / 2
        elif t['origin'][0] == 'pct':
            ox, oy = ax + w * t['origin'][1][0] / 100, ay + h * t['origin'][1][1] / 100
        else:
            ox, oy = ax + t['origin'][1][0], ay + t['origin'][1][1]
        dx, dy = apply_funcs(t['funcs'], px - ox, py - oy)
        px, py = ox + dx, oy + dy
    return px, py


def chain_aabb(exp, geo, page, chain, area):
    x, y, w, h = area
    pts = [chain_point(exp, geo, page, chain, px, py) for px, py in ((x, y), (x + w, y), (x, y + h), (x + w, y + h))]
    if any(p is None for p in pts):
        return None
    return (min(p[0] for p in pts), min(p[1] for p in pts), max(p[0] for p in pts), max(p[1] for p in pts))


def token(n):
    """a unique word made of letters a-h (exactly 1em wide each in the test font)"""
    s = ''
    while True:
        s = 'abcdefgh'[n % 8] + s
        n //= 8
        if n == 0:
            return 'gh' + s + 'hg'


def gen_doc(rng, ascii_ids, mode=None):
    k = [0]
    exp = dict(bookmarks=[], anchors=[], links=[], files={}, meta={}, attachments=[], tboxes={})
    rules = []
    mode = mode or rng.choice(['flat', 'flat', 'nested', 'nested', 'transform', 'mixed', 'spellings', 'boxes', 'boxes'])
    pool = ['s%d' % i for i in range(rng.choice([2, 4, 8]))]
    if mode == 'spellings':
        pool = rng.sample(NAMES, rng.choice([3, 6, 10]))
    if not ascii_ids:
        pool += rng.sample(['aé', 'ü1', 'z中', 'café', 'a😀', '😀x', 'ｚ', 'é'], 3)
    # where the document URL comes from: the base_url argument, a <base href> element, or nowhere
    basekind = rng.choice(['arg', 'arg', 'element', 'none']) if mode == 'spellings' else rng.choice(['arg'] * 8 + ['element', 'none'])
    docbase = BASE2 if rng.random() < (0.4 if mode == 'spellings' else 0.15) else BASE
    same_doc = SAME_DOC2 if docbase == BASE2 else SAME_DOC
    upool = ['u%d' % i for i in range(14)]       # unique ids for table parts, floats, ...
    unext = [0]
    budget = [rng.choice([3, 8, 20, 40, 70])]
    nh = [0]
    max_h = rng.choice([0, 3, 80]) if mode == 'flat' else 80

    def key():
        k[0] += 1
        return 'k%d' % k[0]

    def label(long_p=0.4):
        lab = text(rng, 1, 3) if rng.random() > long_p else text(rng, 7, 14)       # long ones span lines/pages
        return lab + ' ' + token(k[0])

    def link(chain, inline=True):
        kk = key()
        r = rng.random()
        rel = ''
        if r < 0.55:
            if r < 0.45:
                name = rng.choice(pool + ['h1', 'h2', 'h3', 'h5'] + upool[:8])
            else:
                name = 'missing%d' % rng.randint(0, 3)
            frag = name
            if mode == 'spellings' or '%' in name or rng.random() < 0.25:
                frag = spell_fragment(rng, name, rng.choice([0, 0.3, 0.7, 1]))[0]
            doc = ''
            if basekind != 'none' and rng.random() < (0.6 if mode == 'spellings' else 0.25):
                doc = rng.choice(same_doc)               # the document itself, spelled as a URL
            href, kind, target = doc + '#' + frag, 'internal', name
        elif r < 0.7 or basekind == 'none':
            href = rng.choice(['http://e.test/', 'https://e.test/a/b?q=1#f', 'mailto:a@b.test', 'http://e.test/dir/doc.html#s1'])
            kind, target = 'external', href
        elif r < 0.85:
            href = rng.choice(['other.html', 'sub/x.html#f', '../up.html', '?q=2', '/root.html', same_doc[0] + '#', '#',
                               same_doc[0] + '?q=1#s1', 'other.html#s0', 'autre é.html#s1'])
            kind, target = 'external', quote(urljoin(docbase, href), safe="/:?#[]@!$&'()*+,;=~%")
        else:
            fn = 'mem:f%d.txt' % rng.randint(0, 3)
            if fn not in exp['files'] and rng.random() < 0.85:
                exp['files'][fn] = 'content of %s %s' % (fn, rng.choice(['', 'é', 'x' * 50]))
            href, kind, target, rel = fn, 'attachment', fn, ' rel=attachment'
        style = ''
        chain = list(chain)
        if not inline:
            style = 'display:%s;width:%dpx;' % (rng.choice(['block', 'block', 'inline-block']), rng.choice([40, 80]))
            if rng.random() < 0.75:
                t = gen_transform(rng)
                exp['tboxes'][kk] = t
                chain.append(kk)
                style += css_transform(t)
        txt = text(rng, 1, 2) if rng.random() < 0.7 else text(rng, 6, 12)      # the long ones wrap over lines
        exp['links'].append(dict(k=kk, kind=kind, target=target, chain=chain))
        return '<a data-k=%s href="%s"%s style="%s">%s</a>' % (kk, esc(href), rel, style, txt)

    def anchor_span(chain):
        kk = key()
        name = rng.choice(pool)
        exp['anchors'].append(dict(k=kk, name=name, chain=list(chain)))
        if rng.random() < 0.2:
            return '<a data-k=%s name="%s">%s</a>' % (kk, esc(name), text(rng, 1, 1))
        return '<span data-k=%s id="%s">%s</span>' % (kk, esc(name), text(rng, 1, 1))

    def bm_style(level, state):
        st = 'bookmark-level:%s;' % level
        if state == 'closed':
            st += 'bookmark-state:closed;'
        return st

    def heading(chain):
        nh[0] += 1
        kk = key()
        tag = rng.randint(1, 6)
        level = tag
        st = ''
        if rng.random() < 0.25:
            level = rng.choice([1, 2, 3, 7, 9, 'none'])
            st += 'bookmark-level:%s;' % level
        state = 'open'
        if rng.random() < 0.3:
            state = 'closed'
            st += 'bookmark-state:closed;'
        lab = label()
        if rng.random() < 0.15:
            lab = rng.choice(UNI[:5]) + ' ' + lab
        hid = 'h%d' % nh[0]
        exp['anchors'].append(dict(k=kk, name=hid, chain=list(chain)))
        if level != 'none':
            exp['bookmarks'].append(dict(k=kk, level=level, label=lab, state=state, chain=list(chain)))
        return '<h%d data-k=%s id=%s style="%s">%s</h%d>' % (tag, kk, hid, st, esc(lab), tag)

    def pseudo(kk, which, chain):
        """a ::before / ::after box with its own bookmark (or none)"""
        content = text(rng, 1, 2) if rng.random() < 0.7 else text(rng, 5, 9)
        decl = "content:'%s';display:%s;" % (content, rng.choice(['block', 'inline', 'inline']))
        if rng.random() < 0.8:
            level = rng.choice([1, 2, 3, 4, 5])
            state = rng.choice(['open', 'open', 'closed'])
            lab = label(0.1)
            decl += bm_style(level, state) + "bookmark-label:'%s';" % lab
            exp['bookmarks'].append(dict(k=kk + '::' + which, level=level, label=lab, state=state, chain=list(chain)))
        rules.append('[data-k=%s]::%s{%s}' % (kk, which, decl))

    def container(depth, chain):
        kk = key()
        tag = rng.choice(['section', 'div', 'article'])
        attrs = ''
        st = ''
        if rng.random() < 0.85:
            level = rng.choice([1, 1, 2, 2, 3, 4, 6])
            state = rng.choice(['open', 'open', 'closed'])
            lab = label(0.1)
            st += bm_style(level, state)
            if rng.random() < 0.5:
                attrs += ' title="%s"' % esc(lab)
                st += 'bookmark-label:attr(title);'
            else:
                st += "bookmark-label:'%s';" % lab
            exp['bookmarks'].append(dict(k=kk, level=level, label=lab, state=state, chain=list(chain)))
        if rng.random() < 0.3:
            name = rng.choice(pool)
            attrs += ' id="%s"' % esc(name)
            exp['anchors'].append(dict(k=kk, name=name, chain=list(chain)))
        if rng.random() < 0.4:
            pseudo(kk, 'before', chain)
        inner = items(depth + 1, chain, rng.randint(2, 7))
        if rng.random() < 0.4:
            pseudo(kk, 'after', chain)
        return '<%s data-k=%s%s style="%s">%s</%s>' % (tag, kk, attrs, st, '\n'.join(inner), tag)

    def wrapper(depth, chain):
        kk = key()
        t = gen_transform(rng)
        exp['tboxes'][kk] = t
        inner = items(depth + 1, list(chain) + [kk], rng.randint(1, 4))
        return '<div data-k=%s style="%swidth:%dpx">%s</div>' % (kk, css_transform(t), rng.choice([120, 160, 200]),
                                                                  '\n'.join(inner))

    def uattr(chain, p=0.7):
        """data-k and, mostly, a fresh unique id"""
        kk = key()
        if rng.random() < p and unext[0] < len(upool):
            name = upool[unext[0]]
            unext[0] += 1
            exp['anchors'].append(dict(k=kk, name=name, chain=list(chain)))
            return 'data-k=%s id=%s' % (kk, name)
        return 'data-k=%s' % kk

    def table(chain):
        ncols = rng.choice([2, 3])
        out = ['<table %s style="width:%dpx">' % (uattr(chain), rng.choice([120, 180]))]
        if rng.random() < 0.5:
            out.append('<caption %s>%s</caption>' % (uattr(chain), text(rng, 1, 2)))
        if rng.random() < 0.8:
            left = ncols
            if rng.random() < 0.6:
                n = rng.randint(1, left)
                left -= n
                out.append('<colgroup %s>%s</colgroup>' % (uattr(chain), ''.join(
                    '<col %s style="width:%dpx">' % (uattr(chain), rng.choice([30, 50])) for _ in range(n))))
            for _ in range(left):
                out.append('<col %s>' % uattr(chain))

        def row(cell):
            return '<tr %s>%s</tr>' % (uattr(chain, 0.3), ''.join(
                '<%s %s>%s</%s>' % (cell, uattr(chain, 0.2), rng.choice(WORDS[:4]), cell) for _ in range(ncols)))
        if rng.random() < 0.6:
            out.append('<thead %s>%s</thead>' % (uattr(chain), row('th')))
        foot = '<tfoot %s>%s</tfoot>' % (uattr(chain), row('td')) if rng.random() < 0.4 else ''
        out.append('<tbody %s>%s</tbody>' % (uattr(chain, 0.4), ''.join(row('td') for _ in range(rng.choice([1, 3, 8, 14])))))
        out.append(foot + '</table>')
        return ''.join(out)

    def exotic(chain):
        r = rng.random()
        if r < 0.4:
            return table(chain)
        if r < 0.55:
            return '<div %s style="float:%s;width:%dpx">%s</div><p>%s</p>' % (
                uattr(chain, 0.9), rng.choice(['left', 'right']), rng.choice([40, 70]), text(rng, 1, 3), text(rng, 3, 9))
        if r < 0.7:
            return '<div style="position:relative"><div %s style="position:absolute;left:%dpx;top:%dpx">%s</div>%s</div>' % (
                uattr(chain, 0.9), rng.choice([0, 20, 90]), rng.choice([0, 5, 30]), text(rng, 1, 2), text(rng, 2, 9))
        if r < 0.85:
            return '<p>%s <span %s style="display:inline-block;width:%dpx">%s</span> %s</p>' % (
                text(rng, 1, 3), uattr(chain, 0.9), rng.choice([30, 60]), text(rng, 1, 3), link(chain))
        tag = rng.choice(['ul', 'ol'])
        return '<%s %s>%s</%s>' % (tag, uattr(chain, 0.5), ''.join(
            '<li %s>%s</li>' % (uattr(chain, 0.6), text(rng, 1, 4)) for _ in range(rng.randint(1, 4))), tag)

    def paragraph(chain):
        parts = []
        for _ in range(rng.randint(1, 4)):
            q = rng.random()
            parts.append(link(chain) if q < 0.35 else anchor_span(chain) if q < 0.55 else text(rng, 1, 6))
        return '<p>%s</p>' % ' '.join(parts)

    def item(depth, chain):
        budget[0] -= 1
        r = rng.random()
        p_cont = {'flat': 0, 'nested': 0.3, 'transform': 0.05, 'mixed': 0.15, 'spellings': 0.05, 'boxes': 0.1}[mode] if depth < 3 else 0
        p_wrap = {'flat': 0, 'nested': 0.03, 'transform': 0.25, 'mixed': 0.1, 'spellings': 0.05, 'boxes': 0.1}[mode] \
            if len(chain) < 2 and depth < 3 else 0
        p_exo = {'flat': 0.03, 'nested': 0.05, 'transform': 0.05, 'mixed': 0.1, 'spellings': 0.05, 'boxes': 0.3}[mode]
        if r < p_cont and budget[0] > 0:
            return container(depth, chain)
        r -= p_cont
        if r < p_wrap and budget[0] > 0:
            return wrapper(depth, chain)
        r -= p_wrap
        if r < p_exo:
            return exotic(chain)
        r = rng.random()
        if r < 0.4 and nh[0] < max_h and len(exp['bookmarks']) < 80:
            return heading(chain)
        if r < 0.7:
            return paragraph(chain)
        if r < 0.8:
            return link(chain, inline=False)
        if r < 0.9:
            kk = key()
            name = rng.choice(pool)
            exp['anchors'].append(dict(k=kk, name=name, chain=list(chain)))
            return '<div data-k=%s id="%s">%s</div>' % (kk, esc(name), text(rng, 1, 8))
        if depth == 0:
            return '<div style="break-before:page">%s</div>' % text(rng, 1, 3)
        return '<p>%s</p>' % text(rng, 2, 10)

    def items(depth, chain, n):
        out = []
        for _ in range(n):
            if budget[0] <= 0 and out:
                break
            out.append(item(depth, chain))
        return out

    body = []
    while budget[0] > 0:
        body.append(item(0, []))
    # metadata
    head = []
    m = exp['meta']

    def mstr():
        s = ' '.join(rng.choice(WORDS + UNI) for _ in range(rng.randint(1, 4)))
        return s
    if rng.random() < 0.8:
        m['title'] = mstr()
        head.append('<title>%s</title>' % esc(m['title']))
    m['authors'] = [mstr() for _ in range(rng.choice([0, 1, 2, 3]))]
    for a in m['authors']:
        head.append('<meta name=author content="%s">' % esc(a))
    if rng.random() < 0.6:
        m['description'] = mstr()
        head.append('<meta name=description content="%s">' % esc(m['description']))
    kws = []
    for _ in range(rng.choice([0, 1, 2])):
        raw = [rng.choice(['k1', 'k2', 'mot clé', 'x y', 'k1']) for _ in range(rng.randint(1, 3))]
        head.append('<meta name=keywords content="%s">' % esc(rng.choice([', ', ',', ' ,  ']).join(raw)))
        for w in raw:
            if w not in kws:
                kws.append(w)
    m['keywords'] = kws
    for nm in ('created', 'modified'):
        if rng.random() < 0.6:
            if rng.random() < 0.8:
                g = gen_date_fields(rng)
                while classify_date(date_string(g)) != 'valid':
                    g = gen_date_fields(rng)
                s = date_string(g, rng)
                m[nm] = expected_pdf_date(g)
            else:
                s = gen_bad_date(rng).replace('\x0b', 'v')
                while classify_date(s) != 'malformed' or '"' in s:
                    s = gen_bad_date(rng).replace('\x0b', 'v')
                m[nm] = None
                m.setdefault('bad_dates', []).append(s)
            head.append('<meta name=dcterms.%s content="%s">' % (nm, esc(s)))
    lang = rng.choice([None, 'fr', 'en-GB', 'zh-Hant'])
    m['lang'] = lang
    for _ in range(rng.choice([0, 0, 1, 2])):
        fn = 'mem:g%d.txt' % rng.randint(0, 2)
        present = rng.random() < 0.85
        if fn not in exp['files'] and present:
            exp['files'][fn] = 'attached %s %s' % (fn, rng.choice(['', 'é中', '\n' * 3]))
        title = mstr() if rng.random() < 0.6 else None
        exp['attachments'].append(dict(url=fn, title=title))
        head.append('<link rel=attachment href="%s"%s>' % (fn, '' if title is None else ' title="%s"' % esc(title)))
    html = '<html%s><head><meta charset=utf-8><style>%s%s</style>%s</head><body>%s</body></html>' % (
        '' if lang is None else ' lang=%s' % lang, CSS, ''.join(rules), ''.join(head), '\n'.join(body))
    if basekind == 'element':
        html = html.replace('<meta charset=utf-8>', '<meta charset=utf-8><base href="%s">' % docbase, 1)
    exp['mode'] = mode
    exp['basekind'] = basekind
    return dict(html=html, files=exp['files'], base_url=docbase if basekind == 'arg' else None,
                zoom=rng.choice([1, 1, 2, 0.5])), exp


def close(a, b, tol=1e-6):
    return abs(a - b) <= tol * max(1.0, abs(a), abs(b))


def pdf_bytes(s):
    """the bytes of a PDF string object as pydyf writes it (literal for ASCII, UTF-16BE with BOM otherwise)"""
    try:
        return s.encode('ascii')
    except UnicodeEncodeError:
        return b'\xfe\xff' + s.encode('utf-16-be')


def judge_doc(case, exp, r):
    """returns list of (clause, detail)"""
    bad = []
    zoom = case['zoom']
    s = 0.75 * zoom
    heights = [p['height'] for p in r['api_pages']]
    geo = {}
    for pi, kk, ident, tag, area, cls in r['geo']:
        geo.setdefault(kk, []).append((pi, area, cls))
    # ---------------- bookmarks / outline
    eb = exp['bookmarks']
    ref = ref_forest([(b['level'], i) for i, b in enumerate(eb)])

    def flat_api(f, par, acc):
        for t in f:
            acc.append((t, par))
            me = len(acc) - 1
            flat_api(t[5], me, acc)
        return acc

    def flat_ref(f, par, acc):
        for pay, kids in f:
            acc.append((pay, par))
            me = len(acc) - 1
            flat_ref(kids, me, acc)
        return acc
    api = flat_api(r['api_tree'], None, [])
    rf = flat_ref(ref, None, [])
    if [t[0][0] for t in api] != [b['label'] for b in eb]:
        bad.append(('bookmarks-one-entry-per-element-in-order', ([t[0][0] for t in api][:8], [b['label'] for b in eb][:8])))
        return bad
    if [p for _, p in api] != [p for _, p in rf]:
        bad.append(('bookmark-parent-nearest-lower-level', ([p for _, p in api], [p for _, p in rf])))
    for (t, _), b in zip(api, eb):
        if t[2] != b['state']:
            bad.append(('bookmark-state', (t[0], t[2], b['state'])))
        boxes = geo.get(b['k'], [])
        if not boxes:
            bad.append(('bookmarked-element-has-no-box', b['k']))
            continue
        pi, area, _ = boxes[0]
        pt = chain_point(exp, geo, pi, b.get('chain'), area[0], area[1])
        if pt is None or t[1] != pi or not close(t[3], pt[0], 1e-5) or not close(t[4], pt[1], 1e-5):
            bad.append(('bookmark-target-is-first-box-of-element', (t[:5], pi, area, pt)))
    # outline objects
    items = {it['num']: it for it in r['outline_items']}
    root = r['outline_root']
    if not eb:
        if root is not None or items:
            bad.append(('no-bookmark-no-outline', root))
    else:
        if root is None:
            bad.append(('outline-missing', None))
        else:
            seen = []

            def chain(first, parent, exp_nodes):
                """follow First/Next; returns (visible count, last ref)"""
                cur, prev, cnt = first, None, 0
                for pay, kids in exp_nodes:
                    it = items.get(cur)
                    if it is None or cur in seen:
                        bad.append(('outline-chain-broken', (cur, pay)))
                        return None, None
                    seen.append(cur)
                    b = eb[pay]
                    if it['title'] != b['label']:
                        bad.append(('outline-title', (it['title'], b['label'])))
                    if it['parent'] != parent or it['prev'] != prev:
                        bad.append(('outline-parent-prev', (it, parent, prev)))
                    kc, klast = chain(it['first'], cur, kids)
                    if kc is None:
                        return None, None
                    if it['last'] != klast or (it['first'] is None) != (not kids):
                        bad.append(('outline-first-last', (it, klast)))
                    want = -kc if b['state'] == 'closed' else kc
                    if (it['count'] or 0) != want:
                        bad.append(('outline-count', (it['title'], it['count'], want)))
                    boxes = geo.get(b['k'], [])
                    if boxes:
                        pi, area, _ = boxes[0]
                        pt = chain_point(exp, geo, pi, b.get('chain'), area[0], area[1])
                        if pt is None or it['dest'] != r['page_refs'][pi] or it['dest_kind'] != '/XYZ' or \
                                not close(float(it['x']), pt[0] * s, 1e-5) or \
                                not close(float(it['y']), (heights[pi] - pt[1]) * s, 1e-5) or it['zoom'] != 0:
                            bad.append(('outline-dest-is-page-and-position-of-element', (it, pi, area, pt, s)))
                    cnt += 1 + (0 if b['state'] == 'closed' else kc)
                    prev, cur = cur, it['next']
                if cur is not None:
                    bad.append(('outline-extra-sibling', cur))
                return cnt, prev
            cnt, last = chain(root['first'], root['num'], ref)
            if cnt is not None and (root['count'] != cnt or root['last'] != last):
                bad.append(('outline-root', (root, cnt, last)))
            if cnt is not None and len(seen) != len(items):
                bad.append(('outline-unreachable-items', (len(seen), len(items))))
    # ---------------- anchors / destinations
    first_of, first_chain = {}, {}
    for a in exp['anchors']:
        first_of.setdefault(a['name'], a['k'])
        first_chain.setdefault(a['name'], a.get('chain'))
    bookmarked = set(b['k'] for b in exp['bookmarks'])
    dests = r['dests']
    names = [d[0] for d in dests]
    if sorted(set(names)) != sorted(first_of):
        bad.append(('dests-one-per-carried-name', (sorted(names), sorted(first_of))))
    if len(set(names)) != len(names):
        bad.append(('dests-duplicate-name', names))
    keys = [pdf_bytes(n) for n in names]
    if keys != sorted(keys):
        bad.append(('dests-not-byte-sorted', names))
    for name, raw, pref, kind, x, y, z in dests:
        boxes = geo.get(first_of.get(name), [])
        if not boxes:
            bad.append(('dest-element-has-no-box', name))
            continue
        pi, area, _ = boxes[0]
        pt = chain_point(exp, geo, pi, first_chain.get(name), area[0], area[1])
        if pt is None or pref != r['page_refs'][pi] or kind != '/XYZ' or not close(x, pt[0] * s, 1e-5) or \
                not close(y, (heights[pi] - pt[1]) * s, 1e-5) or z != 0:
            bad.append(('dest-is-first-element-with-that-name', (name, pref, x, y, pi, area, pt)))
    # ---------------- links
    want_api = [[] for _ in heights]
    want_pdf = [[] for _ in heights]
    nmissing = 0
    for l in exp['links']:
        for pi, area, cls in geo.get(l['k'], []):
            rect = chain_aabb(exp, geo, pi, l.get('chain'), area)
            if rect is None:
                bad.append(('transformed-ancestor-has-no-box-on-the-page', (l['k'], pi)))
                continue
            want_api[pi].append((l['kind'], l['target'], rect))
            if l['kind'] == 'internal' and l['target'] not in first_of:
                nmissing += 1
                continue
            if l['kind'] == 'attachment' and l['target'] not in case['files']:
                continue
            want_pdf[pi].append((l['kind'], l['target'],
                                 (rect[0] * s, (heights[pi] - rect[1]) * s, rect[2] * s, (heights[pi] - rect[3]) * s)))

    def same_rect(a, b):
        return all(close(u, v, 1e-5) for u, v in zip(a, b))
    for pi, p in enumerate(r['api_pages']):
        got = [(lt, tg, rect) for lt, tg, rect, _, _ in p['links']]
        if len(got) != len(want_api[pi]) or any(g[0] != w[0] or g[1] != w[1] or not same_rect(g[2], w[2])
                                                for g, w in zip(got, want_api[pi])):
            bad.append(('page-links-cover-the-boxes-of-each-link', (pi, got[:4], want_api[pi][:4])))
        ann = r['annots'][pi]
        w = want_pdf[pi]
        if len(ann) != len(w):
            bad.append(('annotations-one-per-link-box', (pi, len(ann), len(w), ann[:3], w[:3])))
            continue
        # link annotations come first (add_links), file attachments after (add_annotations)
        order = [x for x in w if x[0] != 'attachment'] + [x for x in w if x[0] == 'attachment']
        for a, (kind, target, rect) in zip(ann, order):
            ok = same_rect(a['rect'], rect)
            if kind == 'internal':
                ok = ok and a['subtype'] == '/Link' and a.get('dest') == target and target in names
            elif kind == 'external':
                ok = ok and a['subtype'] == '/Link' and a.get('uri') == target and a.get('s') == '/URI'
            else:
                ok = ok and a['subtype'] == '/FileAttachment' and \
                    r['filespecs'].get(a.get('fs'), r['filespecs'].get(str(a.get('fs')))) == case['files'][target]
            if not ok:
                bad.append(('annotation-matches-link', (pi, a, kind, target, rect)))
    nerr = sum(1 for e in r['errors'] if e.startswith('No anchor #'))
    if nerr != nmissing:
        bad.append(('missing-anchor-logged-once-per-link-box', (nerr, nmissing)))
    # ---------------- metadata
    m = exp['meta']
    info = r['info']
    want = {}
    if m.get('title'):
        want['Title'] = m['title']
    if m['authors']:
        want['Author'] = ', '.join(m['authors'])
    if m.get('description'):
        want['Subject'] = m['description']
    if m['keywords']:
        want['Keywords'] = ', '.join(m['keywords'])
    if m.get('created'):
        want['CreationDate'] = m['created']
    if m.get('modified'):
        want['ModDate'] = m['modified']
    got = {k: v for k, v in info.items() if k != 'Producer'}
    if got != want:
        bad.append(('info-matches-html-metadata', (got, want)))
    if r['lang'] != m['lang']:
        bad.append(('lang', (r['lang'], m['lang'])))
    nbad = len(m.get('bad_dates', []))
    nwarn = sum(1 for w in r['warnings'] if w.startswith('Invalid date'))
    if nwarn != nbad:
        bad.append(('invalid-date-warned', (nwarn, m.get('bad_dates'))))
    want_emb = [(a['url'][4:], a['title'] or '', case['files'][a['url']]) for a in exp['attachments']
                if a['url'] in case['files']]
    got_emb = [(e['name'], e['desc'], e['data']) for e in r['embedded']]
    if got_emb != want_emb or any(e['uf'] != e['name'] or e['size'] != len(e['data'].encode('utf-8')) for e in r['embedded']):
        bad.append(('attachments-written-unchanged', (got_emb, want_emb)))
    return bad


def probe_nonascii_ids():
    html = ('<html><head><meta charset=utf-8><style>%s</style></head><body><p data-k=k1 id="z">abc</p>'
            '<p data-k=k2 id="aé">abc</p><p data-k=k3 id=b>abc</p><p><a data-k=k4 href="#aé">abc</a> '
            '<a data-k=k5 href="#z">abc</a></p></body></html>' % CSS)
    exp = dict(bookmarks=[], anchors=[dict(k='k1', name='z'), dict(k='k2', name='aé'), dict(k='k3', name='b')],
               links=[dict(k='k4', kind='internal', target='aé', chain=[]),
                      dict(k='k5', kind='internal', target='z', chain=[])],
               files={}, meta=dict(authors=[], keywords=[], lang=None), attachments=[], tboxes={})
    return dict(html=html, files={}, base_url=BASE, zoom=1), exp


def stream_render(run, rng, n):
    docs = []
    for c in corpus('render'):
        docs.append((c['case'], c['exp']))
    # a quarter of the generated documents get a page bleed (own generator: the documents themselves are unchanged):
    # links, destinations and bookmarks are placed relative to the page box, so nothing the judge expects moves -
    # a matrix built from the bleed box height (page_height of generate_pdf) shifts every rectangle
    brng = random.Random(run.seed * 7919 + 1818)
    nbleed = 0
    for i in range(n):
        case, exp = gen_doc(rng, ascii_ids=rng.random() < 0.6)
        if brng.random() < 0.25 and case['html'].count('@page{size:200px 100px;margin:0}') == 1:
            sides = [brng.choice([0, 3, 7, 11, 20]) for _ in range(4)]
            if any(sides):
                case = dict(case, html=case['html'].replace(
                    '@page{size:200px 100px;margin:0}',
                    '@page{size:200px 100px;margin:0;bleed:%dpx %dpx %dpx %dpx}' % tuple(sides), 1))
                nbleed += 1
        docs.append((case, exp))
    # regression witness of F47 (fixed in 484a69a): ASCII and non-ASCII ids mixed, the name tree must be byte-sorted
    docs.append(probe_nonascii_ids())
    outs = common.run_impl('impl_c18', 'render_doc', [d[0] for d in docs], limit=90, chunksize=2)
    split = nb = nl = na = nsplitc = npseudo = ntl = nnest = nselfurl = npct = nexo = 0
    seen = set()
    for (case, exp), (st, o) in zip(docs, outs):
        if st == 'timeout':
            run.fail('render timeout', {'stream': 'render', 'case': case, 'exp': exp}, signature='timeout')
            continue
        if st == 'exc':
            run.fail('render raised %s at %s: %s' % (o['type'], o['site'], o['msg']), {'stream': 'render', 'case': case, 'exp': exp, 'exc': o},
                     signature='crash:%s' % (o['site'],))
            continue
        pages_of = {}
        for pi, kk, ident, tag, area, cls in o['geo']:
            pages_of.setdefault(kk, set()).add(pi)
        split += sum(1 for b in exp['bookmarks'] if len(pages_of.get(b['k'], ())) > 1)
        first_page = {}
        for pi, kk, ident, tag, area, cls in o['geo']:
            first_page.setdefault(kk, pi)
        eb = exp['bookmarks']
        for i, b in enumerate(eb):      # a bookmarked box continued on a later page after another bookmark was met
            pgs = pages_of.get(b['k'], ())
            if len(pgs) > 1 and any(first_page.get(c['k'], -1) < max(pgs) for c in eb[i + 1:i + 6]):
                nsplitc += 1
        npseudo += sum(1 for b in eb if '::' in b['k'])
        ntl += sum(1 for l in exp['links'] if l.get('chain'))
        nnest += sum(1 for l in exp['links'] if len(l.get('chain') or ()) > 1)
        nselfurl += len(__import__('re').findall(r'href="[^#"]+#[^"]', case['html'])) if exp.get('basekind') != 'none' else 0
        npct += len(__import__('re').findall(r'href="[^"]*#[^"]*%[0-9A-Fa-f]{2}', case['html']))
        nexo += sum(1 for a in exp['anchors'] if a['name'].startswith('u'))
        nb += len(exp['bookmarks'])
        nl += len(exp['links'])
        na += len(exp['anchors'])
        bad = judge_doc(case, exp, o)
        reported = set()
        for clause, detail in bad:
            if clause in reported or len(reported) >= 3:
                continue
            reported.add(clause)
            run.fail('render monitor: clause %s fails: %s' % (clause, str(detail)[:600]),
                     {'stream': 'render', 'case': case, 'exp': exp, 'clause': clause}, signature=clause)
        seen.add((len(exp['bookmarks']) > 0, len(exp['links']) > 0, o['npages'] > 1, bool(exp['attachments'])))
    # the written /Dests names through the Coq model of the sort (names as UTF-16 code units)
    name_lists, name_docs = [], []
    for (case, exp), (st, o) in zip(docs, outs):
        if st == 'ok' and len(o['dests']) >= 2:
            name_lists.append([d[0] for d in o['dests']])
            name_docs.append((case, exp))

    def units(nm):
        b = nm.encode('utf-16-be')
        return '[%s]' % '; '.join(zlit(b[i] * 256 + b[i + 1]) for i in range(0, len(b), 2))
    try:
        masks = common.eval_cases('c18nm', PRE_NM, 'list name', ['[%s]' % '; '.join(units(x) for x in nl_) for nl_ in name_lists],
                                  'names_judge', per_file=max(20, len(name_lists) // 12))
        run.oblige('corr:dests-order(model sort_names vs the /Dests array written by generate_pdf)',
                   not any(m & 1 for m in masks), str([nl_ for nl_, m in zip(name_lists, masks) if m & 1][:2]))
        for nl_, m, (case, exp) in zip(name_lists, masks, name_docs):
            if m & 2:
                run.fail('the /Dests names are not strictly sorted as byte strings: %s' % nl_,
                         {'stream': 'render', 'case': case, 'exp': exp, 'names': nl_}, signature='dests-not-byte-sorted')
                break
        run.count('dests-order', len(name_lists), [tuple(x) for x in name_lists])
        run.stream_info('dests-order', rule='the name arrays of the rendered documents (ASCII, non-ASCII BMP and astral ids '
                        'mixed in 40%% of them), judged in Coq', with_non_ascii=sum(1 for x in name_lists if any(not y.isascii() for y in x)))
    except RuntimeError as exc:
        run.oblige('corr:dests-order', False, str(exc))
    run.count('render-monitor', len(docs), [('doc', i) for i in range(len(docs))], samples=[docs[-1][0]['html'][:500]])
    run.stream_info('render-monitor', documents_with_page_bleed=nbleed, bookmarks=nb, bookmarked_boxes_split_over_pages=split, links=nl, anchors=na,
                    split_containers_with_bookmarks_between_fragments=nsplitc, pseudo_element_bookmarks=npseudo,
                    links_under_transform=ntl, links_under_nested_transforms=nnest,
                    internal_links_spelled_as_document_url=nselfurl, internal_links_percent_encoded=npct,
                    anchors_on_table_parts_floats_absolutes_inline_blocks_list_items=nexo,
                    rule='full renders (200x100px pages), modes flat/nested/transform/mixed/spellings/boxes; the document URL '
                         'comes from the base_url argument, from <base href> or from nowhere; internal links are written as '
                         '#fragment or as one of 7 relative/absolute spellings of the document URL, fragments raw or '
                         'percent-encoded per character (either case), ids with reserved and non-ASCII characters in mode '
                         'spellings; unique ids on <table>, <caption>, <colgroup>, <col>, <thead>/<tfoot> (repeated on '
                         'every page), <tbody>, <tr>, cells, floats, absolutely positioned boxes, inline-blocks, lists and '
                         'list items, also inside transformed wrappers, with links to them; 0..80 bookmarks from h1-h6 '
                         '(bookmark-level overrides 1..9/none), from section/div/article containers (label by attr(title) or '
                         'string, nested up to 3 deep, spanning pages with bookmarked descendants between their fragments) '
                         'and from their ::before/::after boxes (block or inline, own level/label/state); closed states; '
                         'labels unique per origin and long enough to span lines and pages; ids from a small pool '
                         '(duplicates), <a name>; links: #id, #missing, same-document absolute, absolute, relative, '
                         'attachment; inline (wrapping) links and block/inline-block links with 1-2 transform functions '
                         'out of rotate(30/45/-20/10/135/90/180deg), scale incl. mirrors, translate, skew, matrix() with '
                         'negative determinant, five transform-origins, inside transformed wrappers (nested transforms) '
                         'that also hold headings and anchors; Unicode title/authors/description/keywords, valid and '
                         'malformed dates, lang, <link rel=attachment>; PDF objects read from the pydyf.PDF handed to the '
                         'finisher, strings decoded from their serialised form; expected rectangles/points computed from '
                         'the laid-out (untransformed) boxes by the harness; judged in Python, tolerance 1e-5')


# ================================================================================ check / replay

def check(run):
    rng = random.Random(run.seed * 7919 + 18)
    thorough = run.tier == 'thorough'
    common.prove(run, 'C18', ['model/C18Bookmarks.vo', 'model/C18Outline.vo', 'model/C18Links.vo', 'model/C18Date.vo',
                              'model/C18Aabb.vo', 'model/C18Href.vo', 'model/C18Names.vo', 'model/C18PageMatrix.vo',
                              'proofs/C18_gen_aabb.vo', 'proofs/C18_gen_page_matrix.vo',
                              'proofs/C18_gen_bookmarks.vo', 'proofs/C18_gen_outline_count.vo'])
    run.trusted += ['Coq 8.16.1 kernel (coqc); vm_compute for the cases.v evaluation',
                    'hand models coq/model/C18*.v, tied to /repo by the direct-call correspondence streams; '
                    'C18Aabb (rectangle_aabb, Matrix.transform_point / __matmul__ / constructor) and C18PageMatrix (the '
                    'per-page matrix, MediaBox and TrimBox statements of generate_pdf) also by the translator: the '
                    'C18_source_* theorems are about the bodies regenerated from /repo (tools/py2coq.py, interpreter '
                    'coq/base/Py.v; methods are resolved by name: the receiver of .transform_point / @ is trusted to be '
                    'a Matrix; the rest of the page loop of generate_pdf, which hands matrix / left / top / right / '
                    'bottom to add_links and to the page dictionary, is outside the translated slices - the '
                    'translator only checks that it does not rebind them); the level stack of make_page_bookmark_tree '
                    '(head of the loop body through `assert depth >= 1`; skipped_levels.pop() hoisted by the printer, '
                    'see hoist_pops) and the Count statements of add_outlines are regenerated too: the rest of these '
                    'loops (children lists aliased inside last_by_depth; the recursion, the pydyf objects and the '
                    'Prev / Next / First / Last / Parent entries) is outside the value domain of Py.v and stays tied by '
                    'the correspondence streams only - the translator checks that it still consumes depth / count)',
                    'harness stubs (SimpleNamespace pages/boxes, pydyf.PDF), its reader of pydyf objects/strings, '
                    'and the Python judge of the render monitor (urllib.parse.urljoin for relative URLs)']
    run.assumptions += ['the regular expression W3C_DATE_RE is glue: exercised by the dates stream, not modelled',
                        'object numbering of add_outlines is modelled as preorder allocation (validated on every case)',
                        'URL resolution, pydyf string encoding, attachment fetching: monitored through full renders only']
    k = 10 if thorough else 1
    stream_bookmarks(run, rng, 800 * k)
    stream_outlines(run, rng, 400 * k)
    stream_links(run, rng, 500 * k)
    stream_aabb(run, rng, 300 * k)
    stream_hrefs(run, rng, 400 * k)
    stream_dates(run, rng, 300 * k)
    stream_render(run, rng, 200 * k)


def replay(data):
    d = data.get('data', {})
    st = d.get('stream')
    run = common.Run('C18', 'replay', 0)
    rng = random.Random(0)
    if st == 'render':
        (s, o), = common.run_impl('impl_c18', 'render_doc', [d['case']], limit=90)
        bad = judge_doc(d['case'], d['exp'], o) if s == 'ok' else [(s, o)]
        print('replay:', bad[:5])
        return 1 if bad else 0
    if st == 'bookmarks':
        (s, o), = common.run_impl('impl_c18', 'bookmarks', [d['case']])
        m = common.eval_cases('c18replay', PRE_BM, 'list (list (Z * (Z * bool))) * (nat + list itree)',
                              [coq_bm_case(d['case'], s, o)], 'bookmark_judge')
        pts = bm_points_ok(d['case'], o) if s == 'ok' else []
        print('replay: impl', s, o, 'mask', m, 'points', pts)
        return 1 if m[0] or pts else 0
    if st == 'outlines':
        (s, o), = common.run_impl('impl_c18', 'outlines', [d['case']])
        if s != 'ok':
            print('replay:', s, o)
            return 1
        m = common.eval_cases('c18replay', PRE_OL, OL_TYPE,
                              [coq_ol_case(d['case']['forest'], o['page_refs'], o['n0'], o['items'], o['root'])], 'outline_judge')
        print('replay: impl', o, 'mask', m)
        return 1 if m[0] else 0
    if st == 'links':
        (s, o), = common.run_impl('impl_c18', 'links', [d['case']])
        if s != 'ok':
            print('replay:', s, o)
            return 1
        m = common.eval_cases('c18replay', PRE_LK, 'list box * list (list link * list anchor) * list Z',
                              [coq_lk_case(d['case'], o)], 'links_judge')
        print('replay: impl', o, 'mask', m)
        return 1 if m[0] else 0
    if st in ('hrefs', 'hrefs-probe'):
        c = d['case']
        (s, o), = common.run_impl('impl_c18', 'hrefs', [dict(base=c['base'], href=c['href'])])
        print('replay: impl', s, o)
        if st == 'hrefs-probe':
            return 0 if (s == 'ok' and o == ['internal', 'x']) else 1
        if s != 'ok':
            return 1
        c['attr'] = tuple(c['attr'])
        m = common.eval_cases('c18replay', PRE_HR, 'option Z * attr * option (list Z) * linkres', [coq_href_case(c, o)], 'href_judge')
        print('judge mask', m)
        return 1 if m[0] else 0
    if st == 'aabb':
        (s, o), = common.run_impl('impl_c18', 'aabb', [d['case']])
        if s != 'ok':
            print('replay:', s, o)
            return 1
        m = common.eval_cases('c18replay', PRE_AB, 'option matrix * (Q * Q * Q * Q) * (Q * Q * Q * Q)',
                              [coq_ab_case(d['case'], o)], 'aabb_judge')
        print('replay: impl', o, 'mask', m)
        return 1 if m[0] else 0
    if st in ('dates', 'dates-malformed'):
        (s, o), = common.run_impl('impl_c18', 'dates', [{'s': d['string']}])
        print('replay: impl', s, o, 'class', classify_date(d['string']))
        if st == 'dates':
            return 1 if (s != 'ok' or o['out'] != expected_pdf_date(d['fields'])) else 0
        cls = classify_date(d['string'])
        return 1 if s != 'ok' or (cls == 'malformed' and (o['out'] is not None or not o['warned'])) or \
            (cls == 'valid' and o['out'] is None) else 0
    print('nothing to replay for', st)
    return 0
