"""C02 - rendering is total: no internal error, no hang, at least one page."""
import random, collections
import common, advgen, widegen

PAGE_BOUND_FACTOR = 4


def site_signature(o):
    return 'crash:%s' % (tuple(o['site']) if o.get('site') else (o['type'], '?', '?'),)


def check(run):
    rng = random.Random(run.seed * 7919 + 2)
    thorough = run.tier == 'thorough'
    common.prove(run, 'C02')
    run.trusted += ['Coq 8.16.1 kernel', 'the totality theorems are those of the modelled kernels (see each property); '
                    'exception-freedom of the un-modelled traversals and of the native libraries is monitored, not proved',
                    'worker watchdog (CPU-time timer SIGPROF, wall-clock SIGALRM backstop) for non-termination']
    run.assumptions += ['crash sites and non-terminating documents found on the unchanged tree are listed as open findings '
                        'by site (exception type, file, function), so that a crash at a new site is a violation',
                        'a render that exceeds 25 s (quick) / 60 s (thorough) of CPU time is re-run with 240 s of CPU time; one that still does not finish counts as non-terminating']
    # ---- adversarial stream
    n = 4000 if thorough else 700
    docs = []
    for _ in range(n):
        html, options = advgen.document(rng)
        docs.append({'html': html, 'options': options})
    for _ in range(n // 3):     # real HTML elements and attributes (tables with spans, images, forms, lists)
        html, options = advgen.html_document(rng)
        docs.append({'html': html, 'options': options})
    outs = common.run_impl('impl_c02', 'render', docs, limit=60 if thorough else 25)
    # a time-out may be a slow document (hundreds of tiny pages, exponential nesting) or a hang: the timed-out
    # documents whose stack does not show a listed non-terminating mechanism get 240 s of CPU time (this runs beside
    # the wide stream below); only those that still do not finish are reported as non-terminating
    known_sigs = {k.get('signature') for k in common.load_known() if k.get('status', 'open') == 'open'}
    slow_idx = [i for i, (st, o) in enumerate(outs)
                if st == 'timeout' and common.timeout_signature(o) not in known_sigs]
    again = []
    import threading
    rerun = threading.Thread(target=lambda: again.extend(
        common.run_impl('impl_c02', 'render', [docs[i] for i in slow_idx], limit=240, chunksize=1)))
    rerun.start()
    wide_out = wide_stream(run, rng, thorough)
    rerun.join()
    for i, r in zip(slow_idx, again):
        outs[i] = r
    run.stream_info('adversarial', slow_documents=len(slow_idx))
    sites = collections.Counter()
    npages = collections.Counter()
    keys = []
    for d, (st, o) in zip(docs, outs):
        if st == 'timeout':
            sig = common.timeout_signature(o)
            sites[sig] += 1
            run.fail('render does not terminate within the time limit (%s)' % sig, {'stream': 'adversarial', **d, 'where': o}, signature=sig)
            continue
        if st == 'exc':
            sig = site_signature(o)
            sites[sig] += 1
            run.fail('internal error %s: %s at %s' % (o['type'], o['msg'][:120], o['site']),
                     {'stream': 'adversarial', **d, 'exc': o}, signature=sig)
            continue
        if o.get('no_progress'):
            sig = 'pages-unbounded:' + o['no_progress']
            sites[sig] += 1
            run.fail('unbounded number of pages: the same resume point comes back for ever (stuck in %s)' % o['no_progress'],
                     {'stream': 'adversarial', **d}, signature=sig)
            continue
        npages[min(o['pages'], 50)] += 1
        keys.append((o['pages'], len(d['html']), str(sorted(d['options']))))
        if o['pages'] < 1:
            run.fail('document without pages', {'stream': 'adversarial', **d})
        if o['starts'] != '%PDF-':
            run.fail('output is not a PDF', {'stream': 'adversarial', **d})
        # bounded page count: finite content => finite pages; bound by the content size
        nel = d['html'].count('<') // 2 + d['html'].count(' ') + 10
        if o['pages'] > 400 + PAGE_BOUND_FACTOR * nel * 30:
            run.fail('unbounded number of pages: %d' % o['pages'], {'stream': 'adversarial', **d})
    run.count('adversarial', len(docs), keys, samples=[docs[0]['html'][-500:], str(docs[0]['options'])])
    run.stream_info('adversarial', known_sites_hit=dict(sites), pages_hist=dict(npages),
                    rule='advgen.py: every display value in every other, lengths in {0, tiny, huge, negative, %, em, auto}, empty '
                         'elements, nesting <= 7, every break value, page sizes 1..500 x 10..1000 px, 13 output option sets; '
                         'distinct = (page count, size, options)')
    wide_report(run, *wide_out)


def wide_stream(run, rng, thorough):
    # ---- the wide (well-formed) grammar must never crash either
    wdocs = [widegen.document(rng) for _ in range(1200 if thorough else 250)]
    outs = common.run_impl('impl_c02', 'render', [{'html': h} for h, _, _ in wdocs], limit=60)
    return wdocs, outs


def wide_report(run, wdocs, outs):
    for (h, _, _), (st, o) in zip(wdocs, outs):
        if st == 'timeout':
            run.fail('render does not terminate within the time limit', {'stream': 'wide', 'html': h, 'where': o},
                     signature=common.timeout_signature(o))
        elif st == 'exc':
            run.fail('internal error %s at %s' % (o['type'], o['site']), {'stream': 'wide', 'html': h, 'exc': o},
                     signature=site_signature(o))
        elif o.get('no_progress'):
            run.fail('unbounded number of pages (stuck in %s)' % o['no_progress'], {'stream': 'wide', 'html': h},
                     signature='pages-unbounded:' + o['no_progress'])
        elif o['pages'] < 1:
            run.fail('document without pages', {'stream': 'wide', 'html': h})
    run.count('wide', len(wdocs), [(len(h), H) for h, _, H in wdocs], samples=[wdocs[0][0][-300:]])
    run.stream_info('wide', rule='widegen.py documents rendered and written to PDF')


def replay(data):
    d = data.get('data', {})
    (st, o), = common.run_impl('impl_c02', 'render', [{'html': d['html'], 'options': d.get('options') or {}}], limit=120)
    print(st, o if st != 'exc' else (o['type'], o['msg'], o['site']))
    return 0 if st == 'ok' and o['pages'] >= 1 else 1
