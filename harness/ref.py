"""Reference model (to be ported to Gallina): block/paragraph fragmentation, integer geometry.
Ported line by line from layout/block.py + layout/page.py, restricted to:
 BlockBox containing block children or ONE LineBox child (n lines of height LH); no floats/abs/footnotes/
 fixed heights/tables; page name ''; margin-break auto; continue auto; max-lines none."""
import math
INF=math.inf
class Box:
    def __init__(self, kind, st, children=None, nlines=0, ids=None, root=False):
        self.kind=kind   # 'blk' | 'lines'
        self.st=st; self.children=children or []; self.nlines=nlines; self.ids=ids or []
        self.is_root=root
        self.index=None
    def resolve(self):
        s=self.st
        self.margin_top=s.get('mt',0); self.margin_bottom=s.get('mb',0)
        self.padding_top=s.get('pt',0); self.padding_bottom=s.get('pb',0)
        self.border_top=s.get('bt',0); self.border_bottom=s.get('bb',0)
    def remove_decoration(self,start,end):
        if self.st.get('clone'): return
        if start: self.margin_top=self.padding_top=self.border_top=0
        if end: self.margin_bottom=self.padding_bottom=self.border_bottom=0
    def content_box_y(self): return self.position_y+self.margin_top+self.border_top+self.padding_top
    def border_box_y(self): return self.position_y+self.margin_top
    def border_height(self): return self.height+self.padding_top+self.padding_bottom+self.border_top+self.border_bottom
    def margin_height(self): return self.border_height()+self.margin_top+self.margin_bottom
    def translate(self,dy):
        if dy==0: return
        self.position_y+=dy
        for c in self.children: c.translate(dy)
    def copy_with_children(self,ch):
        n=Box(self.kind,self.st,list(ch),self.nlines,self.ids,self.is_root)
        for a in ('margin_top','margin_bottom','padding_top','padding_bottom','border_top','border_bottom','position_y','index'):
            if hasattr(self,a): setattr(n,a,getattr(self,a))
        n.height=getattr(self,'height','auto')
        return n
class Line:
    kind='line'
    def __init__(self, wid, y, h, resume_at, st): self.wid=wid; self.position_y=y; self.height=h; self.resume_at=resume_at; self.st=st; self.children=[]
    def translate(self,dy): self.position_y+=dy
class Ctx: pass

def overflows(bottom,y): return y > bottom*(1+1e-9)
def collapse_margin(ms):
    ms=[0]+list(ms); return max(m for m in ms if m>=0)+min(m for m in ms if m<=0)
def avoid_page_break(v): return v in ('avoid','avoid-page')
def force_page_break(v): return v in ('page','left','right','recto','verso')
def block_level_page_break(before, after):
    values=[]
    box=before
    while box is not None and box.kind=='blk':
        values.append(box.st.get('ba','auto'))
        if not box.children: break
        box=box.children[-1]
    values.reverse()
    box=after
    while box is not None and box.kind=='blk':
        values.append(box.st.get('bf','auto'))
        if not box.children: break
        box=box.children[0]
    result='auto'
    for value in values:
        if value in ('left','right','recto','verso') or (value,result) in (
            ('page','auto'),('page','avoid'),('page','avoid-page'),('page','avoid-column'),
            ('column','auto'),('column','avoid'),('column','avoid-page'),('column','avoid-column'),
            ('avoid','auto'),('avoid-page','auto'),('avoid-column','auto')):
            result=value
    return result

def block_level_layout(ctx, box, bottom_space, skip_stack, cb, page_is_empty, adjoining_margins):
    box.resolve()
    if ctx.current_page>1 and page_is_empty:
        collapse_with_page = cb.is_root or adjoining_margins
        if collapse_with_page:
            if not ctx.forced_break: box.margin_top=0
    return block_container_layout(ctx, box, bottom_space, skip_stack, page_is_empty, adjoining_margins)

def iter_lines(ctx, linebox, position_y, skip):
    k = skip or 0
    n=linebox.nlines
    while k<n:
        nxt = k+1 if k+1<n else None
        yield Line(linebox.ids[k], position_y, ctx.LH, nxt, linebox.parent_st), nxt
        position_y+=ctx.LH
        k+=1

def _break_line(ctx, box, line, new_children, lines_iterator, page_is_empty, index, skip_stack, resume_at):
    over_orphans=len(new_children)-box.st.get('orphans',1)
    if over_orphans<0 and not page_is_empty: return True, False, resume_at
    needed=box.st.get('widows',1)-1
    if needed:
        for _ in lines_iterator:
            needed-=1
            if needed==0: break
    if needed>over_orphans and not page_is_empty: return True, False, resume_at
    if needed and needed<=over_orphans:
        del new_children[-needed:]
    return False, True, {index: skip_stack}

def _linebox_layout(ctx, box, index, child, new_children, page_is_empty, adjoining_margins, bottom_space, position_y, skip_stack, draw_bottom_decoration):
    abort=stop=False; resume_at=None
    if adjoining_margins: position_y+=collapse_margin(adjoining_margins)
    child.parent_st=box.st
    lines_iterator=iter_lines(ctx, child, position_y, skip_stack)
    for i,(line,resume_at) in enumerate(lines_iterator):
        line.resume_at=resume_at
        new_position_y=line.position_y+line.height
        draw_bottom_decoration |= resume_at is None
        offset_y = box.border_bottom+box.padding_bottom if draw_bottom_decoration else 0
        overflow=(new_children or not page_is_empty) and overflows(ctx.page_bottom-bottom_space, new_position_y+offset_y)
        if overflow:
            abort,stop,resume_at=_break_line(ctx, box, line, new_children, lines_iterator, page_is_empty, index, skip_stack, resume_at)
            break
        elif page_is_empty and overflows(ctx.page_bottom-bottom_space, new_position_y):
            new_position_y-=box.margin_top
            line.translate(-box.margin_top)
            box.margin_top=0
        new_children.append(line)
        position_y=new_position_y
        skip_stack=resume_at
    if new_children:
        resume_at={index: new_children[-1].resume_at}
    return abort, stop, resume_at, position_y

def find_last_in_flow_child(ch): return ch[-1] if ch else None

def find_earlier_page_break(ctx, children):
    if children and children[0].kind=='line':
        orphans=children[0].st.get('orphans',1); widows=children[0].st.get('widows',1)
        index=len(children)-widows
        if index<orphans: return None
        new_children=children[:index]
        resume_at={0:new_children[-1].resume_at}
        return new_children, resume_at
    previous_in_flow=None
    for index in reversed(range(len(children))):
        child=children[index]
        page_break=block_level_page_break(child, previous_in_flow)
        if previous_in_flow is not None and not avoid_page_break(page_break):
            index+=1
            new_children=children[:index]
            resume_at={children[index].index: None}
            break
        previous_in_flow=child
        if not avoid_page_break(child.st.get('bi','auto')):
            if child.kind=='blk':
                result=find_earlier_page_break(ctx, child.children)
                if result:
                    new_grand_children,resume_at=result
                    new_child=child.copy_with_children(new_grand_children)
                    new_children=[*children[:index], new_child]
                    resume_at={new_child.index: resume_at}
                    index+=1
                    break
    else:
        return None
    return new_children, resume_at

def _in_flow_layout(ctx, box, index, child, new_children, page_is_empty, adjoining_margins, bottom_space, position_y, skip_stack, draw_bottom_decoration, collapsing_with_children, next_page):
    abort=stop=False
    last_in_flow_child=find_last_in_flow_child(new_children)
    if last_in_flow_child is not None:
        page_break=block_level_page_break(last_in_flow_child, child)
        if force_page_break(page_break):
            next_page={'break':page_break,'page':''}
            resume_at={index:None}; stop=True
            return abort,stop,resume_at,position_y,adjoining_margins,next_page,new_children
    else:
        page_break='auto'
    child.resolve()
    if last_in_flow_child is None and collapsing_with_children:
        old_collapsed_margin=collapse_margin(adjoining_margins)
        child_margin_top=child.margin_top
        if ctx.current_page>1 and page_is_empty:
            if not ctx.forced_break: child_margin_top=0
        new_collapsed_margin=collapse_margin([*adjoining_margins, child_margin_top])
        diff=new_collapsed_margin-old_collapsed_margin
        for p in new_children: p.translate(diff)
    page_is_empty_with_no_children = page_is_empty and not new_children
    (new_child,resume_at,next_page,next_adjoining_margins,collapsing_through)=block_level_layout(
        ctx, child, bottom_space, skip_stack, box, page_is_empty_with_no_children, adjoining_margins)
    if new_child is not None:
        if not collapsing_through:
            new_content_position_y=new_child.content_box_y()+new_child.height
            new_position_y=new_child.border_box_y()+new_child.border_height()
            content_page_overflow=overflows(ctx.page_bottom-bottom_space,new_content_position_y)
            border_page_overflow=overflows(ctx.page_bottom-bottom_space,new_position_y)
            can_break=not page_is_empty_with_no_children
            if can_break and content_page_overflow:
                new_child=None
            elif can_break and border_page_overflow:
                bottom_space+=new_child.padding_bottom+new_child.border_bottom
                (new_child,resume_at,next_page,next_adjoining_margins,collapsing_through)=block_level_layout(
                    ctx, child, bottom_space, skip_stack, box, page_is_empty_with_no_children, adjoining_margins)
                if new_child:
                    position_y=new_child.border_box_y()+new_child.border_height()
            else:
                position_y=new_position_y
        adjoining_margins=next_adjoining_margins
        if new_child:
            adjoining_margins.append(new_child.margin_bottom)
    skip_stack=None
    if new_child is None:
        if avoid_page_break(page_break):
            result=find_earlier_page_break(ctx, new_children)
            if result:
                new_children,resume_at=result
                stop=True
                return abort,stop,resume_at,position_y,adjoining_margins,next_page,new_children
            else:
                if not page_is_empty:
                    abort=True
                    return abort,stop,resume_at,position_y,adjoining_margins,next_page,new_children
        if new_children:
            resume_at={index:None}; stop=True
        else:
            abort=True
        return abort,stop,resume_at,position_y,adjoining_margins,next_page,new_children
    new_child.index=index
    new_children.append(new_child)
    if resume_at is not None:
        resume_at={index:resume_at}; stop=True
    return abort,stop,resume_at,position_y,adjoining_margins,next_page,new_children

def block_container_layout(ctx, box, bottom_space, skip_stack, page_is_empty, adjoining_margins):
    is_start=skip_stack is None
    box.remove_decoration(start=not is_start, end=False)
    draw_bottom_decoration=bool(box.st.get('clone'))
    if adjoining_margins is None: adjoining_margins=[]
    if draw_bottom_decoration:
        bottom_space+=box.padding_bottom+box.border_bottom+box.margin_bottom
    adjoining_margins.append(box.margin_top)
    this_box_adjoining_margins=adjoining_margins
    collapsing_with_children=not (box.border_top or box.padding_top or box.is_root)
    if collapsing_with_children:
        position_y=box.position_y
    else:
        box.position_y+=collapse_margin(adjoining_margins)-box.margin_top
        adjoining_margins=[]
        position_y=box.content_box_y()
    new_children=[]
    next_page={'break':'any','page':None}
    if is_start: skip=0
    else: (skip,skip_stack),=skip_stack.items()
    resume_at=None
    broke=False
    for index in range(skip, len(box.children)):
        child=box.children[index]
        child.position_y=position_y
        if child.kind=='lines':
            (abort,stop,resume_at,position_y)=_linebox_layout(ctx, box, index, child, new_children, page_is_empty, adjoining_margins, bottom_space, position_y, skip_stack, draw_bottom_decoration)
            draw_bottom_decoration |= resume_at is None
            adjoining_margins=[]
        else:
            (abort,stop,resume_at,position_y,adjoining_margins,next_page,new_children)=_in_flow_layout(
                ctx, box, index, child, new_children, page_is_empty, adjoining_margins, bottom_space, position_y, skip_stack, draw_bottom_decoration, collapsing_with_children, next_page)
            skip_stack=None
        if abort:
            return None,None,{'break':'any','page':''},[],False
        elif stop:
            adjoining_margins=[]
            broke=True
            break
    if not broke:
        resume_at=None
    box_is_fragmented=resume_at is not None
    if box_is_fragmented and avoid_page_break(box.st.get('bi','auto')) and not page_is_empty:
        return None,None,{'break':'any','page':None},[],False
    if collapsing_with_children:
        box.position_y+=collapse_margin(this_box_adjoining_margins)-box.margin_top
    last_in_flow_child=find_last_in_flow_child(new_children)
    collapsing_through=False
    if last_in_flow_child is None:
        collapsed_margin=collapse_margin(adjoining_margins)
        if all(v==0 for v in (box.border_top,box.padding_top,box.border_bottom,box.padding_bottom)):
            collapsing_through=True
        else:
            position_y+=collapsed_margin
            adjoining_margins=[]
    if box.border_bottom or box.padding_bottom or box.is_root:
        position_y+=collapse_margin(adjoining_margins)
        adjoining_margins=[]
    new_box=box.copy_with_children(new_children)
    new_box.remove_decoration(start=not is_start, end=box_is_fragmented)
    new_box.height=position_y-new_box.content_box_y()
    if not box_is_fragmented:
        new_box.height=max(new_box.height, 0)  # min(max_height=inf) then max(min_height=0)
    elif bottom_space>-INF:
        new_box_height=ctx.page_bottom-bottom_space-new_box.position_y-(new_box.margin_height()-new_box.height)
        if new_box_height>new_box.height:
            new_box.height=new_box_height
            if draw_bottom_decoration:
                new_box.height+=box.padding_bottom+box.border_bottom+box.margin_bottom
    if next_page['page'] is None: next_page['page']=''
    return new_box,resume_at,next_page,adjoining_margins,collapsing_through

def paginate(root, H, LH, direction_ltr=True, max_pages=500):
    ctx=Ctx(); ctx.LH=LH
    page_maker=[(None,{'break':'any','page':''},True)]
    pages=[]
    i=0
    class PageCB: is_root=False
    while True:
        resume_at,next_page,right_page=page_maker[i]
        if next_page['break'] in ('left','right'): side=next_page['break']
        elif next_page['break'] in ('recto','verso'):
            side='right' if (direction_ltr ^ (next_page['break']=='verso')) else 'left'
        else: side=None
        blank=bool((side=='left' and right_page) or (side=='right' and not right_page))
        ctx.forced_break=(next_page['break']!='any' or next_page['page'])
        ctx.current_page=i+1; ctx.page_bottom=H
        if blank:
            pages.append(('blank', []))
            new_resume, new_next = resume_at, next_page
        else:
            root.position_y=0
            new_root,new_resume,new_next,_,_=block_level_layout(ctx, root, 0, resume_at, PageCB(), True, [])
            assert new_root is not None
            lines=[]
            def walk(b):
                for c in b.children:
                    if c.kind=='line': lines.append((c.wid, c.position_y))
                    else: walk(c)
            walk(new_root)
            pages.append(('right' if right_page else 'left', lines))
        page_maker.append((new_resume,new_next,not right_page))
        i+=1
        if new_resume is None or i>=max_pages: break
    return pages
