"""C20 - Resources go through the caller's URL fetcher; fetch failures degrade gracefully."""
import random, json, os, glob, itertools, hashlib, copy
import common
from common import zlit

HDR = 'From Coq Require Import ZArith List Bool String.\nImport ListNotations.\nOpen Scope string_scope.\n'
PRE_URL = HDR + 'Require Import WV.model.C20Url.\n'


def blit(b):
    return 'true' if b else 'false'


def slit8(s):
    """Coq term for the UTF-8 bytes of s"""
    b = s.encode('utf-8') if isinstance(s, str) else s
    if all(0x20 <= c < 0x7f for c in b):
        return '"%s"' % b.decode('ascii').replace('"', '""')
    return '(bytes_str [%s]%%nat)' % '; '.join(str(c) for c in b)


def ostr(v):
    return 'None' if v is None else '(Some %s)' % slit8(v)


def lst(xs):
    return '[%s]' % '; '.join(xs)


# ================================================================================ URL shapes

SCHEMES = ['http', 'https', 'file']
NAMES = ['a', 'b1', 'img', 'sub', 'x.y', 'r-2', 'd_3', 'q~', 'caf\u00e9', 'sp ace', 'p%20q', '\u65e5\u672c', 'a(b)', "it's", 'A&B', 'pl+us']


def gen_base(rng, scheme=None):
    scheme = scheme or rng.choice(SCHEMES)
    auth = '' if scheme == 'file' and rng.random() < 0.8 else rng.choice(['h0', 'h1.example', 'localhost:8080', 'u@h2'])
    depth = rng.choice([0, 1, 1, 2, 2, 3])
    segs = [rng.choice(NAMES[:8]) for _ in range(depth)]
    r = rng.random()
    if r < 0.6:
        segs.append(rng.choice(['doc.html', 's.css', 'v.svg', 'index']))
    elif r < 0.9:
        segs.append('')
    elif not segs and r < 0.95:
        segs = []
    else:
        segs.append(rng.choice(NAMES))
    return {'scheme': scheme, 'auth': auth, 'segs': segs}


def show_path(segs):
    return '/' + '/'.join(segs) if segs else ''


def show_base(b):
    return '%s://%s%s' % (b['scheme'], b['auth'], show_path(b['segs']))


def gen_sfx(rng):
    return rng.choice(['', '', '', '', '?v=1', '#frag', '?a=b&c=d'])


def gen_ref(rng, kind=None):
    kind = kind or rng.choice(['abs', 'abs', 'opaque', 'rel', 'rel', 'rel', 'rel', 'path', 'net'])
    name = rng.choice(NAMES) + rng.choice(['.png', '.css', '.svg', '.otf', '', '.bin'])
    if kind == 'abs':
        b = gen_base(rng)
        if b['segs'] and b['segs'][-1] in ('doc.html', 's.css', 'v.svg', 'index', ''):
            b['segs'][-1] = name
        return {'k': 'abs', 'b': b, 'sfx': gen_sfx(rng)}
    if kind == 'opaque':
        return {'k': 'opaque', 's': rng.choice(['data:text/plain,hello', 'data:image/png;base64,AAAA',
                                                'data:,caf\u00e9 x', 'mailto:a@b', 'urn:x:y', 'about:blank',
                                                'DATA:x', 'c:/windows/path.png', 'x-1+a.b:rest', 'a:'])}
    segs = []
    r = rng.random()
    if r < 0.3:
        segs += ['..'] * rng.choice([1, 1, 2, 3, 5])
    elif r < 0.4:
        segs += ['.']
    for _ in range(rng.choice([0, 0, 1, 2])):
        segs.append(rng.choice(NAMES + ['..', '.', '']))
    r = rng.random()
    if r < 0.8:
        segs.append(name)
    elif r < 0.9:
        segs.append(rng.choice(['..', '.']))
    else:
        segs.append('')
    if kind == 'rel':
        if segs and segs[0] == '' and len(segs) > 1:
            segs[0] = 'z'          # a leading empty segment would spell an absolute path
        return {'k': 'rel', 'segs': segs, 'sfx': gen_sfx(rng)}
    if kind == 'path':
        # "//" at the start spells a network path, and "/.//x" resolves to a path starting with "//" that
        # urlunsplit re-reads as an authority under file: - outside the modelled shapes
        segs = [s_ for i_, s_ in enumerate(segs) if s_ != '' or i_ == len(segs) - 1]
        return {'k': 'path', 'segs': segs, 'sfx': gen_sfx(rng)}
    return {'k': 'net', 'auth': rng.choice(['h7', 'other.example:81']), 'segs': [s for s in segs if s not in ('..', '.')] or ['n'],
            'sfx': gen_sfx(rng)}


def show_ref(r):
    k = r['k']
    if k == 'abs':
        return show_base(r['b']) + r['sfx']
    if k == 'opaque':
        return r['s']
    if k == 'rel':
        return '/'.join(r['segs']) + r['sfx']
    if k == 'path':
        return '/' + '/'.join(r['segs']) + r['sfx']
    return '//' + r['auth'] + show_path(r['segs']) + r['sfx']


def coq_base(b):
    return '{| b_scheme := %s; b_auth := %s; b_segs := %s |}' % (
        slit8(b['scheme']), slit8(b['auth']), lst(slit8(s) for s in b['segs']))


def coq_ref(r):
    k = r['k']
    if k == 'abs':
        return '(RAbs %s %s)' % (coq_base(r['b']), slit8(r['sfx']))
    if k == 'opaque':
        return '(ROpaque %s)' % slit8(r['s'])
    if k == 'rel':
        return '(RRel %s %s)' % (lst(slit8(s) for s in r['segs']), slit8(r['sfx']))
    if k == 'path':
        return '(RPath %s %s)' % (lst(slit8(s) for s in r['segs']), slit8(r['sfx']))
    return '(RNet %s %s %s)' % (slit8(r['auth']), lst(slit8(s) for s in r['segs']), slit8(r['sfx']))


def stream_urls(run, rng, n):
    cases = []
    while len(cases) < n:
        has_base = rng.random() < 0.9
        b = gen_base(rng) if has_base else None
        r = gen_ref(rng)
        cases.append({'b': b, 'r': r, 'allow': rng.random() < 0.3})
    outs = common.run_impl('impl_c20', 'url_join_direct',
                           [{'base': show_base(c['b']) if c['b'] else rng.choice([None, '']), 'ref': show_ref(c['r']),
                             'allow': c['allow']} for c in cases])
    coq, kept = [], []
    for c, (st, o) in zip(cases, outs):
        if st != 'ok':
            run.fail('url_join raised %s' % (o,), {'stream': 'url-join', 'case': c, 'outcome': o}, signature='url-join-raise')
            continue
        coq.append('(%s, %s, %s, %s, %s)' % ('(Some %s)' % coq_base(c['b']) if c['b'] else 'None', coq_ref(c['r']),
                                             blit(c['allow']), slit8(show_ref(c['r'])), ostr(o)))
        kept.append((c, o))
    try:
        masks = common.eval_cases('c20url', PRE_URL, 'option base * ref * bool * string * option string', coq, 'url_judge')
        mism = [(show_base(c['b']) if c['b'] else None, show_ref(c['r']), o) for (c, o), m in zip(kept, masks) if m & 1]
        run.oblige('corr:url-join(model vs urls.url_join)', not mism, 'first disagreements: %s' % mism[:4])
        run.count('url-join', len(kept), [(c['r']['k'], c['b'] is None, c['allow'], tuple(c['r'].get('segs', []))[:3],
                                           tuple((c['b'] or {}).get('segs', []))[-1:]) for c, _ in kept],
                  samples=[{'base': show_base(kept[0][0]['b']) if kept[0][0]['b'] else None, 'ref': show_ref(kept[0][0]['r']), 'impl': kept[0][1]}])
        run.stream_info('url-join', rule='bases scheme://auth/segs (file/http/https, directory and file paths, empty path) x references '
                        'absolute / opaque (data:, one-letter scheme, digit-first) / relative with .. . empty segments / absolute path / '
                        'network path, with query or fragment, non-ASCII and reserved characters; distinct = shape x segments')
    except RuntimeError as exc:
        run.oblige('corr:url-join', False, str(exc))



# ================================================================================ fetch + consumers, direct

PRE_FETCH = HDR + 'Require Import WV.model.C20Fetch.\n'
EXC_OK = ['OSError', 'ValueError', 'KeyError', 'TimeoutError', 'FileNotFoundError', 'ConnectionResetError', 'RuntimeError',
          'AssertionError', 'ZeroDivisionError', 'EOFError', 'LookupError', 'TypeError', 'AttributeError', 'MemoryError',
          'RecursionError', 'StopIteration', 'UnicodeError', '_MyErr', 'NotImplementedError', 'IncompleteRead', 'zliberror']
EXC_BASE = ['KeyboardInterrupt', 'SystemExit', 'GeneratorExit']
# the errors the except clause of fetch() converts when they cross the with block: OSError and its subclasses,
# EOFError, http.client.HTTPException, zlib.error (what read() itself raises is converted at the call, any class)
EXC_IO = ['OSError', 'TimeoutError', 'FileNotFoundError', 'ConnectionResetError', 'EOFError', 'IncompleteRead', 'zliberror']
CONSUMERS = ['image', 'link-sheet', 'import-sheet', 'font-src', 'attachment', 'svg-use']
MIMES = ['absent', None, 'text/css', 'image/png', 'text/html', 'font/otf']


def coq_exn(cls):
    return '{| e_name := %s; e_msg := "boom"; e_is_exception := %s; e_is_io := %s |}' % (
        slit8(cls), blit(cls not in EXC_BASE), blit(cls in EXC_IO))


def coq_fret(fr):
    if fr['t'] == 'raise':
        return '(FRaise %s)' % coq_exn(fr['cls'])
    if fr['t'] == 'notdict':
        return 'FNotDict'
    f = fr.get('file')
    fo = 'None'
    if f:
        rd = '(ReadOk "GOOD")' if f['read'] == 'ok' else '(ReadRaises %s)' % coq_exn(f['read'])
        fo = '(Some {| fo_id := 1; fo_read := %s; fo_close_raises := %s |})' % (rd, blit(bool(f.get('close_raises'))))
    m = fr.get('mime', 'absent')
    mime = 'None' if m == 'absent' else '(Some %s)' % ostr(m)
    return '(FDict {| d_string := %s; d_file := %s; d_mime := %s; d_redirected := %s |})' % (
        '(Some "GOOD")' if fr.get('string') else 'None', fo, mime, ostr(fr.get('redirected')))


def coq_event(e):
    return {'called': lambda v: '(Called %s)' % slit8(v), 'read': lambda v: '(ReadEv %d)' % v,
            'closed': lambda v: '(Closed %d)' % v, 'closewarning': lambda v: '(CloseWarning %s)' % slit8(v)}[e[0]](e[1])


def gen_frets(rng, n):
    out = []
    for k in range(6):
        for cls in EXC_OK + EXC_BASE:
            out.append({'consumer': k, 'fret': {'t': 'raise', 'cls': cls}})
        for v in ['none', 'list', 'str', 'int']:
            out.append({'consumer': k, 'fret': {'t': 'notdict', 'v': v}})
        for mime in MIMES:
            out.append({'consumer': k, 'fret': {'t': 'dict', 'string': True, 'mime': mime}})
            out.append({'consumer': k, 'fret': {'t': 'dict', 'mime': mime}})                       # no data key at all
            out.append({'consumer': k, 'fret': {'t': 'dict', 'string': True, 'mime': mime,
                                                'file': {'read': 'ok'}}})                            # both keys
            for rd in ['ok', 'OSError', 'TimeoutError', 'EOFError', 'KeyboardInterrupt', 'ValueError', 'IncompleteRead', 'zliberror',
                       '_MyErr', 'StopIteration']:
                for cr in (False, True):
                    out.append({'consumer': k, 'fret': {'t': 'dict', 'mime': mime, 'file': {'read': rd, 'close_raises': cr}}})
    while len(out) < n:
        k = rng.randrange(6)
        fr = {'t': 'dict', 'mime': rng.choice(MIMES)}
        if rng.random() < 0.5:
            fr['string'] = True
        if rng.random() < 0.7:
            fr['file'] = {'read': rng.choice(['ok', 'ok'] + EXC_OK + EXC_BASE), 'close_raises': rng.random() < 0.3}
        if rng.random() < 0.3:
            fr['redirected'] = rng.choice(['http://x/other', 'file:///nonexistent-c20/z.png', 'data:,x'])
        out.append({'consumer': k, 'fret': fr})
    for i, c in enumerate(out):
        c['n'] = i
    return out


# F98 (stream errors) and F230 (an Exception of any other class raised by read()) are repaired: both must hold
READ_ESCAPE_SIG = 'fetch-body-read-other-error-escapes'


def stream_consume(run, rng, n):
    cases = gen_frets(rng, n)
    outs = common.run_impl('impl_c20', 'consume_direct', cases, limit=60)
    coq, kept = [], []
    for c, (st, o) in zip(cases, outs):
        if st != 'ok':
            run.oblige('corr:consume-direct:harness', False, 'worker failed on %s: %s' % (c, o))
            continue
        coq.append('(%d%%nat, %s, (%d%%nat, %s, %s, %s))' % (
            c['consumer'], coq_fret(c['fret']), o['code'], slit8(o['name']), lst(coq_event(e) for e in o['events']),
            blit(o['logged'])))
        kept.append((c, o))
    try:
        masks = common.eval_cases('c20consume', PRE_FETCH, 'nat * fret * (nat * string * list event * bool)', coq, 'consume_judge')
        mism = [(c, o) for (c, o), m in zip(kept, masks) if m & 1]
        run.oblige('corr:consume-direct(model of fetch + consumers vs the real ones)', not mism,
                   'first disagreements: %s' % mism[:3])
        seen = set()
        for (c, o), m in zip(kept, masks):
            if m & 2:
                key = (c['consumer'], c['fret']['t'])
                if key in seen:
                    continue
                seen.add(key)
                fr = c['fret']
                sig = READ_ESCAPE_SIG if fr['t'] == 'dict' else 'fetcher-exception-escapes'
                run.fail('%s: an Exception raised by %s escapes as %s instead of being logged and skipped' % (
                    CONSUMERS[c['consumer']], 'file_obj.read()' if fr['t'] == 'dict' else 'the fetcher', o['name']),
                    {'stream': 'consume-direct', 'case': c, 'impl': o}, signature=sig)
        run.count('consume-direct', len(kept), [(c['consumer'], json.dumps(c['fret'], sort_keys=True)) for c, _ in kept],
                  samples=[{'case': kept[3][0], 'impl': kept[3][1]}])
        run.stream_info('consume-direct', rule='6 consumers (get_image_from_uri, find_stylesheets link, @import, add_font_face, '
                        'write_pdf_attachment, svg get_use_tree) x fetchers that raise each of %d exception classes (3 outside Exception), return '
                        'a non-dict, or a dict with/without string, file_obj (read ok / raising / close raising), mime_type '
                        'absent/None/values, redirected_url' % len(EXC_OK + EXC_BASE),
                        escapes=sum(1 for _, o in kept if o['code'] == 2))
    except RuntimeError as exc:
        run.oblige('corr:consume-direct', False, str(exc))



# ================================================================================ DiskCache, direct

PRE_CACHE = HDR + 'Require Import WV.model.C20Cache.\n'
OBJ_KEYS = ['http://h0/a.png', 'http://h0/bad.png', 'http://h0/d/b.svg', 'data:image/png;base64,QUJD', 'file:///x/y.jpg']
BYTES_KEYS = ['5d41402abc4b2a76b9719d911017c592-source-', '5d41402abc4b2a76b9719d911017c592-stream-', 'aa-streamalpha-96', 'k-source-300']


def gen_cache_ops(rng):
    undisciplined = rng.random() < 0.12
    reopen = rng.random() < 0.3
    ops = []
    nobj = itertools.count(1)
    for _ in range(rng.choice([2, 3, 5, 8, 12, 16])):
        r = rng.random()
        if r < 0.4:
            if rng.random() < 0.6:
                k = rng.choice(OBJ_KEYS)
                v = ['o', None if rng.random() < 0.5 else next(nobj)]
                if undisciplined and rng.random() < 0.3:
                    v = ['b', rng.choice(['PNGDATA', '', 'x'])]
            else:
                k = rng.choice(BYTES_KEYS)
                v = ['b', rng.choice(['PNGDATA', 'IDAT1', '', 'abc'])]
                if undisciplined and rng.random() < 0.3:
                    v = ['o', None if rng.random() < 0.5 else next(nobj)]
            ops.append(['set', k, v])
        elif r < 0.7:
            ops.append(['get', rng.choice(OBJ_KEYS + BYTES_KEYS)])
        elif r < 0.93 or not reopen:
            ops.append(['in', rng.choice(OBJ_KEYS + BYTES_KEYS)])
        else:
            ops.append(['reopen'])
    # the pattern of a failed image used twice, always present
    if rng.random() < 0.5:
        k = rng.choice(OBJ_KEYS)
        ops += [['in', k], ['set', k, ['o', None]], ['in', k], ['get', k], ['in', k], ['get', k]]
    return ops


def cache_disciplined(ops):
    for o in ops:
        if o[0] == 'reopen':
            return False
        if o[0] == 'set' and (o[2][0] == 'b') != (o[1] in BYTES_KEYS):
            return False
    return True


def coq_cvalue(v):
    if v[0] == 'b':
        return '(VBytes %s)' % slit8(v[1])
    return '(VObj None)' if v[1] is None else '(VObj (Some %d%%nat))' % v[1]


def coq_cop(o):
    if o[0] == 'set':
        return '(OSet %s %s)' % (slit8(o[1]), coq_cvalue(o[2]))
    if o[0] == 'get':
        return '(OGet %s)' % slit8(o[1])
    if o[0] == 'in':
        return '(OContains %s)' % slit8(o[1])
    return 'OReopen'


def coq_cobs(o):
    if o[0] == 'set':
        return 'ObsSet'
    if o[0] == 'in':
        return '(ObsIn %s)' % blit(o[1])
    if isinstance(o[1], str):
        if o[1] in ('err:FileNotFoundError', 'err:KeyError'):
            return '(ObsGet None)'
        return '(ObsGet (Some (VBytes %s)))' % slit8('<<%s>>' % o[1])
    return '(ObsGet (Some %s))' % coq_cvalue(o[1])


def stream_cache(run, rng, n):
    cases = [{'ops': [['in', 'u'], ['set', 'u', ['o', None]], ['in', 'u'], ['get', 'u']]},
             {'ops': [['set', 'k-source-', ['b', 'PNG']], ['get', 'k-source-'], ['reopen'], ['get', 'k-source-'], ['in', 'k-source-']]},
             {'ops': [['get', 'never']]}]
    while len(cases) < n:
        cases.append({'ops': gen_cache_ops(rng)})
    outs = common.run_impl('impl_c20', 'diskcache_ops', cases, limit=60)
    coq, kept = [], []
    for c, (st, o) in zip(cases, outs):
        if st != 'ok':
            run.fail('DiskCache operation sequence raised outside __getitem__: %s' % (o,), {'stream': 'diskcache-ops', 'case': c},
                     signature='diskcache-ops-raise')
            continue
        coq.append('(%s, %s, %s)' % (lst(coq_cop(x) for x in c['ops']), lst(coq_cobs(x) for x in o), blit(cache_disciplined(c['ops']))))
        kept.append((c, o))
    try:
        masks = common.eval_cases('c20cache', PRE_CACHE, 'list op * list obs * bool', coq, 'cache_judge')
        mism = [(c, o) for (c, o), m in zip(kept, masks) if m & 1]
        run.oblige('corr:diskcache-ops(model of DiskCache vs document.DiskCache in a temp folder)', not mism,
                   'first disagreements: %s' % mism[:2])
        for (c, o), m in zip(kept, masks):
            if m & 2:
                run.fail('a DiskCache does not behave like a dict on this sequence of set/get/in (None is a value): real %s' % (o,),
                         {'stream': 'diskcache-ops', 'case': c, 'impl': o}, signature='diskcache-differs-from-dict')
                break
        run.count('diskcache-ops', len(kept), [json.dumps(c['ops']) for c, _ in kept], samples=[{'case': kept[0][0], 'impl': kept[0][1]}])
        run.stream_info('diskcache-ops', rule='sequences of 2..22 set/get/in/reopen on a real DiskCache: object keys (URLs) holding objects or '
                        'None, bytes keys holding bytes, 12% undisciplined (same key both layers), 30% with a second instance on the '
                        'same folder; half end with "failed image used twice"', disciplined=sum(1 for c, _ in kept if cache_disciplined(c['ops'])),
                        with_none=sum(1 for c, _ in kept if any(o[0] == 'set' and o[2] == ['o', None] for o in c['ops'])))
    except RuntimeError as exc:
        run.oblige('corr:diskcache-ops', False, str(exc))


# ================================================================================ documents

PRE_DOC = HDR + 'Require Import WV.model.C20Url WV.model.C20Doc.\nOpen Scope Z_scope.\n'
from urllib.parse import quote as _q
SAFE = "/:?#[]@!$&'()*+,;=~%"
MODES = ['raise', 'empty', 'trunc', 'wrongtype', 'html']
DOC_NAMES = ['a', 'b1', 'img', 'sub', 'x.y', 'r-2', 'd_3', 'café', 'sp ace', 'p%20q', 'A&B']


def abs_string(t):
    if 'opaque' in t:
        return t['opaque']
    return _q(show_base(t) + t.get('sfx', ''), safe=SAFE)


SPELL_COUNTS = {}


def spell(rng, ctx, t):
    """a reference that resolves to target t from the context base ctx (None = no hierarchical base)"""
    r = _spell(rng, ctx, t)
    SPELL_COUNTS[r['k']] = SPELL_COUNTS.get(r['k'], 0) + 1
    return r


def _spell(rng, ctx, t):
    if 'opaque' in t:
        return {'k': 'opaque', 's': t['opaque']}
    full = {'k': 'abs', 'b': {'scheme': t['scheme'], 'auth': t['auth'], 'segs': list(t['segs'])}, 'sfx': t.get('sfx', '')}
    if ctx is None or ctx['scheme'] != t['scheme']:
        return full
    opts = ['abs']
    if ctx['auth'] != t['auth']:
        if t['auth']:
            opts += ['net', 'net']
    else:
        opts += ['path', 'rel', 'rel', 'rel', 'rel']
    k = rng.choice(opts)
    if k == 'abs':
        return full
    if k == 'net':
        return {'k': 'net', 'auth': t['auth'], 'segs': list(t['segs']), 'sfx': t.get('sfx', '')}
    if k == 'path':
        return {'k': 'path', 'segs': list(t['segs']), 'sfx': t.get('sfx', '')}
    d = ctx['segs'][:-1]
    i = 0
    while i < len(d) and i < len(t['segs']) - 1 and d[i] == t['segs'][i]:
        i += 1
    segs = ['..'] * (len(d) - i) + t['segs'][i:]
    if not segs[0].startswith('.') and rng.random() < 0.2:
        segs = ['.'] + segs
    if ':' in segs[0]:
        segs = ['.'] + segs
    return {'k': 'rel', 'segs': segs, 'sfx': t.get('sfx', '')}


class DocGen:
    def __init__(self, rng, nres, file_images=False, repeat=False):
        self.rng, self.budget, self.file_images, self.repeat = rng, nres, file_images, repeat
        self.ids = itertools.count(1)
        self.nraster = itertools.count(1)
        self.world = {}            # abs -> entry {t(arget), kind, content...}
        self.order = []
        self.uniq = itertools.count(1)
        E = gen_base(rng, rng.choice(['http', 'http', 'https', 'file']))
        if not E['segs'] or E['segs'][-1] == '':
            E['segs'] = (E['segs'][:-1] if E['segs'] else []) + ['doc.html']
        self.E = E
        self.hosts = [E['auth'], E['auth'], E['auth'], 'h7', 'cdn.example:81']

    def target(self, ctx, ext, raster=False, allow_data=True):
        rng = self.rng
        r = rng.random()
        n = next(self.uniq)
        name = '%s%d%s' % (rng.choice(DOC_NAMES), n, ext)
        if allow_data and r < 0.08:
            return {'opaque': 'data:%s;base64,QUJD%d' % ({'.png': 'image/png', '.css': 'text/css', '.svg': 'image/svg+xml',
                                                       '.otf': 'font/otf', '.bin': 'application/octet-stream',
                                                       '.jpg': 'image/jpeg'}.get(ext, 'text/plain'), n)}
        base = ctx or self.E
        scheme, auth = base['scheme'], base['auth']
        d = list(base['segs'][:-1])
        r = rng.random()
        if r < 0.35:
            segs = d + [name]
        elif r < 0.55:
            segs = d + [rng.choice(DOC_NAMES[:7]), name]
        elif r < 0.7 and d:
            segs = d[:-1] + [name]
        elif r < 0.8:
            segs = ['root', name]
        elif r < 0.9:
            auth = rng.choice(self.hosts)
            segs = [rng.choice(DOC_NAMES[:5]), name]
        else:
            scheme = rng.choice(['http', 'https', 'file'])
            auth = '' if scheme == 'file' else rng.choice(self.hosts[2:])
            segs = ['nonexistent-c20', name] if scheme == 'file' else [name]
        if scheme == 'file' and raster and not self.file_images:
            scheme, auth = 'http', 'h8'
        if scheme != 'file' and not auth:
            auth = 'h8'
        sfx = rng.choice(['', '', '', '', '', '?v=1'])
        return {'scheme': scheme, 'auth': auth, 'segs': segs, 'sfx': sfx}

    def add(self, t, entry):
        a = abs_string(t)
        entry.update(t=t, abs=a)
        self.world[a] = entry
        self.order.append(a)
        return a

    def ctx_of(self, t):
        return None if 'opaque' in t else {'scheme': t['scheme'], 'auth': t['auth'], 'segs': [_q(x, safe=SAFE) for x in t['segs']]}

    # --- images
    def image(self, ctx, kinds, depth=0, reuse=True):
        rng = self.rng
        self.budget -= 1
        existing = [a for a, e in self.world.items() if e['kind'] == 'image' and (depth == 0 or e['fmt'] != 'svg')]
        if reuse and existing and rng.random() < 0.2:
            a = rng.choice(existing)
            e = self.world[a]
            return {'ref': spell(rng, ctx, e['t']), 'abs': a, 'fmt': e['fmt'], 'n': e.get('n'), 'kids': copy.deepcopy(e.get('kids', []))}
        fmt = rng.choice(['png', 'png', 'png', 'jpeg', 'svg'] if depth < 2 else ['png'])
        if fmt == 'svg':
            t = self.target(ctx, '.svg')
            e = {'kind': 'image', 'fmt': 'svg', 'kids': []}
            a = self.add(t, e)
            for _ in range(rng.choice([0, 1, 1, 2])):
                if self.budget <= 0:
                    break
                if rng.random() < 0.75:
                    k = self.image(self.ctx_of(t), None, depth + 1)
                    k['t'] = 'svgimage'
                    e['kids'].append(k)
                elif kinds == 'top':
                    self.budget -= 1
                    ut = self.target(self.ctx_of(t), '.svg', allow_data=False)
                    ut['sfx'] = '#frag'
                    ua = self.add(ut, {'kind': 'use'})
                    e['kids'].append({'t': 'svguse', 'ref': spell(rng, self.ctx_of(t), ut), 'abs': ua})
            return {'ref': spell(rng, ctx, t), 'abs': a, 'fmt': 'svg', 'kids': copy.deepcopy(e['kids'])}
        t = self.target(ctx, '.png' if fmt == 'png' else '.jpg', raster=True)
        n = next(self.nraster)
        a = self.add(t, {'kind': 'image', 'fmt': fmt, 'n': n})
        return {'ref': spell(rng, ctx, t), 'abs': a, 'fmt': fmt, 'n': n, 'kids': []}

    # --- sheets
    def sheet_items(self, ctx, depth):
        rng = self.rng
        items = []
        for _ in range(rng.choice([1, 2, 2, 3, 4])):
            if self.budget <= 0:
                break
            r = rng.random()
            if r < 0.3 and depth < 3:
                self.budget -= 1
                t = self.target(ctx, '.css')
                e = {'kind': 'sheet', 'kids': []}
                a = self.add(t, e)
                e['kids'] = self.sheet_items(self.ctx_of(t), depth + 1)
                items.append({'t': 'import', 'ref': spell(rng, ctx, t), 'abs': a, 'form': rng.choice(['url', 'string']),
                              'media': rng.choice([None, None, None, 'print', 'all', 'screen']), 'kids': e['kids']})
            elif r < 0.5:
                items.append({'t': 'rule', 'id': next(self.ids)})
            elif r < 0.7:
                srcs = []
                for _ in range(rng.choice([1, 1, 2, 3])):
                    self.budget -= 1
                    t = self.target(ctx, '.otf')
                    a = self.add(t, {'kind': 'font'})
                    srcs.append({'ref': spell(rng, ctx, t), 'abs': a})
                items.append({'t': 'font', 'id': next(self.ids), 'srcs': srcs})
            else:
                im = self.image(ctx, 'css')
                im.update(t=rng.choice(['bg', 'bg', 'lsi', 'content']), id=next(self.ids))
                items.append(im)
        if rng.random() < 0.6:
            # imports first (valid position) most of the time
            items.sort(key=lambda k: 0 if k['t'] == 'import' else 1)
        return items

    def doc(self):
        rng = self.rng
        items = []
        while self.budget > 0:
            r = rng.random()
            if r < 0.25:
                self.budget -= 1
                t = self.target(self.E, '.css')
                e = {'kind': 'sheet', 'kids': []}
                a = self.add(t, e)
                e['kids'] = self.sheet_items(self.ctx_of(t), 1)
                items.append({'t': 'link', 'ref': spell(rng, self.E, t), 'abs': a, 'kids': e['kids']})
            elif r < 0.4:
                items.append({'t': 'style', 'kids': self.sheet_items(self.E, 1)})
            elif r < 0.7:
                im = self.image(self.E, 'top')
                im.update(t=rng.choice(['img', 'img', 'img', 'object', 'embed']), id=next(self.ids),
                          alt=rng.choice(['ALT', 'ALT', '', None]))
                if im['t'] != 'img':
                    im['alt'] = None
                items.append(im)
            elif r < 0.88:
                self.budget -= 1
                kind = rng.choice(['attlink', 'attanchor', 'attanchor', 'attopt'])
                existing = [a for a, e in self.world.items() if e['kind'] == 'attach']
                if existing and rng.random() < 0.3:
                    a = rng.choice(existing)
                    t = self.world[a]['t']
                else:
                    t = self.target(self.E, '.bin', allow_data=False)
                    a = self.add(t, {'kind': 'attach'})
                ref = spell(rng, self.E, t) if kind != 'attopt' else spell(rng, None, t)
                items.append({'t': kind, 'id': next(self.ids), 'ref': ref, 'abs': a})
            else:
                t = self.target(self.E, rng.choice(['.ico', '.css', '.js', '.html', '.mp4']), allow_data=False)
                items.append({'t': 'nofetch', 'form': rng.choice(['icon', 'altsheet', 'screenlink', 'typelink', 'screenimport',
                                                                  'script', 'iframe', 'a', 'video', 'prefetch']),
                              'ref': spell(rng, self.E, t), 'abs': abs_string(t)})
        self.repeated = None
        if self.repeat:
            self.repeat_image(items)
        base_param, base_el = show_base(self.E), None
        if rng.random() < 0.2:
            base_param, base_el = show_base(gen_base(rng, 'http')), show_base(self.E)
        return {'base': base_param, 'base_el': base_el, 'E': self.E, 'items': items}

    def repeat_image(self, items):
        """the same image URL used several times in one render: <img> twice, <img> + background +
        list-style-image + content:url(), next to images that load"""
        rng = self.rng
        existing = [a for a, e in self.world.items() if e['kind'] == 'image']
        if existing and rng.random() < 0.7:
            a = rng.choice(existing)
        else:
            im = self.image(self.E, 'top', reuse=False)
            im.update(t='img', id=next(self.ids), alt=rng.choice(['ALT', '', None]))
            items.append(im)
            a = im['abs']
        e = self.world[a]
        self.repeated = a

        def ref_to():
            return {'ref': spell(rng, self.E, e['t']), 'abs': a, 'fmt': e['fmt'], 'n': e.get('n'),
                    'kids': copy.deepcopy(e.get('kids', []))}
        css = []
        for _ in range(rng.choice([1, 2, 2, 3, 4])):
            im = ref_to()
            k = rng.choice(['img', 'img', 'object', 'bg', 'lsi', 'content'])
            if k in ('img', 'object'):
                im.update(t=k, id=next(self.ids), alt=rng.choice(['ALT', 'ALT', '', None]) if k == 'img' else None)
                if k == 'img' and rng.random() < 0.4:
                    im['orient'] = 1           # image-orientation: 90deg - a cache key of its own
                items.insert(rng.randrange(len(items) + 1), im)
            else:
                im.update(t=k, id=next(self.ids))
                css.append(im)
        if css:
            items.append({'t': 'style', 'kids': css})
        if rng.random() < 0.5:          # and an image that loads, after the repeated one
            im = self.image(self.E, 'top', reuse=False)
            im.update(t='img', id=next(self.ids), alt='ALT')
            items.append(im)


def ref_str(r):
    return show_ref(r)


def to_impl_doc(d):
    """the JSON the implementation side wants: refs as strings"""
    def conv(x):
        if isinstance(x, list):
            return [conv(y) for y in x]
        if isinstance(x, dict):
            if 'k' in x and ('segs' in x or 'b' in x or 's' in x):
                return ref_str(x)
            return {k: conv(v) for k, v in x.items() if k not in ('E',)}
        return x
    out = conv(d)
    out['opt_attachments'] = [{'abs': it['abs'], 'removed': it.get('removed', False), 'as': 'object' if it['id'] % 2 else 'string'}
                              for it in d['items'] if it['t'] == 'attopt']
    out['items'] = [it for it in out['items'] if it['t'] != 'attopt']
    return out


# --- Coq printing
KIND = {'img': 'KImg', 'object': 'KObject', 'embed': 'KEmbed', 'bg': 'KBg', 'lsi': 'KLsi', 'content': 'KContent'}


def coq_alt(a):
    return 'AltNone' if a is None else ('AltEmpty' if a == '' else 'AltText')


def coq_oref(it):
    return 'None' if it.get('removed') else '(Some %s)' % coq_ref(it['ref'])


def coq_sitems(kids):
    out = []
    for k in kids:
        t = k['t']
        if t == 'rule':
            out.append('SRule %d' % k['id'])
        elif t == 'import':
            if not k.get('removed'):
                out.append('SImport %s %s' % (coq_ref(k['ref']), blit(k['media'] in (None, 'print', 'all'))))
        elif t == 'font':
            out.append('SFont %d %s' % (k['id'], lst(coq_ref(s['ref']) for s in k['srcs'] if not s.get('removed'))))
        else:
            out.append('SImage %s %d %s' % (KIND[t], k['id'], coq_oref(k)))
    return lst(out)


def coq_vrefs(kids):
    return lst(('VImage %s' if k['t'] == 'svgimage' else 'VUse %s') % coq_ref(k['ref']) for k in kids if not k.get('removed'))


def coq_aurl(t):
    if 'opaque' in t:
        return '(AOpaque %s)' % slit8(t['opaque'])
    return '(AHier %s %s)' % (coq_base(t), slit8(t.get('sfx', '')))


def coq_doc(d):
    items = []
    for it in d['items']:
        t = it['t']
        if t == 'link':
            if not it.get('removed'):
                items.append('ILink %s' % coq_ref(it['ref']))
        elif t == 'style':
            items.append('IStyle %s' % coq_sitems(it['kids']))
        elif t in ('img', 'object', 'embed'):
            items.append('IImage %s %d %s %s %d%%nat' % (KIND[t], it['id'], coq_oref(it), coq_alt(it.get('alt')), it.get('orient', 0)))
        elif t in ('attlink', 'attanchor', 'attopt'):
            if not it.get('removed'):
                items.append('IAttach %s %d %s' % ({'attlink': 'ALink', 'attanchor': 'AAnchor', 'attopt': 'AOption'}[t], it['id'], coq_ref(it['ref'])))
        else:
            items.append('INoFetch %s' % coq_ref(it['ref']))
    return '{| d_base := Some %s; d_items := %s |}' % (coq_base(d['E']), lst(items))


def topo_world(gen, d):
    """world entries in dependency order (containers before what they reference)"""
    kids_of = {}

    def sheet(abs_, kids):
        for k in kids:
            if k['t'] == 'import':
                kids_of.setdefault(abs_, []).append(k['abs'])
                sheet(k['abs'], k['kids'])
            elif k['t'] in ('bg', 'lsi', 'content'):
                image(k)

    def image(k):
        for v in k.get('kids', []):
            if v['t'] == 'svgimage':
                kids_of.setdefault(k['abs'], []).append(v['abs'])
                image(v)

    for it in d['items']:
        if it['t'] == 'link':
            sheet(it['abs'], it['kids'])
        elif it['t'] == 'style':
            sheet(None, it['kids'])
        elif it['t'] in ('img', 'object', 'embed'):
            image(it)
    order, state = [], {}

    def visit(a):
        if state.get(a):
            return
        state[a] = 1
        for k in kids_of.get(a, []):
            visit(k)
        order.append(a)
    for a in gen.order:
        visit(a)
    return order[::-1]


def coq_world(gen, d):
    out = []
    for a in topo_world(gen, d):
        e = gen.world[a]
        kind = e['kind']
        if kind == 'sheet':
            c = 'CSheet %s' % coq_sitems(e['kids'])
        elif kind == 'image':
            c = 'CRaster' if e['fmt'] != 'svg' else 'CSvg %s' % coq_vrefs(e['kids'])
        elif kind == 'font':
            c = 'CFont'
        elif kind == 'use':
            c = 'CSvg []'
        else:
            c = 'CBlob'
        out.append('(%s, %s)' % (coq_aurl(e['t']), c))
    return lst(out)


def observed_codes(gen, d, res):
    """effects the implementation shows, as the model's codes (absent effects - fallback font, nothing shown -
    are implicit on both sides)"""
    codes = set()
    for key, v in res['effects'].items():
        n = int(key[1:])
        if key[0] == 'r' and v == 'applied':
            codes.add((0, n, ''))
        elif key[0] == 'f' and v == 'loaded':
            codes.add((1, n, ''))
        elif v == 'image':
            codes.add((3, n, ''))
        elif v == 'alt':
            codes.add((4, n, ''))
        elif v == 'fallback' and key[0] == 'i':
            codes.add((5, n, ''))
    size_to_url = {}
    for a, e in gen.world.items():
        if e['kind'] == 'image' and e['fmt'] != 'svg':
            size_to_url[(2 + e['n'], 3)] = a
            size_to_url[(3, 2 + e['n'])] = a          # the same image with image-orientation: 90deg
    for w, h in res['pdf']['images']:
        if (w, h) in size_to_url:
            codes.add((7, 0, size_to_url[(w, h)]))
        else:
            codes.add((7, 0, 'unknown image %sx%s' % (w, h)))
    for f in res['pdf']['files']:
        if f.startswith('att:'):
            codes.add((8, 0, f[4:]))
        else:
            codes.add((8, 0, 'unknown payload %r' % f[:30]))
    return sorted(codes)


def coq_doc_case(gen, d, fails, res):
    codes = observed_codes(gen, d, res)
    return '(%s, %s, %s, %s, %s)' % (
        coq_doc(d), coq_world(gen, d), lst('(%s, %s)' % (slit8(u), 'M' + {'raise': 'Raise', 'empty': 'Empty', 'trunc': 'Trunc',
                                                                          'wrongtype': 'WrongType', 'html': 'Html'}[m])
                                           for u, m in sorted(fails.items())),
        lst(slit8(u) for u in sorted(res['calls'])), lst('(%d, %d, %s)' % (a, b, slit8(c)) for a, b, c in codes))



def remove_urls(d, urls):
    """the document without the references to these URLs (deep copy, `removed` marks; see impl_c20.doc_html)"""
    d2 = copy.deepcopy(d)

    def vis(kids):
        for v in kids:
            if v['abs'] in urls:
                v['removed'] = True
            if v['t'] == 'svgimage':
                vis(v.get('kids', []))

    def sheet(kids):
        for k in kids:
            t = k['t']
            if t == 'import':
                if k['abs'] in urls:
                    k['removed'] = True
                sheet(k['kids'])
            elif t == 'font':
                for s_ in k['srcs']:
                    if s_['abs'] in urls:
                        s_['removed'] = True
            elif t in ('bg', 'lsi', 'content'):
                if k['abs'] in urls:
                    k['removed'] = True
                vis(k.get('kids', []))

    for it in d2['items']:
        t = it['t']
        if t in ('link', 'style'):
            if t == 'link' and it['abs'] in urls:
                it['removed'] = True
            sheet(it['kids'])
        elif t in ('img', 'object', 'embed'):
            if it['abs'] in urls:
                it['removed'] = True
            vis(it.get('kids', []))
        elif t in ('attlink', 'attanchor', 'attopt'):
            if it['abs'] in urls:
                it['removed'] = True
    return d2


OPTION_SETS = [{}, {}, {}, {'optimize_images': True}, {'pdf_variant': 'pdf/a-3u'},
               {'pdf_variant': 'pdf/ua-1'}, {'uncompressed_pdf': True}, {'optimize_images': True, 'dpi': 20000},
               {'pdf_variant': 'pdf/a-3u', 'jpeg_quality': 60}]
# the cache option: None (a private dict per render), a caller's dict shared by two renders, a folder
# (DiskCache: memory layer + files), the same folder for two renders, one DiskCache instance for two renders
CACHE_KINDS = [None, None, 'dict', 'folder', 'folder', 'folder-shared', 'diskcache']
TWO_RENDERS = ('dict', 'folder-shared', 'diskcache')


def pick_options(rng, gen, f):
    o = dict(rng.choice(OPTION_SETS))
    kinds = CACHE_KINDS
    if gen.repeated and gen.repeated in f:
        kinds = ['folder', 'folder', 'folder-shared', 'diskcache', 'dict', None]     # a failing URL used several times
    k = rng.choice(kinds)
    if k:
        o['cache_mode'] = k
    return o


def failure_sets(rng, gen, thorough):
    urls = list(gen.order)

    def mode_for(u, m=None):
        kind = gen.world[u]['kind']
        if kind == 'attach':
            return 'raise'
        return m or rng.choice(MODES)
    sets = [{}]
    for u in urls:                                     # each single failure
        if thorough:
            for m in (MODES if gen.world[u]['kind'] != 'attach' else ['raise']):
                sets.append({u: m})
        else:
            sets.append({u: mode_for(u)})
            if gen.world[u]['kind'] == 'image' and rng.random() < 0.5:
                sets.append({u: mode_for(u)})
    if thorough:
        for k in (2, 3, 4):
            combos = list(itertools.combinations(urls, k))
            if len(urls) > 7:              # all subsets up to size 4 for <= 7 resources, a sample beyond
                rng.shuffle(combos)
                combos = combos[:40 if k == 2 else 25]
            for c in combos:
                sets.append({u: mode_for(u) for u in c})
    else:
        for _ in range(min(4, len(urls))):
            k = rng.choice([2, 2, 3, 4])
            if len(urls) >= k:
                sets.append({u: mode_for(u) for u in rng.sample(urls, k)})
    if urls and rng.random() < 0.3:
        sets.append({u: mode_for(u) for u in urls})     # everything fails
    seen, out = set(), []
    for f in sets:
        key = json.dumps(f, sort_keys=True)
        if key not in seen:
            seen.add(key)
            out.append(f)
    return out


def expected_log_problems(gen, fails, res):
    """clause (c): every failure that the library can notice leaves a log record"""
    bad = []
    fetched = set(res['calls'])
    msgs = res['logs']
    dbg = res['debug_logs']
    n_att_fail = 0
    for u, m in fails.items():
        if u not in fetched:
            continue
        kind = gen.world[u]['kind']
        if kind == 'image':
            if not any(u in t and 'Failed to load image' in t for _, t in msgs):
                bad.append(('image failure not logged', u, m))
        elif kind == 'sheet':
            if m == 'raise':
                if not any(u in t and 'Failed to load stylesheet' in t for _, t in msgs):
                    bad.append(('stylesheet failure not logged', u, m))
            elif m in ('wrongtype', 'html'):
                if not any((u in t and 'Unsupported stylesheet type' in t) or 'Parse error' in t for _, t in msgs):
                    bad.append(('wrong-type stylesheet not logged', u, m))
        elif kind == 'font':
            if not any(u in t for _, t in dbg) and not any('cannot be loaded' in t for _, t in msgs):
                bad.append(('font failure not logged (not even at DEBUG)', u, m))
        elif kind == 'use':
            if not any(u in t and 'Failed to load SVG' in t for _, t in msgs):
                bad.append(('external <use> failure not logged', u, m))
        elif kind == 'attach':
            n_att_fail += res['calls'].count(u)
    if n_att_fail and sum(1 for _, t in msgs if 'Failed to load attachment' in t) < 1:
        bad.append(('attachment failure not logged', n_att_fail, 'raise'))
    for key, v in res.get('effects', {}).items():
        if key[0] == 'f' and v == 'fallback':
            # a face that could not be loaded at all is a WARNING
            if not any('cannot be loaded' in t and ("'f%s'" % key[1:]) in t for _, t in msgs):
                # the face may sit in a sheet that was never loaded: then there is nothing to warn about
                pass
    return bad


def stream_docs(run, rng, ndocs, thorough=False):
    t_cases = []
    SPELL_COUNTS.clear()
    for i in range(ndocs):
        nres = rng.choice([1, 2, 3, 4, 5, 6, 8, 10, 12, 12])
        gen = DocGen(random.Random(rng.getrandbits(48)), nres, repeat=(i % 2 == 0))
        d = gen.doc()
        fsets = failure_sets(rng, gen, thorough)
        if gen.repeated:
            # the repeated URL fails under every cache kind, alone and next to another failure
            others = [u for u in gen.order if u != gen.repeated and gen.world[u]['kind'] == 'image']
            for m in rng.sample(MODES, 3):
                fsets.append({gen.repeated: m})
            if others:
                fsets.append({gen.repeated: rng.choice(MODES), rng.choice(others): rng.choice(MODES)})
        for f in fsets:
            t_cases.append((gen, d, f, pick_options(rng, gen, f)))
    jobs = []
    for gen, d, f, opts in t_cases:
        o = dict(opts)
        jobs.append({'doc': to_impl_doc(d), 'fails': f, 'options': o, 'second_render': o.get('cache_mode') in TWO_RENDERS})
        jobs.append({'doc': to_impl_doc(remove_urls(d, set(f))), 'fails': {}, 'options': o})
    outs = common.run_impl('impl_c20', 'render_case', jobs, limit=120, chunksize=4)
    coq, kept = [], []
    stats = {'renders': len(jobs), 'fetches': 0, 'failing_fetches': 0, 'modes': {}, 'kinds': {}, 'schemes': {}, 'audit_events': 0,
             'reference_spellings': dict(SPELL_COUNTS), 'options': {}, 'cache_kinds': {}, 'repeated_url_failing': 0}
    reported = set()

    def fail_once(sig_key, what, data, signature=None):
        if sig_key in reported:
            return
        reported.add(sig_key)
        run.fail(what, data, signature=signature)

    for n, (gen, d, f, opts) in enumerate(t_cases):
        (st1, r1), (st2, r2) = outs[2 * n], outs[2 * n + 1]
        data = {'stream': 'docs', 'doc': jobs[2 * n]['doc'], 'doc_removed': jobs[2 * n + 1]['doc'], 'fails': f, 'options': opts}
        if st1 != 'ok' or st2 != 'ok':
            fail_once(('worker', st1, st2), 'render did not finish: %s / %s' % (st1, (r1 if st1 != 'ok' else r2)), data,
                      signature='render-timeout' if 'timeout' in (st1, st2) else None)
            continue
        if r1['exc'] or r2['exc']:
            e = r1['exc'] or r2['exc']
            fail_once(('exc', e['type'], e['site']), 'render with failing fetches %s raised %s at %s during %s: %s' % (
                sorted(set(f.values())), e['type'], e['site'], e['stage'], e['msg']), dict(data, exc=e),
                signature='crash:%s:%s' % (e['type'], e['site']))
            continue
        stats['fetches'] += len(r1['calls'])
        stats['audit_events'] += r1['audit_n']
        stats['options'][json.dumps(opts, sort_keys=True)] = stats['options'].get(json.dumps(opts, sort_keys=True), 0) + 1
        ck = str(opts.get('cache_mode'))
        stats['cache_kinds'][ck] = stats['cache_kinds'].get(ck, 0) + 1
        if gen.repeated and gen.repeated in f:
            stats['repeated_url_failing'] += 1
        for u, m in f.items():
            if u in r1['calls']:
                stats['failing_fetches'] += 1
                stats['modes'][m] = stats['modes'].get(m, 0) + 1
                k = gen.world[u]['kind']
                stats['kinds'][k] = stats['kinds'].get(k, 0) + 1
        for u in r1['calls']:
            sch = u.split(':', 1)[0]
            stats['schemes'][sch] = stats['schemes'].get(sch, 0) + 1
        # (a) model: fetches and effects, judged in Coq
        coq.append(coq_doc_case(gen, d, f, r1))
        kept.append((gen, d, f, opts, r1, data))
        # (b) failure = absence, on the implementation itself
        if r1['fp'] != r2['fp']:
            fail_once(('fp', tuple(sorted(set(f.values())))), 'layout/style fingerprint with failing %s differs from the document '
                      'without the reference(s)' % (sorted(f.items()),), data, signature='failure-differs-from-absence')
        elif r1['pdf']['images'] != r2['pdf']['images'] or r1['pdf']['files'] != r2['pdf']['files'] \
                or r1['pdf']['file_annots'] != r2['pdf']['file_annots']:
            fail_once(('pdf', tuple(sorted(set(f.values())))), 'PDF images/embedded files with failing %s differ from the document '
                      'without the reference(s): %s vs %s' % (sorted(f.items()), r1['pdf'], r2['pdf']), data,
                      signature='failure-differs-from-absence-pdf')
        # (c) logs
        lb = expected_log_problems(gen, f, r1)
        if lb:
            fail_once(('log', lb[0][0]), '%s: %s (%s)' % lb[0], dict(data, logs=r1['logs']), signature='failure-not-logged')
        # (d) streams handed out are closed (the external <use> call site is a listed finding of its own)
        unclosed = [u for u in r1['opened'] if u not in r1['closed']]
        if unclosed:
            fail_once(('unclosed',), 'file_obj of %s never closed' % unclosed[:3], data, signature='file-obj-not-closed')
        # (e) nothing opened behind the fetcher's back
        for r in (r1, r2):
            if r['audit_bad']:
                fail_once(('audit', r['audit_bad'][0][1], str(r['audit_bad'][0][2])[:40]),
                          'during %s the process did %s %r outside the fetcher' % tuple(r['audit_bad'][0][:3]),
                          dict(data, audit=r['audit_bad'][:5]), signature='opened-behind-the-fetcher')
        if r1['extra_args']:
            fail_once(('args',), 'url_fetcher called with extra arguments %s' % (r1['extra_args'][:2],), data)
        # two renders with the same dict / DiskCache instance / folder
        if 'calls_second' in r1:
            mode = opts.get('cache_mode')
            again = [u for u in r1['calls_second'] if gen.world.get(u, {}).get('kind') in ('image', 'use')]
            if mode in ('dict', 'diskcache') and again:
                fail_once(('cache2',), 'image or external <use> %s fetched again although the shared %s cache holds it' % (again[:2], mode), data,
                          signature='cache-not-used')
            if mode == 'folder-shared' and sorted(r1['calls_second']) != sorted(r1['calls']):
                fail_once(('cache2f',), 'second render on the same cache folder requests %s, the first one %s' % (
                    sorted(r1['calls_second']), sorted(r1['calls'])), data, signature='cache-folder-second-render-fetches')
            if r1.get('fp_second') != r1['fp']:
                fail_once(('cache2fp',), 'second render with the shared %s cache lays out differently' % mode, data,
                          signature='cache-changes-layout')
            p1, p2 = r1['pdf'], r1['pdf_second']
            if (p1['images'], p1['files'], p1['file_annots']) != (p2['images'], p2['files'], p2['file_annots']):
                fail_once(('cache2pdf',), 'second render with the shared %s cache writes other images/files: %s vs %s' % (mode, p1, p2),
                          data, signature='cache-changes-pdf')
        if r1['pdf']['problems'] or r2['pdf']['problems']:
            fail_once(('pdfstruct',), 'written PDF is structurally unsound: %s' % (r1['pdf']['problems'] or r2['pdf']['problems']), data)
    try:
        masks = common.eval_cases('c20doc', PRE_DOC, 'doc * world * list (string * mode) * list string * list (Z * Z * string)',
                                  coq, 'doc_judge', per_file=30)
        mism_f = [k for k, m in zip(kept, masks) if m & 1]
        mism_e = [k for k, m in zip(kept, masks) if m & 4]
        run.oblige('corr:docs-fetches(recorded url_fetcher calls = model expected_fetches)', not mism_f,
                   'first: fails=%s calls=%s' % ((mism_f[0][2], sorted(mism_f[0][4]['calls'])) if mism_f else ('', '')))
        run.oblige('corr:docs-effects(observed rules/fonts/images/painted/embedded = model effects)', not mism_e,
                   'first: fails=%s observed=%s' % ((mism_e[0][2], observed_codes(mism_e[0][0], mism_e[0][1], mism_e[0][4])) if mism_e else ('', '')))
        for k in (mism_f[:1] + mism_e[:1]):
            run.fail('the render requests/uses other resources than the model of the call sites predicts '
                     '(recorded calls %s)' % sorted(k[4]['calls']), k[5], signature='model-mismatch')
    except RuntimeError as exc:
        run.oblige('corr:docs', False, str(exc))
    run.count('docs', len(kept), [(json.dumps(f, sort_keys=True), hashlib.sha1(json.dumps(data['doc'], sort_keys=True).encode()).hexdigest()[:8])
                                  for _, _, f, _, _, data in kept],
              samples=[{'html': __import__('impl_c20').doc_html(kept[0][5]['doc'])[:700], 'fails': kept[0][2]}] if kept else [])
    run.stream_info('docs', rule='documents with 1..12 resources: linked sheets, @import nested <= 3 (url()/string form, media, valid and '
                    'late position), @font-face with 1-3 sources, img/object/embed, background/list-style/content images, SVG with inner '
                    '<image> and external <use>, link/anchor/option attachments, icon/script/iframe/alternate-sheet/screen-media '
                    'references that must not be fetched; URLs http/https/file/data, relative (.., ./, sub/), absolute path, network '
                    'path, query, non-ASCII and space; <base href>; x failure sets (each single URL, subsets up to 4, all) x modes '
                    'raise/empty/trunc/wrongtype/html x option sets; every case also rendered with the references removed',
                    documents=ndocs, **stats)


PROBES = [
    # (case, signature of the listed open finding it exhibits on the unchanged tree | None = must hold)
    ({'name': 'lazy-local'}, None),                     # F9 fixed
    ({'name': 'lazy-local-redirect'}, None),
    ({'name': 'lazy-local-shadow', 'how': 'string'}, None),     # the file exists with other content (round-4 seed)
    ({'name': 'lazy-local-shadow', 'how': 'file_obj'}, None),
    ({'name': 'lazy-local-shadow', 'how': 'string', 'same_size': True}, 'lazy-local-same-size-reread'),      # F257 open
    ({'name': 'lazy-local-shadow', 'how': 'file_obj', 'same_size': True}, 'lazy-local-same-size-reread'),
    ({'name': 'xhtml-image', 'mime': 'text/html'}, None),                  # F99 fixed
    ({'name': 'xhtml-image', 'mime': 'image/svg+xml'}, None),
    ({'name': 'svg-style-import'}, None),               # F100 fixed: must hold
    ({'name': 'svg-use-external'}, None),               # F101 fixed
    ({'name': 'css-import-cycle'}, None),               # F102 fixed: must hold
    ({'name': 'gzip-truncated-body'}, None),            # F98 fixed
    ({'name': 'redirected-sheet-base'}, None),
    ({'name': 'no-base-url'}, None),
    ({'name': 'default-fetcher-not-used'}, None),
] + [({'name': 'damaged-image-body', 'fmt': f, 'how': h, 'options': o}, None)
     for f in ('png', 'jpeg') for h in ('cut', 'zeroed')
     for o in ({}, {'optimize_images': True}, {'dpi': 10}, {'jpeg_quality': 30}, {'optimize_images': True, 'dpi': 10})]


def stream_probes(run, rng, n=None):
    outs = common.run_impl('impl_c20', 'probe', [c for c, _ in PROBES], limit=120, chunksize=1)
    held = 0
    for (c, sig), (st, o) in zip(PROBES, outs):
        if st != 'ok':
            run.fail('probe %s did not finish: %s %s' % (c['name'], st, o), {'stream': 'probe', 'case': c}, signature=sig)
            continue
        if o['bad']:
            run.fail('%s: %s' % (c['name'], o['bad']), {'stream': 'probe', 'case': c, 'facts': o}, signature=sig)
        else:
            held += 1
    run.count('probes', len(PROBES), [json.dumps(c, sort_keys=True) for c, _ in PROBES], samples=[PROBES[0][0]])
    run.stream_info('probes', rule='one hand-made situation each: the six repaired findings (file: image re-read at write time, XHTML as '
                    'image, external <use>, truncated gzip body, SVG @import, import cycle: all must hold), redirected sheet base, no base URL, '
                    'a fetcher that serves nothing (no fallback to urllib/files), damaged image bodies x 5 option sets', held=held)


def check(run):
    import time
    rng = random.Random(run.seed * 7919 + 20)
    thorough = run.tier == 'thorough'
    common.prove(run, 'C20', ['model/C20Url.vo', 'model/C20Fetch.vo', 'model/C20Doc.vo', 'model/C20Cache.vo'])
    run.trusted += ['Coq 8.16.1 kernel (coqc); vm_compute for the cases.v evaluation',
                    'harness: recording in-memory url_fetcher, document generator and its by-construction absolute URLs, '
                    'observation of effects (box tree, PDF image XObject sizes, embedded payloads) - Python',
                    'harness/pdfread.py (independent PDF reader) for the image / embedded-file facts',
                    'sys.addaudithook: sees what CPython raises audit events for (open, os.*, socket.*, urllib.Request, '
                    'subprocess); opens performed inside C libraries (fontconfig, FreeType, Pango) are invisible to it']
    run.assumptions += ['the models (C20Url, C20Fetch, C20Doc) are hand-written; they are tied to /repo by the correspondence streams '
                        'url-join, consume-direct and docs on every run, not by translation',
                        'world entries reference later entries only (acyclic imports / nested SVG): cycles are the listed finding '
                        'css-import-cycle-recursionerror',
                        'decoders are abstracted: which bytes Pillow / tinycss2 / fontconfig accept is observed, not modelled '
                        '(modes empty / header-truncated / wrong type / tag-soup HTML are rejected by all three on every run)',
                        'font-face rules are not repeated within a document (the font file digest short-cut of add_font_face is not modelled)',
                        'the clause "nothing is opened behind the fetcher" is monitored with audit hooks (render and write_pdf), not proved']
    t0 = time.time()
    stream_urls(run, rng, 4000 if thorough else 1200)
    t1 = time.time()
    stream_consume(run, rng, 1500 if thorough else 700)
    stream_cache(run, rng, 1500 if thorough else 500)
    t2 = time.time()
    stream_docs(run, rng, 60 if thorough else 24, thorough)
    t3 = time.time()
    stream_probes(run, rng)
    t4 = time.time()
    run.stream_info('url-join', wall_s=round(t1 - t0, 1))
    run.stream_info('consume-direct', wall_s=round(t2 - t1, 1))
    run.stream_info('docs', wall_s=round(t3 - t2, 1))
    run.stream_info('probes', wall_s=round(t4 - t3, 1))


def replay(data):
    d = data.get('data', {})
    st = d.get('stream')
    if st == 'docs':
        jobs = [{'doc': d['doc'], 'fails': d['fails'], 'options': dict(d['options']), 'want_fp': True,
                 'second_render': d['options'].get('cache_mode') in TWO_RENDERS},
                {'doc': d['doc_removed'], 'fails': {}, 'options': dict(d['options']), 'want_fp': True}]
        (s1, r1), (s2, r2) = common.run_impl('impl_c20', 'render_case', jobs, limit=120)
        bad = 0
        for s_, r in ((s1, r1), (s2, r2)):
            if s_ != 'ok' or r.get('exc'):
                print('replay: render problem', s_, r.get('exc') if isinstance(r, dict) else r)
                bad = 1
            elif r['audit_bad']:
                print('replay: opened behind the fetcher', r['audit_bad'][:5])
                bad = 1
        if not bad:
            print('replay: calls', sorted(r1['calls']))
            print('replay: logs', r1['logs'][:8])
            if r1['fp'] != r2['fp']:
                bad = 1
                a, b = r1['fp_full'], r2['fp_full']
                for x, y in zip(a, b):
                    if x != y:
                        print('replay: first differing box\n  failing: %s\n  removed: %s' % (x, y))
                        break
                else:
                    print('replay: box counts differ', len(a), len(b))
            if r1['pdf'] != r2['pdf']:
                print('replay: pdf facts', r1['pdf'], r2['pdf'])
                bad = 1
            unclosed = [u for u in r1['opened'] if u not in r1['closed']]
            if unclosed:
                print('replay: unclosed', unclosed)
        return bad
    if st == 'diskcache-ops':
        (s1, o), = common.run_impl('impl_c20', 'diskcache_ops', [d['case']])
        print('replay: real DiskCache observations', s1, o)
        m = common.eval_cases('c20cachereplay', PRE_CACHE, 'list op * list obs * bool',
                              ['(%s, %s, %s)' % (lst(coq_cop(x) for x in d['case']['ops']), lst(coq_cobs(x) for x in o),
                                                 blit(cache_disciplined(d['case']['ops'])))], 'cache_judge')
        print('replay: judge mask', m)
        return 1 if m[0] else 0
    if st == 'consume-direct':
        (s1, o), = common.run_impl('impl_c20', 'consume_direct', [d['case']])
        print('replay:', s1, o)
        return 1 if (s1 != 'ok' or o['code'] == 2) else 0
    if st == 'probe':
        (s1, o), = common.run_impl('impl_c20', 'probe', [d['case']], limit=120)
        print('replay:', s1, o)
        return 1 if (s1 != 'ok' or o.get('bad')) else 0
    print('nothing to replay for', st)
    return 0
