"""C12, grid part: placement (grid_layout step 1) and track sizing (_resolve_tracks_sizes) correspondence streams.

Called from p_c12.check:  grid_streams(run, rng, thorough)  and from p_c12.replay:  grid_replay(d).
Every case is a full render (impl_c12grid); the implementation's outputs (areas captured at the call of
_resolve_tracks_sizes, returned track sizes, rectangles of the rendered items) are written as Coq terms and judged
inside Coq by WV.model.C12Grid.place_judge / tracks_judge:
   bit 0 (1)  the hand-written model disagrees with the implementation (correspondence broken)
   bit 1 (2)  the implementation's output violates a clause of the specification written from css-grid;
              bits 2.. say which clause (see the model file)."""
import collections
from fractions import Fraction
import common

PRE = ('From Coq Require Import ZArith QArith List.\nRequire Import WV.model.C12Grid.\n'
       'Import ListNotations.\nOpen Scope Z_scope.\n')

PRIMES = [13, 17, 19, 23, 29, 31, 37]
FLOWS = ['row', 'column', 'row dense', 'column dense']

# F68-F75 and F196 are fixed in /repo: every crash, hang or specification failure is reported without signature.


# ------------------------------------------------------------------------------------------ Coq printers

def zl(n):
    return '(%d)' % n


def ql(fr):
    fr = Fraction(fr)
    return '(Qmake (%d) %d)' % (fr.numerator, fr.denominator)


def bl(b):
    return 'true' if b else 'false'


def gl_coq(g):
    if g == 'auto':
        return 'GAuto'
    k, n = g
    return '(%s (%d))' % ('GLine' if k == 'L' else 'GSpan', n)


def item_coq(it):
    return '(mkItem %s %s %s %s (%d))' % (gl_coq(it['cs']), gl_coq(it['ce']), gl_coq(it['rs']), gl_coq(it['re']),
                                          it['order'])


def pcase_coq(c):
    return '(mkPcase [%s] [%s] %s %s %s %s %s %s [%s])' % (
        '; '.join(zl(v) for v in c['cols']), '; '.join(zl(v) for v in c['rows']), zl(c['auto_col']),
        zl(c['auto_row']), bl('column' in c['flow']), bl('dense' in c['flow']), zl(c['gap_c']), zl(c['gap_r']),
        '; '.join(item_coq(it) for it in c['items']))


def impl_place_coq(st, o):
    if st == 'timeout':
        return 'ITimeout'
    if st == 'exc':
        site = tuple(o.get('site') or ())
        if site == ('UnboundLocalError', 'weasyprint/layout/grid.py', 'grid_layout'):
            return 'ICrashUnbound'
        if site[:2] == ('IndexError', 'weasyprint/layout/grid.py'):
            return 'ICrashIndex'
        return 'ICrashOther'
    pl = '; '.join('None' if p is None else 'Some (%d, %d, %d, %d)' % tuple(p) for p in o['placement'])
    rc = '; '.join('None' if r is None else 'Some (%s, %s, %s, %s)' % tuple(ql(v) for v in r) for r in o['rects'])
    return '(IOk [%s] [%s])' % (pl, rc)


def tspec_coq(t):
    k, v = t
    return '(%s %s)' % ({'px': 'SPx', 'pct': 'SPct', 'fr': 'SFr'}[k], ql(v))


def tcase_coq(c, o):
    items = '; '.join('(%d%%nat, %d%%nat, %d%%nat, %d%%nat, %s, %s)' % (
        it['x'], it['y'], it['w'], it['h'], ql(it['cw']), ql(it['chh'])) for it in c['items'])
    rects = '; '.join('(%s, %s, %s, %s)' % tuple(ql(v) for v in r) for r in o['rects'])
    return '(mkTcase [%s] [%s] %s %s %s %s %s %s [%s] [%s] [%s] [%s])' % (
        '; '.join(tspec_coq(t) for t in c['cols']), '; '.join(tspec_coq(t) for t in c['rows']),
        ql(c['width']), ql(c['height']), ql(c['gap_c']), ql(c['gap_r']),
        bl(c['jc'] != 'start'), bl(c['ac'] != 'start'), items,
        '; '.join(ql(v) for v in o['cols']), '; '.join(ql(v) for v in o['rows']), rects)


# ---------------------------------------------------------------------------------- HTML of a case

def gl_css(g):
    if g == 'auto':
        return 'auto'
    k, n = g
    return ('%d' % n) if k == 'L' else ('span %d' % n)


def place_html(case):
    """case: dict(cols=[px], rows=[px], auto_col, auto_row, flow, width, gap_c, gap_r,
                   items=[dict(cs, ce, rs, re, order)]) ; a grid line is 'auto' | ['L', n] | ['S', n]."""
    st = ['display:grid', 'width:%dpx' % case['width'],
          'grid-auto-columns:%dpx' % case['auto_col'], 'grid-auto-rows:%dpx' % case['auto_row'],
          'grid-auto-flow:%s' % case['flow'], 'column-gap:%dpx' % case['gap_c'], 'row-gap:%dpx' % case['gap_r']]
    if case['cols']:
        st.append('grid-template-columns:' + ' '.join('%dpx' % c for c in case['cols']))
    if case['rows']:
        st.append('grid-template-rows:' + ' '.join('%dpx' % c for c in case['rows']))
    if case.get('extra'):
        st.append(case['extra'])
    items = []
    for i, it in enumerate(case['items']):
        s = 'grid-column-start:%s;grid-column-end:%s;grid-row-start:%s;grid-row-end:%s;order:%d' % (
            gl_css(it['cs']), gl_css(it['ce']), gl_css(it['rs']), gl_css(it['re']), it['order'])
        items.append('<div id=i%d style="%s"></div>' % (i, s))
    return ('<style>@page{size:4000px 4000px;margin:0}body{margin:0}#c{%s}</style><div id=c>%s</div>'
            % (';'.join(st), ''.join(items)))


def tracks_html(case):
    """case: dict(cols=[track], rows=[track], width, height, gap_c, gap_r, jc, ac,
                   items=[dict(x, y, w, h, cw, chh)])  track = ['px', n] | ['pct', n] | ['fr', 'a/b'];
    items are placed by explicit line numbers (x, y 0-based, spans w, h) and contain one fixed-size block
    (cw x chh px, 0 = none) so that min-content contributions are exactly known."""
    def tr(t):
        k, v = t
        if k == 'px':
            return '%dpx' % v
        if k == 'pct':
            return '%d%%' % v
        return '%sfr' % (repr(float(Fraction(v))))
    st = ['display:grid', 'width:%dpx' % case['width'], 'height:%dpx' % case['height'],
          'column-gap:%dpx' % case['gap_c'], 'row-gap:%dpx' % case['gap_r'],
          'grid-template-columns:' + ' '.join(tr(t) for t in case['cols']),
          'grid-template-rows:' + ' '.join(tr(t) for t in case['rows'])]
    if case['jc'] != 'normal':
        st.append('justify-content:' + case['jc'])
    if case['ac'] != 'normal':
        st.append('align-content:' + case['ac'])
    items = []
    for i, it in enumerate(case['items']):
        s = 'grid-column-start:%d;grid-column-end:span %d;grid-row-start:%d;grid-row-end:span %d' % (
            it['x'] + 1, it['w'], it['y'] + 1, it['h'])
        inner = ''
        if it['cw'] or it['chh']:
            inner = '<div style="width:%dpx;height:%dpx"></div>' % (it['cw'], it['chh'])
        items.append('<div id=i%d style="%s">%s</div>' % (i, s, inner))
    return ('<style>@page{size:4000px 4000px;margin:0}body{margin:0}#c{%s}</style><div id=c>%s</div>'
            % (';'.join(st), ''.join(items)))


# ------------------------------------------------------------------------------------------- generators

def gen_gline(rng, p_neg):
    r = rng.random()
    if r < 0.45:
        return 'auto'
    if r < 0.80:
        if rng.random() < p_neg:
            return ['L', rng.choice([-3, -2, -1])]
        return ['L', rng.choice([1, 1, 2, 2, 3, 3, 4, 5, 6, 7])]
    return ['S', rng.choice([1, 2, 2, 3])]


def gen_place_case(rng):
    nc, nr = rng.choice([0, 1, 2, 3, 3, 4, 5]), rng.choice([0, 1, 2, 3, 3, 4, 5])
    # a third of the documents use no negative line number at all (the negative ones meet known defects early)
    p_neg = rng.choice([0, 0.12, 0.3])
    items = []
    for _ in range(rng.choice([1, 2, 3, 3, 4, 4, 5, 6, 7, 8])):
        items.append(dict(cs=gen_gline(rng, p_neg), ce=gen_gline(rng, p_neg), rs=gen_gline(rng, p_neg),
                          re=gen_gline(rng, p_neg), order=rng.choice([0, 0, 0, 0, 1, -1, 2])))
    return dict(cols=rng.sample(PRIMES, nc), rows=rng.sample(PRIMES, nr), auto_col=41, auto_row=43,
                flow=rng.choice(FLOWS), width=rng.choice([300, 60]),
                gap_c=rng.choice([0, 3, 10]), gap_r=rng.choice([0, 5]), items=items)


def fixed_place_cases():
    """hand-written boundary cases replayed in every run (witnesses of the findings and of the Coq Examples)."""
    A = 'auto'
    def it(cs=A, ce=A, rs=A, re=A, order=0):
        return dict(cs=cs, ce=ce, rs=rs, re=re, order=order)
    base = dict(cols=[13, 17, 19], rows=[23, 29], auto_col=41, auto_row=43, flow='row', width=300, gap_c=3, gap_r=5)
    out = []
    for flow in FLOWS:
        out.append(dict(base, flow=flow, items=[it(cs=['L', 2], ce=['L', 4], rs=['L', 1]), it(), it(), it()]))
        out.append(dict(base, flow=flow, items=[it(rs=['L', 1])]))                       # locked to row 1, alone
        # css-grid 8.5 step 2: items locked to one axis only, in rows / columns that hold nothing else (F244)
        out.append(dict(base, flow=flow, items=[it(rs=['L', 2])]))
        out.append(dict(base, flow=flow, items=[it(cs=['L', 2])]))
        out.append(dict(base, flow=flow, items=[it(rs=['L', 2], cs=['S', 2]), it(cs=['L', 3], rs=['S', 2])]))
        out.append(dict(base, flow=flow, items=[it(cs=['L', 1], rs=['L', 1]), it(rs=['L', 2], ce=['S', 2]),
                                                it(cs=['L', 3], rs=['L', 3]), it(rs=['L', 4])]))
        out.append(dict(base, flow=flow, items=[it(cs=['L', -1], rs=['L', 1])]))         # negative line
        out.append(dict(base, flow=flow, items=[it(cs=['L', 1], rs=['L', -1]), it()]))   # negative row: dropped
        out.append(dict(base, flow=flow, items=[it(rs=['S', 2], cs=['L', 1])]))          # stale first_i: unbound
        out.append(dict(base, flow=flow, items=[it(), it(rs=['S', 2], cs=['L', 1])]))    # stale first_i: hang / ok
        out.append(dict(base, flow=flow, items=[it(rs=['S', 3])]))                       # span beyond the grid
        out.append(dict(base, flow=flow, cols=[13, 17, 19, 23],
                        items=[it(cs=['L', 2], rs=['L', 1]), it(cs=['S', 2]), it()]))    # sparse back-fill
        out.append(dict(base, flow=flow, items=[it(cs=['L', 3], rs=['L', -2])]))         # IndexError (column flow)
        out.append(dict(base, flow=flow, cols=[], rows=[], items=[it(), it(), it(cs=['L', 2])]))
        out.append(dict(base, flow=flow, items=[it(order=2), it(order=1), it(order=1), it(cs=['S', 2], order=0),
                                                it(rs=['S', 2], ce=['S', 2])]))
    return out


def gen_track(rng):
    r = rng.random()
    if r < 0.35:
        return ['px', rng.choice([0, 10, 20, 33, 50, 80, 120])]
    if r < 0.5:
        return ['pct', rng.choice([10, 25, 50])]
    return ['fr', rng.choice(['1/4', '1/2', '1', '2', '3'])]


def gen_tracks_case(rng):
    nc, nr = rng.randint(1, 5), rng.randint(1, 5)
    cols = [gen_track(rng) for _ in range(nc)]
    rows = [gen_track(rng) for _ in range(nr)]
    items = []
    content = rng.random() < 0.4
    for _ in range(rng.randint(0, 6)):
        x, y = rng.randrange(nc), rng.randrange(nr)
        w, h = min(rng.choice([1, 1, 1, 2, 3]), nc - x), min(rng.choice([1, 1, 1, 2]), nr - y)
        cw = chh = 0
        if content and w == 1 and h == 1 and rng.random() < 0.7:
            cw, chh = rng.choice([0, 15, 40, 90]), rng.choice([0, 12, 35, 70])
        items.append(dict(x=x, y=y, w=w, h=h, cw=cw, chh=chh))
    return dict(cols=cols, rows=rows, width=rng.choice([300, 300, 200, 100, 40]),
                height=rng.choice([200, 200, 120, 60, 30]),
                gap_c=rng.choice([0, 0, 5, 10, 20]), gap_r=rng.choice([0, 0, 4, 20]),
                jc=rng.choice(['normal', 'normal', 'start', 'stretch']),
                ac=rng.choice(['normal', 'normal', 'start', 'stretch']), items=items)


def fixed_tracks_cases():
    base = dict(width=300, height=200, gap_c=10, gap_r=10, jc='normal', ac='normal',
                rows=[['px', 50], ['fr', '1']],
                items=[dict(x=1, y=0, w=2, h=1, cw=0, chh=0), dict(x=0, y=0, w=1, h=1, cw=0, chh=0),
                       dict(x=0, y=1, w=1, h=1, cw=0, chh=0)])
    out = [dict(base, cols=[['px', 100], ['fr', '1'], ['fr', '2']])]
    for jc in ('normal', 'start'):
        out.append(dict(base, jc=jc, ac=jc, cols=[['fr', '1/4'], ['fr', '1/2'], ['px', 20]]))   # sum of fr < 1
        out.append(dict(base, jc=jc, ac=jc, cols=[['fr', '1/4'], ['fr', '1/4'], ['pct', 25]]))
        out.append(dict(base, jc=jc, ac=jc, cols=[['px', 200], ['px', 200], ['fr', '1']]))      # no free space
        out.append(dict(base, jc=jc, ac=jc, cols=[['fr', '1'], ['fr', '1'], ['fr', '3']],
                        items=[dict(x=0, y=0, w=1, h=1, cw=90, chh=70), dict(x=1, y=1, w=1, h=1, cw=40, chh=12)]))
    return out


# ---------------------------------------------------------------------------------------- classification

def item_class(it):
    def definite(s, e):
        return (s != 'auto' and s[0] == 'L') or (e != 'auto' and e[0] == 'L')
    return ('C' if definite(it['cs'], it['ce']) else 'c') + ('R' if definite(it['rs'], it['re']) else 'r')


def has_negative(c):
    return any(g != 'auto' and g[0] == 'L' and g[1] < 0 for it in c['items'] for g in (it['cs'], it['ce'], it['rs'], it['re']))


def place_signature(c, st, o, mask):
    """F68-F73 and F196 are fixed in /repo: no outcome of the placement stream is an accepted deviation any more."""
    return None


def tracks_signature(c, mask):
    """F74 and F75 are fixed in /repo: no outcome of the track stream is an accepted deviation any more."""
    return None


# ---------------------------------------------------------------------------------------------- streams

def run_place(cases):
    outs = common.run_impl('impl_c12grid', 'place', cases, limit=3)
    terms = ['(%s, %s)' % (pcase_coq(c), impl_place_coq(st, o)) for c, (st, o) in zip(cases, outs)]
    return outs, terms


def run_tracks(cases):
    outs = common.run_impl('impl_c12grid', 'tracks', cases, limit=20)
    return outs


def grid_streams(run, rng, thorough):
    # ---- stream grid-place
    n = 4000 if thorough else 400
    cases = fixed_place_cases()
    while len(cases) < n:
        cases.append(gen_place_case(rng))
    outs, terms = run_place(cases)
    try:
        masks = common.eval_cases('c12gridplace', PRE, 'pcase * impl_outcome', terms, 'place_judge')
        mism = [(c, st) for c, (st, o), m in zip(cases, outs, masks) if m & 1]
        run.oblige('corr:grid-place(model C12Grid.render_model vs full render)', not mism,
                   'first disagreements: %s' % [(c, st) for c, st in mism[:2]])
        for c, st in mism[:2]:
            run.fail('grid placement: implementation and model disagree', {'stream': 'grid-place', 'case': c,
                                                                           'status': st})
        seen_sig = set()
        unsigned = 0
        kinds = collections.Counter()
        for c, (st, o), m in zip(cases, outs, masks):
            kinds[st if st != 'exc' else 'exc:%s' % (o.get('type'),)] += 1
            if not m & 2:
                continue
            sig = place_signature(c, st, o, m)
            if sig in seen_sig and (sig is not None or unsigned >= 3):
                continue
            seen_sig.add(sig)
            unsigned += sig is None
            clause = ('crashed or hung' if m & 32 else 'overlap of an auto-placed item' if m & 8 else
                      'area differs from the line numbers' if m & 4 else
                      'rectangle differs from the area' if m & 16 else
                      'an item locked to an otherwise empty row / column does not start on the first line')
            run.fail('grid placement violates the specification (%s)' % clause,
                     {'stream': 'grid-place', 'case': c, 'mask': m, 'status': st,
                      'html': place_html(c), 'impl': o if st == 'ok' else {'exc': o}}, signature=sig)
        keys = [(c['flow'], tuple(sorted(collections.Counter(item_class(it) for it in c['items']).items())),
                 len(c['cols']) == 0, len(c['rows']) == 0, has_negative(c), st)
                for c, (st, o) in zip(cases, outs)]
        run.count('grid-place', len(cases), keys, samples=[{'case': cases[0], 'impl': outs[0][1]}])
        run.stream_info('grid-place', outcomes=dict(kinds), spec_failures=sum(1 for m in masks if m & 2),
                        rule='grids of 0..5 x 0..5 explicit px tracks with distinct prime sizes, 1..8 empty items whose '
                             'grid-row/column start/end are drawn from {auto, n in -3..7 except 0, span 1..3}, order in '
                             '{-1,0,1,2}, grid-auto-flow in {row, column, row dense, column dense}; 60 fixed boundary '
                             'cases first; distinct = (flow, multiset of item classes definite/locked/auto, no template '
                             'columns?, no template rows?, negative line?, outcome)')
    except RuntimeError as exc:
        run.oblige('corr:grid-place', False, str(exc))
    # ---- stream grid-tracks
    n = 3000 if thorough else 300
    cases = fixed_tracks_cases()
    while len(cases) < n:
        cases.append(gen_tracks_case(rng))
    outs = run_tracks(cases)
    terms, kept = [], []
    for c, (st, o) in zip(cases, outs):
        if st != 'ok':
            run.fail('grid track sizing: render %s' % ('timeout' if st == 'timeout' else 'raised %s' % (o.get('type'),)),
                     {'stream': 'grid-tracks', 'case': c, 'outcome': o, 'html': tracks_html(c)},
                     signature=('timeout' if st == 'timeout' else 'crash:%s' % (tuple(o['site']) if o.get('site') else None,)))
            continue
        if any(r is None for r in o['rects']):
            run.fail('grid track sizing: an item was not rendered', {'stream': 'grid-tracks', 'case': c,
                                                                      'html': tracks_html(c)})
            continue
        terms.append(tcase_coq(c, o))
        kept.append((c, o))
    try:
        masks = common.eval_cases('c12gridtracks', PRE, 'tcase', terms, 'tracks_judge')
        mism = [c for (c, o), m in zip(kept, masks) if m & 1]
        run.oblige('corr:grid-tracks(model C12Grid.resolve_tracks vs full render)', not mism,
                   'first disagreements: %s' % mism[:2])
        for c in mism[:2]:
            run.fail('grid track sizing: implementation and model disagree', {'stream': 'grid-tracks', 'case': c})
        seen_sig = set()
        unsigned = 0
        for (c, o), m in zip(kept, masks):
            if not m & 2:
                continue
            sig = tracks_signature(c, m)
            if sig in seen_sig and (sig is not None or unsigned >= 3):
                continue
            seen_sig.add(sig)
            unsigned += sig is None
            run.fail('grid track sizes violate css-grid 12.7 (fixed/percentage exact, fr tracks share the free space '
                     'in proportion, a factor sum below 1 leaves space unfilled)',
                     {'stream': 'grid-tracks', 'case': c, 'mask': m, 'html': tracks_html(c),
                      'impl': {'cols': [float(Fraction(v)) for v in o['cols']],
                               'rows': [float(Fraction(v)) for v in o['rows']]}}, signature=sig)
        def axis_key(tr):
            return (tuple(sorted(set(t[0] for t in tr))), sum(Fraction(t[1]) for t in tr if t[0] == 'fr') < 1)
        keys = [(axis_key(c['cols']), axis_key(c['rows']), c['jc'] != 'start', c['ac'] != 'start',
                 any(it['cw'] or it['chh'] for it in c['items']), c['width'], c['height']) for c, _ in kept]
        run.count('grid-tracks', len(kept), keys, samples=[{'case': kept[0][0], 'impl_cols': kept[0][1]['cols']}])
        run.stream_info('grid-tracks', spec_failures=sum(1 for m in masks if m & 2),
                        rule='1..5 x 1..5 tracks from {px in 0..120, % in 10/25/50, fr in 1/4,1/2,1,2,3}, definite width '
                             'and height, gaps 0..20, justify/align-content in {normal, start, stretch}, 0..6 items placed '
                             'by line numbers (spans 1..3), 40 % of the documents give 1x1 items a fixed-size inner block '
                             '(non-zero base sizes: the 1.4 loop freezes tracks); distinct = (track kinds per axis, '
                             'sum fr < 1?, stretch flags, content?, container size)')
    except RuntimeError as exc:
        run.oblige('corr:grid-tracks', False, str(exc))


def grid_replay(d):
    """d: the data dict of a grid violation; returns 1 when the case still fails."""
    c = d.get('case')
    if d.get('stream') == 'grid-place':
        outs, terms = run_place([c])
        masks = common.eval_cases('c12gridreplay', PRE, 'pcase * impl_outcome', terms, 'place_judge')
        print('replay grid-place: status %s, judge mask %s' % (outs[0][0], masks))
        return 1 if masks[0] else 0
    if d.get('stream') == 'grid-tracks':
        (st, o), = run_tracks([c])
        if st != 'ok' or any(r is None for r in o['rects']):
            print('replay grid-tracks:', st, o)
            return 1
        masks = common.eval_cases('c12gridreplay', PRE, 'tcase', [tcase_coq(c, o)], 'tracks_judge')
        print('replay grid-tracks: judge mask %s' % masks)
        return 1 if masks[0] else 0
    print('nothing to replay for', d.get('stream'))
    return 0
