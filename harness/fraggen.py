"""Generator of documents of the block/paragraph fragmentation grammar (the grammar of coq/model/Frag2.v):
nested blocks (depth <= 4), paragraphs of one-word lines, vertical margins (incl. negative), paddings, borders,
every break-before/after/inside value, orphans/widows 1..4, box-decoration-break: clone; integer metrics.
Returns (html, tree) with tree = ('lines', [ids]) | ('blk', st, kids, is_root)."""
import random

LETTERS = 'abcdefgh'          # exactly 1em wide in the test font
BV = ['page', 'avoid', 'left', 'right', 'auto', 'always', 'avoid-page', 'recto', 'verso', 'column', 'avoid-column']
BR = {'auto': 'BAuto', 'avoid': 'BAvoid', 'avoid-page': 'BAvoidPage', 'avoid-column': 'BAvoidColumn', 'page': 'BPage',
      'column': 'BColumn', 'left': 'BLeft', 'right': 'BRight', 'recto': 'BRecto', 'verso': 'BVerso'}
PAGE_HEIGHTS = [10, 20, 30, 50, 70, 100, 15, 25, 35]
ALL_FEATS = ('margin', 'pad', 'ow', 'break', 'clone')


def word(i):
    s = ''
    for _ in range(7):
        s += LETTERS[i % 8]
        i //= 8
    return s


def unword(w):
    n = 0
    for ch in reversed(w):
        n = n * 8 + LETTERS.index(ch)
    return n


def gen(rng, depth, counter, feats, o=1, w=1):
    st = {}
    css = []

    def put(k, cssname, vals, prob):
        if rng.random() < prob:
            v = rng.choice(vals)
            st[k] = v
            css.append('%s:%s' % (cssname, ('%dpx' % v) if isinstance(v, int) and not isinstance(v, bool) else v))
    if 'margin' in feats:
        put('mt', 'margin-top', [0, 5, 10, 20, -5], 0.3)
        put('mb', 'margin-bottom', [0, 5, 10, 20, -5], 0.3)
    if 'pad' in feats:
        put('pt', 'padding-top', [0, 3, 10], 0.2)
        put('pb', 'padding-bottom', [0, 3, 10], 0.2)
        if rng.random() < 0.2:
            v = rng.choice([1, 4]); st['bt'] = v; css.append('border-top:%dpx solid' % v)
        if rng.random() < 0.2:
            v = rng.choice([1, 4]); st['bb'] = v; css.append('border-bottom:%dpx solid' % v)
    if 'break' in feats:
        put('bf', 'break-before', BV, 0.15)
        put('ba', 'break-after', BV, 0.15)
        if rng.random() < 0.15:
            st['bi'] = rng.choice(['avoid', 'avoid-page', 'avoid-column'])
            css.append('break-inside:' + st['bi'])
    if 'clone' in feats and rng.random() < 0.1:
        st['clone'] = True
        css.append('box-decoration-break:clone')
    for k in ('bf', 'ba'):
        if st.get(k) == 'always':
            st[k] = 'page'
    if 'ow' in feats:
        if rng.random() < 0.2:
            o = rng.randint(1, 4); css.append('orphans:%d' % o)
        if rng.random() < 0.2:
            w = rng.randint(1, 4); css.append('widows:%d' % w)
    st['orphans'], st['widows'] = o, w       # inherited
    if depth >= 3 or rng.random() < 0.5:
        n = rng.choice([1, 1, 2, 3, 5, 8])
        ws = list(range(counter[0], counter[0] + n))
        counter[0] += n
        return ('<p style="%s">%s</p>' % (';'.join(css), ' '.join(word(i) for i in ws)),
                ('blk', st, [('lines', ws)], False))
    k = rng.choice([0, 1, 2, 3, 4])
    html = '<div style="%s">' % ';'.join(css)
    kids = []
    for _ in range(k):
        h, b = gen(rng, depth + 1, counter, feats, o, w)
        html += h
        kids.append(b)
    return html + '</div>', ('blk', st, kids, False)


def document(rng, feats=ALL_FEATS, heights=PAGE_HEIGHTS):
    H = rng.choice(heights)
    counter = [0]
    body = ''
    kids = []
    for _ in range(rng.choice([1, 2, 3, 5])):
        h, b = gen(rng, 0, counter, feats)
        body += h
        kids.append(b)
    html = ('<style>@page{size:100px %dpx; margin:0} body{margin:0;font-family:weasyprint;font-size:10px;'
            'line-height:10px} p{margin:0}</style>' % H) + body
    d = {'orphans': 1, 'widows': 1}
    root = ('blk', dict(d), [('blk', dict(d), kids, False)], True)   # html (root) > body
    return html, root, H, counter[0]


CSSNAME = {'mt': 'margin-top', 'mb': 'margin-bottom', 'pt': 'padding-top', 'pb': 'padding-bottom',
           'bf': 'break-before', 'ba': 'break-after', 'bi': 'break-inside'}


def padfit_document(rng):
    """Documents of the model grammar aimed at the SECOND layout of a child in _in_flow_layout: a block whose content
    fits in the room left on the page while its bottom padding / border does not, after earlier siblings on the
    page (in body, or in a container that starts the page), with break-inside: avoid on it or orphans / widows on its
    paragraph; all heights are multiples of 10 plus small decorations so that the boundary is met often."""
    H = rng.choice([40, 50, 60, 70, 80, 100])
    counter = [0]

    def node(st, content, o, w, set_o=None, set_w=None):
        css = []
        for k, v in st.items():
            if k in CSSNAME:
                css.append('%s:%s' % (CSSNAME[k], ('%dpx' % v) if isinstance(v, int) else v))
            elif k == 'bt':
                css.append('border-top:%dpx solid' % v)
            elif k == 'bb':
                css.append('border-bottom:%dpx solid' % v)
            elif k == 'clone':
                css.append('box-decoration-break:clone')
        if set_o:
            o = set_o; css.append('orphans:%d' % o)
        if set_w:
            w = set_w; css.append('widows:%d' % w)
        st = dict(st); st['orphans'], st['widows'] = o, w
        if isinstance(content, int):
            ws = list(range(counter[0], counter[0] + content))
            counter[0] += content
            return ('<p style="%s">%s</p>' % (';'.join(css), ' '.join(word(i) for i in ws)), ('blk', st, [('lines', ws)], False)), o, w
        return None, o, w

    def para(n, st, o, w, set_o=None, set_w=None):
        (h, b), _, _ = node(st, n, o, w, set_o, set_w)
        return h, b

    def decorated(o, w):
        """a div with bottom decoration around one or two paragraphs"""
        st = {}
        r = rng.random()
        if r < 0.7:
            st['pb'] = rng.choice([3, 10, 20, 30])
        if r > 0.5:
            st['bb'] = rng.choice([1, 4])
        if rng.random() < 0.2:
            st['pt'] = rng.choice([3, 10])
        if rng.random() < 0.45:
            st['bi'] = rng.choice(['avoid', 'avoid-page'])
        if rng.random() < 0.1:
            st['clone'] = True
        css = []
        for k, v in st.items():
            if k in CSSNAME:
                css.append('%s:%s' % (CSSNAME[k], ('%dpx' % v) if isinstance(v, int) else v))
            elif k == 'bb':
                css.append('border-bottom:%dpx solid' % v)
            elif k == 'clone':
                css.append('box-decoration-break:clone')
        so = rng.choice([None, None, 2, 3, 4]); sw = rng.choice([None, None, 2, 3])
        if so:
            o = so; css.append('orphans:%d' % o)
        if sw:
            w = sw; css.append('widows:%d' % w)
        st['orphans'], st['widows'] = o, w
        kids_h, kids_b = '', []
        for _ in range(rng.choice([1, 1, 2])):
            pst = {}
            if rng.random() < 0.2:
                pst['bi'] = 'avoid'
            if rng.random() < 0.15:
                pst['pb'] = rng.choice([3, 10])
            h, b = para(rng.choice([1, 2, 3, 4, 5]), pst, o, w)
            kids_h += h; kids_b.append(b)
        return '<div style="%s">%s</div>' % (';'.join(css), kids_h), ('blk', st, kids_b, False)

    def sequence(o, w, depth):
        html, kids = '', []
        for _ in range(rng.choice([2, 3, 4, 5])):
            r = rng.random()
            if r < 0.45:
                h, b = para(rng.choice([1, 2, 3, 4, 6]), {'mb': rng.choice([0, 0, 5, 10])} if rng.random() < 0.3 else {}, o, w)
            elif r < 0.9 or depth >= 1:
                h, b = decorated(o, w)
            else:
                ih, ik = sequence(o, w, depth + 1)
                st = {'orphans': o, 'widows': w}
                h, b = '<div style="">%s</div>' % ih, ('blk', st, ik, False)
            html += h; kids.append(b)
        return html, kids

    body, kids = sequence(1, 1, 0)
    html = ('<style>@page{size:100px %dpx; margin:0} body{margin:0;font-family:weasyprint;font-size:10px;'
            'line-height:10px} p{margin:0}</style>' % H) + body
    d = {'orphans': 1, 'widows': 1}
    root = ('blk', dict(d), [('blk', dict(d), kids, False)], True)
    return html, root, H, counter[0]


def avoidpara_document(rng):
    """Documents aimed at the line-box case of find_earlier_page_break: a paragraph with orphans <> widows that fits on
    the page after a filler, followed by content that must not be separated from it (break-before: avoid on the next
    block, or break-after: avoid on the paragraph) and that overflows: the earlier break inside the paragraph has to
    leave `orphans` lines and carry `widows` lines - or none exists.  One 7-letter word per line (page 100px wide)."""
    H = rng.choice([50, 60, 70, 80, 100])
    counter = [0]

    def para(n, st, o, w, declare):
        css = []
        for k, v in st.items():
            if k in CSSNAME:
                css.append('%s:%s' % (CSSNAME[k], ('%dpx' % v) if isinstance(v, int) else v))
        if declare:
            css.append('orphans:%d' % o); css.append('widows:%d' % w)
        st = dict(st); st['orphans'], st['widows'] = o, w
        ws = list(range(counter[0], counter[0] + n))
        counter[0] += n
        return ('<p style="%s">%s</p>' % (';'.join(css), ' '.join(word(i) for i in ws)), ('blk', st, [('lines', ws)], False))

    html, kids = '', []
    for _ in range(rng.choice([1, 1, 2])):
        lines_per_page = H // 10
        k = rng.choice([1, 1, 2, 3])
        o, w = rng.choice([(1, 2), (1, 3), (2, 1), (3, 1), (3, 2), (2, 3), (4, 1), (1, 4), (2, 2), (4, 2)])
        n = max(2, min(6, lines_per_page - k - rng.choice([0, 0, 0, 1])))
        tail = rng.choice([1, 2, 2, 3])
        how = rng.choice(['bf', 'bf', 'ba'])
        h, b = para(k, {}, 1, 1, False); html += h; kids.append(b)
        h, b = para(n, {'ba': 'avoid'} if how == 'ba' else {}, o, w, True); html += h; kids.append(b)
        tst = {'bf': 'avoid'} if how == 'bf' else {}
        if rng.random() < 0.6:
            tst['bi'] = 'avoid'
        h, b = para(tail, tst, 1, 1, False); html += h; kids.append(b)
    html = ('<style>@page{size:100px %dpx; margin:0} body{margin:0;font-family:weasyprint;font-size:10px;'
            'line-height:10px} p{margin:0}</style>' % H) + html
    d = {'orphans': 1, 'widows': 1}
    root = ('blk', dict(d), [('blk', dict(d), kids, False)], True)
    return html, root, H, counter[0]


def z(v):
    return '(%d)' % v


def coq_style(s):
    return '(mkStyle %s %s %s %s %s %s %s %s %s %d %d %s)' % (
        z(s.get('mt', 0)), z(s.get('mb', 0)), z(s.get('pt', 0)), z(s.get('pb', 0)), z(s.get('bt', 0)), z(s.get('bb', 0)),
        BR[s.get('bf', 'auto')], BR[s.get('ba', 'auto')], BR[s.get('bi', 'auto')], s.get('orphans', 1), s.get('widows', 1),
        'true' if s.get('clone') else 'false')


def coq_box(b):
    if b[0] == 'lines':
        return '(Lines [%s])' % '; '.join(z(w) for w in b[1])
    return '(Blk %s [%s] %s)' % (coq_style(b[1]), '; '.join(coq_box(k) for k in b[2]), 'true' if b[3] else 'false')


def coq_pages(pages):
    return '[%s]' % '; '.join('[%s]' % '; '.join('(%s, %s)' % (z(w), z(y)) for w, y in p) for p in pages)
