"""pdfread - an independent, minimal, strict PDF reader for the checks (stdlib only: re, zlib, base64).

It shares no code with pydyf or WeasyPrint.  It reads what pydyf writes (classic xref table + trailer, or
cross-reference stream + object streams, Flate/ASCII85/ASCIIHex filters) and records every structural defect
it meets in ``doc.problems`` instead of guessing, so ``problems == []`` means "the file structure is sound".

API (keep it small; used by C13, C14, C16, C17, C18)
----------------------------------------------------
parse(data: bytes) -> PDFDoc            never raises on malformed input: defects go to doc.problems
                                        (a file so broken that nothing can be read gives doc.objects == {})
PDFDoc.version      'x.y' from the header               PDFDoc.trailer   dict (trailer or /XRef stream dict)
PDFDoc.xref         {num: ('n', offset, gen) | ('c', objstm_num, index) | ('f', next, gen)}
PDFDoc.objects      {num: value}  every in-use object, parsed
PDFDoc.problems     [str]  structural defects: header, xref offsets, object syntax, stream lengths, trailer
PDFDoc.resolve(v)   follow Ref (recursively) -> value; dangling reference -> None and a problem is recorded
PDFDoc.root / .info                     catalog / info dictionaries (resolved) or None
PDFDoc.pages()      [page dict] leaves of the page tree in order; inheritable attributes (Resources, MediaBox,
                    CropBox, Rotate) are copied down; page['__num__'] = object number
PDFDoc.stream_data(s)                   decoded bytes of a StreamObj (filters applied), None when undecodable
PDFDoc.page_content(page)               decoded bytes of /Contents (array members joined with b'\\n')
PDFDoc.refs_in(v)   iterator over every Ref inside a value (deep)
PDFDoc.walk_content_streams()           yields (where, owner_num, decoded_bytes, resources_dict) for every page,
                                        form XObject, tiling pattern, soft-mask group and annotation appearance
                                        reachable from the page tree, each with the resource dictionary in effect
Values: None, bool, int, float, Name (str subclass, without '/'), PDFString (bytes subclass; .hex flag),
        list, dict (keys are plain str without '/'), Ref(num, gen), StreamObj(.dict, .raw, .num)

tokenize_content(data) -> [(operator: str, operands: list)]   raises PDFError on a lexical error;
                                        inline images come as ('BI', [dict, bytes])
OPERATORS           {op: (arity | None, kinds)}  ISO 32000-1 Annex A / Table 51; kinds is a string with one letter
                    per operand: n number, i integer, N name, s string, a array, d name-or-dict, * = special
check_content(ops, resources, doc) -> [(clause, detail)]   clauses: 'balance-q', 'balance-text',
                    'balance-mc', 'nest-mc-text', 'unknown-operator', 'arity', 'operand-type', 'non-finite',
                    'resource:<Category>', 'text-op-outside-BT', 'special-gs-inside-BT'
check_structure(doc) -> [(clause, detail)]   header, trailer /Size /Root, every Ref resolves, page tree shape
                    (Type, Parent, Count, Kids), kinds of objects referenced from well-known keys, every reachable font
                    dictionary (check_font), the /DA strings of form fields against /AcroForm /DR
check_font(doc, ref, where) -> [(clause, detail)]   ISO 32000-1 9.6-9.9: Type0 -> DescendantFonts -> CIDFont ->
                    FontDescriptor -> FontFile*, ToUnicode, W ; Type3 CharProcs/Encoding/Widths ; standard-14 Type1
closure_facts(doc) -> [dict(where, defs={category: [names]}, uses=[(category, name)])] one entry per content
                    stream (pages, form XObjects, tiling patterns, soft-mask groups, annotation appearances, Type3
                    CharProcs), for the closure judge evaluated in Coq (model/C16Closure.v)
"""
import re
import zlib
import base64

WS = b'\x00\t\n\x0c\r '
DELIM = b'()<>[]{}/%'


class PDFError(Exception):
    pass


class Name(str):
    def __repr__(self):
        return '/' + str(self)


class PDFString(bytes):
    hex = False

    def text(self):
        b = bytes(self)
        if b.startswith(b'\xfe\xff'):
            return b[2:].decode('utf-16-be', 'replace')
        return b.decode('latin-1')


class Ref(object):
    __slots__ = ('num', 'gen')

    def __init__(self, num, gen):
        self.num, self.gen = num, gen

    def __eq__(self, other):
        return isinstance(other, Ref) and (self.num, self.gen) == (other.num, other.gen)

    def __hash__(self):
        return hash((self.num, self.gen))

    def __repr__(self):
        return '%d %d R' % (self.num, self.gen)


class StreamObj(object):
    def __init__(self, dict_, raw, num=None):
        self.dict, self.raw, self.num = dict_, raw, num

    def __repr__(self):
        return '<stream %r %d bytes>' % (self.dict, len(self.raw))


class Keyword(str):
    pass


_NUM = re.compile(rb'[+-]?(?:\d+\.?\d*|\.\d+)')
_INT = re.compile(rb'[+-]?\d+$')


class Lexer(object):
    """Tokens of the PDF object syntax (ISO 32000-1 7.2-7.3)."""

    def __init__(self, data, pos=0):
        self.data, self.pos = data, pos

    def skip_ws(self):
        d, n = self.data, len(self.data)
        while self.pos < n:
            c = d[self.pos]
            if c in WS:
                self.pos += 1
            elif c == 0x25:  # % comment
                while self.pos < n and d[self.pos] not in b'\r\n':
                    self.pos += 1
            else:
                break

    def peek_token(self):
        p = self.pos
        t = self.token()
        self.pos = p
        return t

    def token(self):
        """Returns a value for atomic objects, or a Keyword (including '[', ']', '<<', '>>'), or None at EOF."""
        self.skip_ws()
        d, n = self.data, len(self.data)
        if self.pos >= n:
            return None
        c = d[self.pos:self.pos + 1]
        if c == b'/':
            return self._name()
        if c == b'(':
            return self._literal_string()
        if c == b'<':
            if d[self.pos:self.pos + 2] == b'<<':
                self.pos += 2
                return Keyword('<<')
            return self._hex_string()
        if c == b'>':
            if d[self.pos:self.pos + 2] == b'>>':
                self.pos += 2
                return Keyword('>>')
            raise PDFError('stray > at %d' % self.pos)
        if c in (b'[', b']', b'{', b'}'):
            self.pos += 1
            return Keyword(c.decode())
        if c == b')':
            raise PDFError('unbalanced ) at %d' % self.pos)
        # regular characters up to whitespace/delimiter
        start = self.pos
        while self.pos < n and d[self.pos] not in WS and d[self.pos] not in DELIM:
            self.pos += 1
        word = d[start:self.pos]
        m = _NUM.fullmatch(word)
        if m:
            if _INT.match(word):
                return int(word)
            return float(word)
        try:
            return Keyword(word.decode('ascii'))
        except UnicodeDecodeError:
            raise PDFError('non-ASCII keyword %r at %d' % (word[:20], start))

    def _name(self):
        d, n = self.data, len(self.data)
        self.pos += 1
        start = self.pos
        while self.pos < n and d[self.pos] not in WS and d[self.pos] not in DELIM:
            self.pos += 1
        raw = d[start:self.pos]
        if b'#' in raw:
            def unhex(m):
                return bytes([int(m.group(1), 16)])
            if re.search(rb'#(?![0-9A-Fa-f]{2})', raw):
                raise PDFError('bad # escape in name %r' % raw)
            raw = re.sub(rb'#([0-9A-Fa-f]{2})', unhex, raw)
        if b'\x00' in raw:
            raise PDFError('NUL in name')
        return Name(raw.decode('latin-1'))

    def _literal_string(self):
        d, n = self.data, len(self.data)
        self.pos += 1
        depth, out = 1, bytearray()
        while True:
            if self.pos >= n:
                raise PDFError('unterminated literal string')
            c = d[self.pos]
            self.pos += 1
            if c == 0x5c:  # backslash
                if self.pos >= n:
                    raise PDFError('unterminated escape')
                e = d[self.pos]
                self.pos += 1
                if e in b'nrtbf':
                    out.append({0x6e: 10, 0x72: 13, 0x74: 9, 0x62: 8, 0x66: 12}[e])
                elif e in b'()\\':
                    out.append(e)
                elif 0x30 <= e <= 0x37:
                    v = e - 0x30
                    for _ in range(2):
                        if self.pos < n and 0x30 <= d[self.pos] <= 0x37:
                            v = v * 8 + d[self.pos] - 0x30
                            self.pos += 1
                        else:
                            break
                    out.append(v & 0xff)
                elif e == 13:
                    if self.pos < n and d[self.pos] == 10:
                        self.pos += 1
                elif e == 10:
                    pass
                else:
                    out.append(e)
            elif c == 0x28:
                depth += 1
                out.append(c)
            elif c == 0x29:
                depth -= 1
                if depth == 0:
                    return PDFString(bytes(out))
                out.append(c)
            else:
                out.append(c)

    def _hex_string(self):
        d = self.data
        end = d.find(b'>', self.pos)
        if end < 0:
            raise PDFError('unterminated hex string')
        body = bytes(c for c in d[self.pos + 1:end] if c not in WS)
        if re.search(rb'[^0-9A-Fa-f]', body):
            raise PDFError('bad hex string %r' % body[:30])
        if len(body) % 2:
            body += b'0'
        self.pos = end + 1
        s = PDFString(bytes.fromhex(body.decode()))
        s.hex = True
        return s

    # -- objects
    def obj(self, tok=None, depth=0):
        """Parse one direct object (references `n g R` included)."""
        if depth > 200:
            raise PDFError('nesting too deep')
        if tok is None:
            tok = self.token()
        if tok is None:
            raise PDFError('unexpected end of data')
        if isinstance(tok, Keyword):
            if tok == '[':
                arr = []
                while True:
                    t = self.token()
                    if t is None:
                        raise PDFError('unterminated array')
                    if isinstance(t, Keyword) and t == ']':
                        return arr
                    arr.append(self.obj(t, depth + 1))
            if tok == '<<':
                dic = {}
                while True:
                    k = self.token()
                    if k is None:
                        raise PDFError('unterminated dictionary')
                    if isinstance(k, Keyword) and k == '>>':
                        return dic
                    if not isinstance(k, Name):
                        raise PDFError('dictionary key is not a name: %r' % (k,))
                    v = self.token()
                    if isinstance(v, Keyword) and v == '>>':
                        raise PDFError('dictionary key /%s without value' % k)
                    if str(k) in dic:
                        raise PDFError('duplicate dictionary key /%s' % k)
                    dic[str(k)] = self.obj(v, depth + 1)
            if tok == 'true':
                return True
            if tok == 'false':
                return False
            if tok == 'null':
                return None
            raise PDFError('unexpected keyword %r at %d' % (str(tok)[:30], self.pos))
        if isinstance(tok, int) and not isinstance(tok, bool) and tok >= 0:
            # maybe a reference
            save = self.pos
            try:
                t2 = self.token()
                if isinstance(t2, int) and not isinstance(t2, bool) and t2 >= 0:
                    t3 = self.token()
                    if isinstance(t3, Keyword) and t3 == 'R':
                        return Ref(tok, t2)
            except PDFError:
                pass
            self.pos = save
        return tok


def _apply_filters(dic, raw, resolve=lambda v: v):
    filters = resolve(dic.get('Filter'))
    parms = resolve(dic.get('DecodeParms'))
    if filters is None:
        return raw
    if not isinstance(filters, list):
        filters, parms = [filters], [parms]
    elif not isinstance(parms, list):
        parms = [None] * len(filters)
    data = raw
    for f, p in zip(filters, parms):
        f = resolve(f)
        p = resolve(p)
        if f == 'FlateDecode':
            data = zlib.decompress(data)
            if isinstance(p, dict) and p.get('Predictor', 1) not in (1,):
                pred = p['Predictor']
                if pred >= 10:
                    cols = p.get('Columns', 1) * p.get('Colors', 1) * p.get('BitsPerComponent', 8) // 8
                    out, prev = bytearray(), bytearray(cols)
                    bpp = max(1, p.get('Colors', 1) * p.get('BitsPerComponent', 8) // 8)
                    for i in range(0, len(data), cols + 1):
                        ft, row = data[i], bytearray(data[i + 1:i + 1 + cols])
                        for j in range(len(row)):
                            a = row[j - bpp] if j >= bpp else 0
                            b = prev[j]
                            c = prev[j - bpp] if j >= bpp else 0
                            if ft == 1:
                                row[j] = (row[j] + a) & 255
                            elif ft == 2:
                                row[j] = (row[j] + b) & 255
                            elif ft == 3:
                                row[j] = (row[j] + (a + b) // 2) & 255
                            elif ft == 4:
                                pa, pb, pc = abs(b - c), abs(a - c), abs(a + b - 2 * c)
                                pr = a if pa <= pb and pa <= pc else (b if pb <= pc else c)
                                row[j] = (row[j] + pr) & 255
                        out += row
                        prev = row
                    data = bytes(out)
                else:
                    raise PDFError('unsupported predictor %r' % pred)
        elif f == 'ASCII85Decode':
            d = data.strip()
            if not d.endswith(b'~>'):
                raise PDFError('ASCII85 data without ~>')
            data = base64.a85decode(d[:-2].replace(b'\n', b'').replace(b'\r', b'').replace(b' ', b''))
        elif f == 'ASCIIHexDecode':
            d = bytes(c for c in data if c not in WS)
            if d.endswith(b'>'):
                d = d[:-1]
            if len(d) % 2:
                d += b'0'
            data = bytes.fromhex(d.decode())
        elif f in ('DCTDecode', 'JPXDecode', 'CCITTFaxDecode', 'JBIG2Decode'):
            return data      # image codecs: leave encoded
        else:
            raise PDFError('unknown filter %r' % (f,))
    return data


class PDFDoc(object):
    def __init__(self, data):
        self.data = data
        self.version = None
        self.trailer = {}
        self.xref = {}
        self.objects = {}
        self.problems = []
        self.body_objects = []   # (num, gen, offset) met by the sequential scan of the body
        self._decoded = {}
        self._objstm = {}

    def problem(self, msg):
        if len(self.problems) < 200:
            self.problems.append(msg)

    # ------------------------------------------------------------------ reading
    def _read(self):
        d = self.data
        m = re.match(rb'%PDF-(\d\.\d)[\r\n]', d)
        if not m:
            self.problem('header: file does not start with %%PDF-x.y: %r' % d[:12])
        else:
            self.version = m.group(1).decode()
        tail = d[-1024:]
        if not re.search(rb'%%EOF\s*$', tail):
            self.problem('trailer: file does not end with %%EOF')
        ms = list(re.finditer(rb'startxref\s+(\d+)\s+%%EOF', d[-2048:]))
        if not ms:
            self.problem('trailer: no startxref ... %%EOF')
            return
        start = int(ms[-1].group(1))
        if start >= len(d):
            self.problem('trailer: startxref %d beyond end of file' % start)
            return
        seen = set()
        first = True
        while start is not None and start not in seen:
            seen.add(start)
            try:
                tr = self._read_xref_section(start)
            except PDFError as exc:
                self.problem('xref at %d: %s' % (start, exc))
                break
            if first:
                self.trailer = tr
                first = False
            prev = tr.get('Prev')
            start = prev if isinstance(prev, int) else None
        # load objects
        for num, ent in sorted(self.xref.items()):
            if ent[0] == 'n':
                self._load_at(num, ent[1], ent[2])
        for num, ent in sorted(self.xref.items()):
            if ent[0] == 'c':
                self._load_compressed(num, ent[1], ent[2])
        self._scan_body()

    def _read_xref_section(self, start):
        d = self.data
        if d[start:start + 4] == b'xref':
            lx = Lexer(d, start + 4)
            while True:
                save = lx.pos
                t = lx.token()
                if isinstance(t, Keyword) and t == 'trailer':
                    break
                t2 = lx.token()
                if not (isinstance(t, int) and isinstance(t2, int)):
                    raise PDFError('bad xref subsection header at %d' % save)
                lx.skip_ws()
                for i in range(t2):
                    line = d[lx.pos:lx.pos + 20]
                    mm = re.fullmatch(rb'(\d{10}) (\d{5}) ([nf])(?: \r| \n|\r\n)', line)
                    if not mm:
                        raise PDFError('bad xref entry %r for object %d' % (line, t + i))
                    lx.pos += 20
                    if t + i not in self.xref:
                        self.xref[t + i] = (mm.group(3).decode(), int(mm.group(1)), int(mm.group(2)))
            tr = lx.obj()
            if not isinstance(tr, dict):
                raise PDFError('trailer is not a dictionary')
            self._xref_kind = 'table'
            return tr
        # cross-reference stream
        lx = Lexer(d, start)
        num, gen, kw = lx.token(), lx.token(), lx.token()
        if not (isinstance(num, int) and isinstance(gen, int) and kw == 'obj'):
            raise PDFError('startxref does not point at "xref" nor at an object')
        st = self._parse_after_obj(lx, num)
        if not isinstance(st, StreamObj) or st.dict.get('Type') != 'XRef':
            raise PDFError('startxref object is not an /XRef stream')
        data = _apply_filters(st.dict, st.raw)
        w = st.dict.get('W')
        if not (isinstance(w, list) and len(w) == 3 and all(isinstance(x, int) and x >= 0 for x in w)):
            raise PDFError('bad /W %r' % (w,))
        size = st.dict.get('Size')
        index = st.dict.get('Index', [0, size])
        rowlen = sum(w)
        nrows = sum(index[1::2])
        if rowlen * nrows != len(data):
            self.problem('xref stream: %d bytes for %d entries of %d bytes' % (len(data), nrows, rowlen))
        pos = 0
        for first, count in zip(index[0::2], index[1::2]):
            for i in range(count):
                row = data[pos:pos + rowlen]
                pos += rowlen
                if len(row) < rowlen:
                    break
                f1 = int.from_bytes(row[:w[0]], 'big') if w[0] else 1
                f2 = int.from_bytes(row[w[0]:w[0] + w[1]], 'big')
                f3 = int.from_bytes(row[w[0] + w[1]:], 'big') if w[2] else 0
                n = first + i
                if n in self.xref:
                    continue
                if f1 == 0:
                    self.xref[n] = ('f', f2, f3)
                elif f1 == 1:
                    self.xref[n] = ('n', f2, f3)
                elif f1 == 2:
                    self.xref[n] = ('c', f2, f3)
                else:
                    self.problem('xref stream: entry type %d for object %d' % (f1, n))
        self._xref_kind = 'stream'
        return st.dict

    def _parse_after_obj(self, lx, num):
        """lx is just after `n g obj`; returns the object value (StreamObj for streams); checks endobj."""
        d = self.data
        val = lx.obj()
        save = lx.pos
        t = lx.token()
        if isinstance(t, Keyword) and t == 'stream':
            if not isinstance(val, dict):
                raise PDFError('stream without dictionary')
            # EOL after the keyword: CRLF or LF
            if d[lx.pos:lx.pos + 2] == b'\r\n':
                lx.pos += 2
            elif d[lx.pos:lx.pos + 1] == b'\n':
                lx.pos += 1
            else:
                raise PDFError('keyword stream not followed by EOL')
            length = val.get('Length')
            if isinstance(length, Ref):
                ent = self.xref.get(length.num)
                length = None
                if ent and ent[0] == 'n':
                    l2 = Lexer(d, ent[1])
                    a, b, c = l2.token(), l2.token(), l2.token()
                    if c == 'obj':
                        length = l2.token()
            if not isinstance(length, int) or length < 0:
                raise PDFError('stream /Length missing or not an integer: %r' % (val.get('Length'),))
            raw = d[lx.pos:lx.pos + length]
            if len(raw) != length:
                raise PDFError('stream runs past the end of the file')
            lx.pos += length
            mm = re.match(rb'(\r\n|\n|\r)?endstream', d[lx.pos:lx.pos + 12])
            if not mm:
                raise PDFError('/Length %d does not end at endstream (found %r)' % (length, d[lx.pos:lx.pos + 12]))
            lx.pos += mm.end()
            val = StreamObj(val, raw, num)
            t = lx.token()
        if not (isinstance(t, Keyword) and t == 'endobj'):
            raise PDFError('endobj expected, found %r' % (t,))
        return val

    def _load_at(self, num, offset, gen):
        d = self.data
        mm = re.match(rb'(\d+) (\d+) obj\b', d[offset:offset + 30])
        if not mm:
            self.problem('xref: entry %d points at %d where there is no "n g obj": %r' % (num, offset, d[offset:offset + 16]))
            return
        if int(mm.group(1)) != num or int(mm.group(2)) != gen:
            self.problem('xref: entry %d %d points at object %s %s' % (num, gen, mm.group(1).decode(), mm.group(2).decode()))
            return
        lx = Lexer(d, offset + mm.end())
        try:
            self.objects[num] = self._parse_after_obj(lx, num)
        except PDFError as exc:
            self.problem('object %d: %s' % (num, exc))
        except RecursionError:
            self.problem('object %d: nesting too deep' % num)

    def _load_compressed(self, num, stm_num, index):
        if stm_num not in self._objstm:
            st = self.objects.get(stm_num)
            table = None
            if not isinstance(st, StreamObj) or st.dict.get('Type') != 'ObjStm':
                self.problem('object stream %d missing or not /ObjStm' % stm_num)
            else:
                try:
                    data = _apply_filters(st.dict, st.raw)
                    n, first = st.dict.get('N'), st.dict.get('First')
                    lx = Lexer(data[:first])
                    head = []
                    while True:
                        t = lx.token()
                        if t is None:
                            break
                        head.append(t)
                    if len(head) != 2 * n or not all(isinstance(x, int) for x in head):
                        raise PDFError('header has %d integers for /N %r' % (len(head), n))
                    table = (data, first, list(zip(head[0::2], head[1::2])))
                except (PDFError, zlib.error, TypeError) as exc:
                    self.problem('object stream %d: %s' % (stm_num, exc))
            self._objstm[stm_num] = table
        table = self._objstm[stm_num]
        if table is None:
            return
        data, first, pairs = table
        if index >= len(pairs):
            self.problem('xref: object %d index %d beyond object stream %d' % (num, index, stm_num))
            return
        onum, off = pairs[index]
        if onum != num:
            self.problem('xref: object %d is object %d in object stream %d' % (num, onum, stm_num))
            return
        end = pairs[index + 1][1] if index + 1 < len(pairs) else len(data) - first
        lx = Lexer(data[first + off:first + end])
        try:
            val = lx.obj()
            lx.skip_ws()
            if lx.pos != len(lx.data):
                raise PDFError('trailing bytes %r' % lx.data[lx.pos:lx.pos + 20])
            if isinstance(val, StreamObj):
                raise PDFError('stream inside an object stream')
            self.objects[num] = val
        except PDFError as exc:
            self.problem('object %d (in object stream %d): %s' % (num, stm_num, exc))

    def _scan_body(self):
        """Sequential parse of the body: after the header, a sequence of indirect objects up to xref/startxref.
        Every object met must be the one the xref lists at that offset."""
        d = self.data
        lx = Lexer(d, 0)
        try:
            while True:
                lx.skip_ws()
                pos = lx.pos
                t = lx.token()
                if t is None:
                    break
                if isinstance(t, Keyword) and t in ('xref', 'startxref'):
                    break
                g, kw = lx.token(), lx.token()
                if not (isinstance(t, int) and isinstance(g, int) and kw == 'obj'):
                    self.problem('body: unexpected bytes at %d: %r' % (pos, d[pos:pos + 20]))
                    break
                self.body_objects.append((t, g, pos))
                ent = self.xref.get(t)
                if ent is None or ent[0] != 'n' or ent[1] != pos:
                    self.problem('body: object %d at offset %d is not what the xref says (%r)' % (t, pos, ent))
                self._parse_after_obj(lx, t)
        except PDFError as exc:
            self.problem('body: at %d: %s' % (lx.pos, exc))
        except RecursionError:
            self.problem('body: nesting too deep')

    # ------------------------------------------------------------------ access
    def resolve(self, v, _depth=0):
        while isinstance(v, Ref):
            if _depth > 50:
                self.problem('reference loop at %r' % v)
                return None
            if v.num not in self.objects:
                ent = self.xref.get(v.num)
                self.problem('dangling reference %r (xref entry: %r)' % (v, ent))
                return None
            ent = self.xref.get(v.num)
            if ent and ent[0] == 'n' and ent[2] != v.gen:
                self.problem('reference %r with wrong generation (xref has %d)' % (v, ent[2]))
            v = self.objects[v.num]
            _depth += 1
        return v

    @property
    def root(self):
        r = self.resolve(self.trailer.get('Root'))
        return r if isinstance(r, dict) else None

    @property
    def info(self):
        r = self.resolve(self.trailer.get('Info'))
        return r if isinstance(r, dict) else None

    def stream_data(self, s):
        s = self.resolve(s)
        if not isinstance(s, StreamObj):
            return None
        key = id(s)
        if key not in self._decoded:
            try:
                self._decoded[key] = _apply_filters(s.dict, s.raw, self.resolve)
            except (PDFError, zlib.error, ValueError) as exc:
                self.problem('stream %s: cannot decode: %s' % (s.num, exc))
                self._decoded[key] = None
        return self._decoded[key]

    def pages(self):
        out = []
        root = self.root
        if not root:
            return out
        seen = set()

        def rec(node_ref, inherited, depth):
            node = self.resolve(node_ref)
            if not isinstance(node, dict) or depth > 60:
                self.problem('page tree: node %r is not a dictionary' % (node_ref,))
                return
            if isinstance(node_ref, Ref):
                if node_ref.num in seen:
                    self.problem('page tree: node %r reached twice' % (node_ref,))
                    return
                seen.add(node_ref.num)
            inh = dict(inherited)
            for k in ('Resources', 'MediaBox', 'CropBox', 'Rotate'):
                if k in node:
                    inh[k] = node[k]
            if node.get('Type') == 'Pages':
                for kid in self.resolve(node.get('Kids')) or []:
                    rec(kid, inh, depth + 1)
            else:
                page = dict(inh)
                page.update(node)
                page['__num__'] = node_ref.num if isinstance(node_ref, Ref) else None
                out.append(page)
        rec(root.get('Pages'), {}, 0)
        return out

    def page_content(self, page):
        c = self.resolve(page.get('Contents'))
        if c is None:
            return b''
        parts = c if isinstance(c, list) else [page.get('Contents')]
        datas = []
        for p in parts:
            dd = self.stream_data(p)
            if dd is None:
                self.problem('page %s: /Contents member %r is not a decodable stream' % (page.get('__num__'), p))
                continue
            datas.append(dd)
        return b'\n'.join(datas)

    def refs_in(self, v, _depth=0):
        if isinstance(v, Ref):
            yield v
        elif isinstance(v, list) and _depth < 100:
            for x in v:
                for r in self.refs_in(x, _depth + 1):
                    yield r
        elif isinstance(v, dict) and _depth < 100:
            for x in v.values():
                for r in self.refs_in(x, _depth + 1):
                    yield r
        elif isinstance(v, StreamObj):
            for r in self.refs_in(v.dict, _depth + 1):
                yield r

    def walk_content_streams(self):
        """Every content stream reachable from the page tree, with the resource dictionary in effect."""
        done = set()
        out = []

        def res_of(dic, fallback):
            r = self.resolve(dic.get('Resources')) if 'Resources' in dic else None
            return r if isinstance(r, dict) else fallback

        def sub(resources, where):
            if not isinstance(resources, dict):
                return
            xo = self.resolve(resources.get('XObject'))
            for name, ref in (xo.items() if isinstance(xo, dict) else []):
                st = self.resolve(ref)
                if isinstance(st, StreamObj) and st.dict.get('Subtype') == 'Form':
                    visit(st, '%s>XObject/%s' % (where, name), resources)
            pa = self.resolve(resources.get('Pattern'))
            for name, ref in (pa.items() if isinstance(pa, dict) else []):
                st = self.resolve(ref)
                if isinstance(st, StreamObj) and st.dict.get('PatternType') == 1:
                    visit(st, '%s>Pattern/%s' % (where, name), resources)
            eg = self.resolve(resources.get('ExtGState'))
            for name, ref in (eg.items() if isinstance(eg, dict) else []):
                gs = self.resolve(ref)
                if isinstance(gs, dict):
                    sm = self.resolve(gs.get('SMask'))
                    if isinstance(sm, dict):
                        g = self.resolve(sm.get('G'))
                        if isinstance(g, StreamObj):
                            visit(g, '%s>ExtGState/%s/SMask/G' % (where, name), resources)

        def visit(st, where, parent_resources):
            if id(st) in done:
                return
            done.add(id(st))
            res = res_of(st.dict, parent_resources)
            data = self.stream_data(st)
            out.append((where, st.num, data, res))
            sub(res, where)

        for i, page in enumerate(self.pages()):
            res = self.resolve(page.get('Resources'))
            res = res if isinstance(res, dict) else {}
            where = 'page%d' % i
            out.append((where, page.get('__num__'), self.page_content(page), res))
            sub(res, where)
            for a in self.resolve(page.get('Annots')) or []:
                ad = self.resolve(a)
                if not isinstance(ad, dict):
                    continue
                ap = self.resolve(ad.get('AP'))
                if not isinstance(ap, dict):
                    continue
                for k in ('N', 'R', 'D'):
                    v = self.resolve(ap.get(k))
                    items = []
                    if isinstance(v, StreamObj):
                        items = [(k, v)]
                    elif isinstance(v, dict):
                        items = [('%s/%s' % (k, kk), self.resolve(vv)) for kk, vv in v.items()]
                    for kk, stv in items:
                        if isinstance(stv, StreamObj):
                            visit(stv, '%s>Annot%s/AP/%s' % (where, getattr(a, 'num', ''), kk), res)
        return out


def parse(data):
    doc = PDFDoc(bytes(data))
    try:
        doc._read()
    except PDFError as exc:
        doc.problem('fatal: %s' % exc)
    except RecursionError:
        doc.problem('fatal: nesting too deep')
    return doc


# --------------------------------------------------------------------------------------- content streams

# ISO 32000-1:2008 Annex A (Table A.1) - operator: (number of operands or None when variable, operand kinds)
OPERATORS = {
    'b': (0, ''), 'B': (0, ''), 'b*': (0, ''), 'B*': (0, ''), 'BDC': (2, 'Nd'), 'BI': (None, '*'), 'BMC': (1, 'N'),
    'BT': (0, ''), 'BX': (0, ''), 'c': (6, 'nnnnnn'), 'cm': (6, 'nnnnnn'), 'CS': (1, 'N'), 'cs': (1, 'N'),
    'd': (2, 'an'), 'd0': (2, 'nn'), 'd1': (6, 'nnnnnn'), 'Do': (1, 'N'), 'DP': (2, 'Nd'), 'EMC': (0, ''),
    'ET': (0, ''), 'EX': (0, ''), 'f': (0, ''), 'F': (0, ''), 'f*': (0, ''), 'G': (1, 'n'), 'g': (1, 'n'),
    'gs': (1, 'N'), 'h': (0, ''), 'i': (1, 'n'), 'j': (1, 'i'), 'J': (1, 'i'), 'K': (4, 'nnnn'), 'k': (4, 'nnnn'),
    'l': (2, 'nn'), 'm': (2, 'nn'), 'M': (1, 'n'), 'MP': (1, 'N'), 'n': (0, ''), 'q': (0, ''), 'Q': (0, ''),
    're': (4, 'nnnn'), 'RG': (3, 'nnn'), 'rg': (3, 'nnn'), 'ri': (1, 'N'), 's': (0, ''), 'S': (0, ''),
    'SC': (None, '*'), 'sc': (None, '*'), 'SCN': (None, '*'), 'scn': (None, '*'), 'sh': (1, 'N'), 'T*': (0, ''),
    'Tc': (1, 'n'), 'Td': (2, 'nn'), 'TD': (2, 'nn'), 'Tf': (2, 'Nn'), 'Tj': (1, 's'), 'TJ': (1, 'a'),
    'TL': (1, 'n'), 'Tm': (6, 'nnnnnn'), 'Tr': (1, 'i'), 'Ts': (1, 'n'), 'Tw': (1, 'n'), 'Tz': (1, 'n'),
    'v': (4, 'nnnn'), 'w': (1, 'n'), 'W': (0, ''), 'W*': (0, ''), 'y': (4, 'nnnn'), "'": (1, 's'),
    '"': (3, 'nns'),
}
TEXT_ONLY = {'Tj', 'TJ', "'", '"', 'Td', 'TD', 'Tm', 'T*'}
NOT_IN_TEXT = {'q', 'Q', 'cm', 'Do', 'sh', 'BI', 're', 'm', 'l', 'c', 'v', 'y', 'h', 'f', 'F', 'f*', 'S', 's',
               'B', 'B*', 'b', 'b*', 'n', 'W', 'W*'}
DEVICE_SPACES = {'DeviceGray', 'DeviceRGB', 'DeviceCMYK', 'Pattern'}


def tokenize_content(data):
    """[(operator, operands)] ; raises PDFError on lexical errors or operands left without operator."""
    lx = Lexer(data)
    ops, operands = [], []
    while True:
        t = lx.token()
        if t is None:
            break
        if isinstance(t, Keyword) and t not in ('[', '<<', 'true', 'false', 'null'):
            if t in (']', '>>', '{', '}'):
                raise PDFError('stray %s in content stream at %d' % (t, lx.pos))
            if t == 'BI':
                dic = {}
                while True:
                    k = lx.token()
                    if k is None:
                        raise PDFError('unterminated inline image dictionary')
                    if isinstance(k, Keyword) and k == 'ID':
                        break
                    if not isinstance(k, Name):
                        raise PDFError('inline image key is not a name: %r' % (k,))
                    dic[str(k)] = lx.obj()
                if data[lx.pos:lx.pos + 1] not in (b' ', b'\n', b'\r', b'\t'):
                    raise PDFError('ID not followed by white space')
                lx.pos += 1
                length = dic.get('L', dic.get('Length'))
                if isinstance(length, int):
                    img = data[lx.pos:lx.pos + length]
                    lx.pos += length
                    mm = re.match(rb'[\x00\t\n\x0c\r ]*EI(?=[\x00\t\n\x0c\r ]|$)', data[lx.pos:lx.pos + 8])
                    if not mm:
                        raise PDFError('inline image /L %d does not end at EI' % length)
                    lx.pos += mm.end()
                else:
                    mm = re.search(rb'[\x00\t\n\x0c\r ]EI(?=[\x00\t\n\x0c\r ]|$)', data[lx.pos:])
                    if not mm:
                        raise PDFError('inline image without EI')
                    img = data[lx.pos:lx.pos + mm.start()]
                    lx.pos += mm.end()
                if operands:
                    raise PDFError('operands %r before BI' % (operands[:3],))
                ops.append(('BI', [dic, img]))
                continue
            ops.append((str(t), operands))
            operands = []
        else:
            operands.append(lx.obj(t))
            if len(operands) > 4096:
                raise PDFError('more than 4096 operands without operator')
    if operands:
        raise PDFError('operands without operator at the end: %r' % (operands[:4],))
    return ops


def _is_num(x):
    return isinstance(x, (int, float)) and not isinstance(x, bool)


def _kind_ok(kind, v):
    if kind == 'n':
        return _is_num(v)
    if kind == 'i':
        return isinstance(v, int) and not isinstance(v, bool)
    if kind == 'N':
        return isinstance(v, Name)
    if kind == 's':
        return isinstance(v, PDFString)
    if kind == 'a':
        return isinstance(v, list)
    if kind == 'd':
        return isinstance(v, (Name, dict))
    return True


def check_content(ops, resources, doc=None):
    """Judge a tokenized content stream against ISO 32000-1 (8.2, 8.4.2, 9.4, 14.6, Annex A) and the resource
    dictionary in effect.  Returns [(clause, detail)]."""
    bad = []
    res = resources if isinstance(resources, dict) else {}

    def cat(name):
        v = res.get(name)
        if doc is not None:
            v = doc.resolve(v)
        return v if isinstance(v, dict) else {}

    qdepth = 0
    in_text = False
    stack = []         # open brackets in order: 'q' is not tracked here; 'BT' and 'MC' are (for mutual nesting)
    for idx, (op, args) in enumerate(ops):
        spec = OPERATORS.get(op)
        if spec is None:
            bad.append(('unknown-operator', '#%d %s' % (idx, op)))
            continue
        arity, kinds = spec
        if arity is not None:
            if len(args) != arity:
                bad.append(('arity', '#%d %s takes %d operands, got %d: %r' % (idx, op, arity, len(args), args[:8])))
                continue
            for k, v in zip(kinds, args):
                if not _kind_ok(k, v):
                    bad.append(('operand-type', '#%d %s operand %r is not of kind %s' % (idx, op, v, k)))
        elif op in ('SC', 'sc', 'SCN', 'scn'):
            nums = args
            if op in ('SCN', 'scn') and args and isinstance(args[-1], Name):
                nums = args[:-1]
                if str(args[-1]) not in cat('Pattern'):
                    bad.append(('resource:Pattern', '#%d %s /%s not in /Pattern %s' % (idx, op, args[-1], sorted(cat('Pattern')))))
            if not args or len(nums) > 32 or not all(_is_num(x) for x in nums):
                bad.append(('operand-type', '#%d %s operands %r' % (idx, op, args[:8])))
        for v in args:
            if isinstance(v, float) and (v != v or v in (float('inf'), float('-inf'))):
                bad.append(('non-finite', '#%d %s' % (idx, op)))
        if op == 'TJ' and args and isinstance(args[0], list):
            if not all(isinstance(x, PDFString) or _is_num(x) for x in args[0]):
                bad.append(('operand-type', '#%d TJ array has a member that is neither string nor number' % idx))
        if op == 'd' and args and isinstance(args[0], list):
            if not all(_is_num(x) and x >= 0 for x in args[0]):
                bad.append(('operand-type', '#%d d array %r' % (idx, args[0])))
        # --- brackets
        if op == 'q':
            qdepth += 1
        elif op == 'Q':
            qdepth -= 1
            if qdepth < 0:
                bad.append(('balance-q', '#%d Q without q' % idx))
                qdepth = 0
        elif op == 'BT':
            if in_text:
                bad.append(('balance-text', '#%d BT inside a text object' % idx))
            in_text = True
            stack.append('BT')
        elif op == 'ET':
            if not in_text:
                bad.append(('balance-text', '#%d ET without BT' % idx))
            else:
                in_text = False
                if stack and stack[-1] == 'BT':
                    stack.pop()
                else:
                    bad.append(('nest-mc-text', '#%d ET closes a text object across an open marked-content sequence' % idx))
                    if 'BT' in stack:
                        stack.reverse(); stack.remove('BT'); stack.reverse()
        elif op in ('BMC', 'BDC'):
            stack.append('MC')
        elif op == 'EMC':
            if 'MC' not in stack:
                bad.append(('balance-mc', '#%d EMC without BMC/BDC' % idx))
            elif stack[-1] == 'MC':
                stack.pop()
            else:
                bad.append(('nest-mc-text', '#%d EMC closes a marked-content sequence across an open text object' % idx))
                stack.reverse(); stack.remove('MC'); stack.reverse()
        if in_text and op in NOT_IN_TEXT:
            bad.append(('special-gs-inside-BT', '#%d %s inside a text object' % (idx, op)))
        if not in_text and op in TEXT_ONLY:
            bad.append(('text-op-outside-BT', '#%d %s outside a text object' % (idx, op)))
        # --- named resources
        if arity is not None and len(args) == arity:
            if op == 'Tf' and isinstance(args[0], Name) and str(args[0]) not in cat('Font'):
                bad.append(('resource:Font', '#%d /%s not in /Font %s' % (idx, args[0], sorted(cat('Font'))[:12])))
            elif op == 'Do' and isinstance(args[0], Name) and str(args[0]) not in cat('XObject'):
                bad.append(('resource:XObject', '#%d /%s not in /XObject %s' % (idx, args[0], sorted(cat('XObject'))[:12])))
            elif op == 'gs' and isinstance(args[0], Name) and str(args[0]) not in cat('ExtGState'):
                bad.append(('resource:ExtGState', '#%d /%s not in /ExtGState %s' % (idx, args[0], sorted(cat('ExtGState'))[:12])))
            elif op == 'sh' and isinstance(args[0], Name) and str(args[0]) not in cat('Shading'):
                bad.append(('resource:Shading', '#%d /%s not in /Shading %s' % (idx, args[0], sorted(cat('Shading'))[:12])))
            elif op in ('cs', 'CS') and isinstance(args[0], Name) and str(args[0]) not in DEVICE_SPACES \
                    and str(args[0]) not in cat('ColorSpace'):
                bad.append(('resource:ColorSpace', '#%d /%s not in /ColorSpace %s' % (idx, args[0], sorted(cat('ColorSpace'))[:12])))
            elif op in ('BDC', 'DP') and isinstance(args[1], Name) and str(args[1]) not in cat('Properties'):
                bad.append(('resource:Properties', '#%d /%s not in /Properties' % (idx, args[1])))
    if qdepth:
        bad.append(('balance-q', '%d q left open at the end of the stream' % qdepth))
    if in_text:
        bad.append(('balance-text', 'BT left open at the end of the stream'))
    if 'MC' in stack:
        bad.append(('balance-mc', '%d BMC/BDC left open at the end of the stream' % stack.count('MC')))
    return bad


# ----------------------------------------------------------------------------------------- file structure

def _expect(bad, cond, clause, detail):
    if not cond:
        bad.append((clause, detail))


def check_structure(doc):
    """File-level well-formedness beyond what parse() records in doc.problems.  Returns [(clause, detail)]."""
    bad = [('syntax', p) for p in doc.problems]
    n0 = len(doc.problems)
    tr = doc.trailer
    if not doc.objects:
        return bad or [('syntax', 'no object could be read')]
    # trailer
    size = tr.get('Size')
    top = max(doc.xref) + 1 if doc.xref else 0
    _expect(bad, isinstance(size, int) and size == top, 'trailer-size', '/Size %r but highest object number + 1 = %d' % (size, top))
    _expect(bad, sorted(doc.xref) == list(range(top)), 'xref-contiguous', 'xref does not list objects 0..%d contiguously' % (top - 1))
    _expect(bad, doc.xref.get(0, ('?',))[0] == 'f', 'xref-zero', 'object 0 is not free: %r' % (doc.xref.get(0),))
    _expect(bad, isinstance(tr.get('Root'), Ref), 'trailer-root', '/Root is %r' % (tr.get('Root'),))
    root = doc.root
    _expect(bad, isinstance(root, dict) and root.get('Type') == 'Catalog', 'trailer-root', '/Root does not resolve to a /Catalog')
    if 'Info' in tr:
        _expect(bad, isinstance(tr['Info'], Ref) and isinstance(doc.resolve(tr['Info']), dict), 'trailer-info', '/Info %r' % (tr.get('Info'),))
    if 'ID' in tr:
        idv = tr['ID']
        _expect(bad, isinstance(idv, list) and len(idv) == 2 and all(isinstance(x, PDFString) for x in idv),
                'trailer-id', '/ID %r' % (idv,))
    # every reference anywhere resolves to an in-use object
    for num, val in doc.objects.items():
        for r in doc.refs_in(val):
            ent = doc.xref.get(r.num)
            if ent is None or ent[0] == 'f' or r.num not in doc.objects:
                bad.append(('dangling-ref', 'object %d refers to %r which is %s' % (num, r, 'free' if ent and ent[0] == 'f' else 'absent')))
            elif ent[0] == 'n' and ent[2] != r.gen or ent[0] == 'c' and r.gen != 0:
                bad.append(('dangling-ref', 'object %d refers to %r with a wrong generation' % (num, r)))
    for r in doc.refs_in(tr):
        if r.num not in doc.objects:
            bad.append(('dangling-ref', 'trailer refers to %r which is absent' % (r,)))
    if not isinstance(root, dict):
        return bad
    # page tree
    pages_ref = root.get('Pages')
    _expect(bad, isinstance(pages_ref, Ref), 'page-tree', '/Pages is %r' % (pages_ref,))

    def count_leaves(node_ref, parent_ref, depth=0):
        node = doc.resolve(node_ref)
        if not isinstance(node, dict) or depth > 60:
            bad.append(('page-tree', 'node %r is not a dictionary' % (node_ref,)))
            return 0
        if parent_ref is not None:
            _expect(bad, node.get('Parent') == parent_ref, 'page-tree', 'node %r has /Parent %r, expected %r' % (node_ref, node.get('Parent'), parent_ref))
        t = node.get('Type')
        if t == 'Pages':
            kids = doc.resolve(node.get('Kids'))
            if not isinstance(kids, list) or not all(isinstance(k, Ref) for k in kids):
                bad.append(('page-tree', 'node %r /Kids is %r' % (node_ref, kids)))
                return 0
            n = sum(count_leaves(k, node_ref, depth + 1) for k in kids)
            _expect(bad, node.get('Count') == n, 'page-tree', 'node %r /Count %r but %d leaves' % (node_ref, node.get('Count'), n))
            return n
        _expect(bad, t == 'Page', 'page-tree', 'node %r has /Type %r' % (node_ref, t))
        return 1
    count_leaves(pages_ref, None)
    for i, page in enumerate(doc.pages()):
        mb = doc.resolve(page.get('MediaBox'))
        _expect(bad, isinstance(mb, list) and len(mb) == 4 and all(_is_num(x) for x in mb), 'page-mediabox', 'page %d /MediaBox %r' % (i, mb))
        for key in ('CropBox', 'BleedBox', 'TrimBox', 'ArtBox'):
            if key in page:
                bx = doc.resolve(page[key])
                _expect(bad, isinstance(bx, list) and len(bx) == 4 and all(_is_num(x) for x in bx), 'page-box', 'page %d /%s %r' % (i, key, bx))
        res = doc.resolve(page.get('Resources'))
        _expect(bad, isinstance(res, dict), 'page-resources', 'page %d /Resources %r' % (i, type(res).__name__))
        c = doc.resolve(page.get('Contents'))
        parts = c if isinstance(c, list) else ([c] if c is not None else [])
        for p in parts:
            _expect(bad, isinstance(doc.resolve(p), StreamObj), 'page-contents', 'page %d /Contents member is %r' % (i, type(doc.resolve(p)).__name__))
        annots = doc.resolve(page.get('Annots'))
        if annots is not None:
            _expect(bad, isinstance(annots, list), 'page-annots', 'page %d /Annots %r' % (i, type(annots).__name__))
            for a in annots if isinstance(annots, list) else []:
                ad = doc.resolve(a)
                ok = isinstance(ad, dict) and isinstance(ad.get('Subtype'), Name)
                _expect(bad, ok, 'page-annots', 'page %d annotation %r is not an annotation dictionary' % (i, a))
                if ok:
                    rect = doc.resolve(ad.get('Rect'))
                    _expect(bad, isinstance(rect, list) and len(rect) == 4 and all(_is_num(x) for x in rect),
                            'page-annots', 'page %d annotation %r /Rect %r' % (i, a, rect))
    # kinds of the resources of every content stream, and every font dictionary reachable from them
    seen_fonts = set()
    for where, num, data, res in doc.walk_content_streams():
        bad.extend(check_resource_kinds(doc, res, where))
        fonts = doc.resolve(res.get('Font')) if isinstance(res, dict) else None
        for name, ref in (fonts.items() if isinstance(fonts, dict) else []):
            key = (ref.num if isinstance(ref, Ref) else id(ref))
            if key not in seen_fonts:
                seen_fonts.add(key)
                bad.extend(check_font(doc, ref, '%s /Font /%s' % (where, name)))
    acro = doc.resolve(root.get('AcroForm'))
    if isinstance(acro, dict):
        dr = doc.resolve(acro.get('DR'))
        if dr is not None:
            bad.extend(check_resource_kinds(doc, dr, 'AcroForm/DR'))
        for f in doc.resolve(acro.get('Fields')) or []:
            bad.extend(check_field_da(doc, f, dr))
    bad.extend(('syntax', p) for p in doc.problems[n0:])
    return bad


def check_resource_kinds(doc, res, where=''):
    bad = []
    if not isinstance(res, dict):
        return [('resource-kind', '%s: resources is %r' % (where, type(res).__name__))]
    for catname in ('Font', 'XObject', 'ExtGState', 'Pattern', 'Shading', 'ColorSpace', 'Properties'):
        if catname not in res:
            continue
        catd = doc.resolve(res[catname])
        if not isinstance(catd, dict):
            bad.append(('resource-kind', '%s: /%s is %r, not a dictionary' % (where, catname, catd if catd is None else type(catd).__name__)))
            continue
        for name, v in catd.items():
            o = doc.resolve(v)
            ok = True
            if catname == 'Font':
                ok = isinstance(o, dict) and o.get('Type') == 'Font' and isinstance(o.get('Subtype'), Name)
            elif catname == 'XObject':
                ok = isinstance(o, StreamObj) and o.dict.get('Subtype') in ('Image', 'Form', 'PS')
                if ok and o.dict.get('Subtype') == 'Form':
                    bb = doc.resolve(o.dict.get('BBox'))
                    ok = isinstance(bb, list) and len(bb) == 4 and all(_is_num(x) for x in bb)
                if ok and o.dict.get('Subtype') == 'Image':
                    ok = all(isinstance(doc.resolve(o.dict.get(k)), int) for k in ('Width', 'Height'))
            elif catname == 'ExtGState':
                ok = isinstance(o, dict)
                if ok and 'SMask' in o:
                    sm = doc.resolve(o['SMask'])
                    ok = sm == 'None' or (isinstance(sm, dict) and isinstance(doc.resolve(sm.get('G')), StreamObj)
                                          and sm.get('S') in ('Alpha', 'Luminosity'))
            elif catname == 'Pattern':
                d = o.dict if isinstance(o, StreamObj) else o
                ok = isinstance(d, dict) and d.get('PatternType') in (1, 2) and (d.get('PatternType') == 2 or isinstance(o, StreamObj))
            elif catname == 'Shading':
                d = o.dict if isinstance(o, StreamObj) else o
                ok = isinstance(d, dict) and isinstance(d.get('ShadingType'), int) and 'ColorSpace' in d
            elif catname == 'ColorSpace':
                ok = isinstance(o, (Name, list))
            elif catname == 'Properties':
                ok = isinstance(o, dict)
            if not ok:
                bad.append(('resource-kind', '%s: /%s /%s is not a valid %s object: %r' % (where, catname, name, catname, o if not isinstance(o, (dict, list)) else str(o)[:120])))
    return bad


# ------------------------------------------------------------------------------------------------- fonts

STANDARD_14 = {'Times-Roman', 'Times-Bold', 'Times-Italic', 'Times-BoldItalic', 'Helvetica', 'Helvetica-Bold',
               'Helvetica-Oblique', 'Helvetica-BoldOblique', 'Courier', 'Courier-Bold', 'Courier-Oblique',
               'Courier-BoldOblique', 'Symbol', 'ZapfDingbats'}


def _check_descriptor(doc, fd_ref, where, bad, embedded_required=True):
    fd = doc.resolve(fd_ref)
    if not isinstance(fd, dict) or fd.get('Type') != 'FontDescriptor':
        bad.append(('font', '%s: /FontDescriptor is %r' % (where, fd if not isinstance(fd, dict) else fd.get('Type'))))
        return
    if not isinstance(fd.get('FontName'), Name):
        bad.append(('font', '%s: FontDescriptor without /FontName' % where))
    for k in ('Flags',):
        if not isinstance(doc.resolve(fd.get(k)), int):
            bad.append(('font', '%s: FontDescriptor /%s is %r' % (where, k, fd.get(k))))
    for k in ('ItalicAngle', 'Ascent', 'Descent', 'CapHeight', 'StemV'):
        if k in fd and not _is_num(doc.resolve(fd[k])):
            bad.append(('font', '%s: FontDescriptor /%s is %r' % (where, k, fd.get(k))))
    bb = doc.resolve(fd.get('FontBBox'))
    if not (isinstance(bb, list) and len(bb) == 4 and all(_is_num(x) for x in bb)):
        bad.append(('font', '%s: FontDescriptor /FontBBox %r' % (where, bb)))
    files = [k for k in ('FontFile', 'FontFile2', 'FontFile3') if k in fd]
    if embedded_required and len(files) != 1:
        bad.append(('font', '%s: FontDescriptor has %d font files %s' % (where, len(files), files)))
    for k in files:
        st = doc.resolve(fd[k])
        if not isinstance(st, StreamObj):
            bad.append(('font', '%s: /%s is not a stream' % (where, k)))
        elif doc.stream_data(st) is None or not doc.stream_data(st):
            bad.append(('font', '%s: /%s is empty or cannot be decoded' % (where, k)))
    if 'CIDSet' in fd and not isinstance(doc.resolve(fd['CIDSet']), StreamObj):
        bad.append(('font', '%s: /CIDSet is not a stream' % where))


def _check_widths_array(w):
    """/W of a CIDFont: c [w1 ... wn]  or  cfirst clast w"""
    i = 0
    while i < len(w):
        if not (isinstance(w[i], int) and w[i] >= 0):
            return False
        if i + 1 < len(w) and isinstance(w[i + 1], list):
            if not all(_is_num(x) for x in w[i + 1]):
                return False
            i += 2
        elif i + 2 < len(w) and isinstance(w[i + 1], int) and _is_num(w[i + 2]):
            i += 3
        else:
            return False
    return True


def check_font(doc, ref, where=''):
    bad = []
    f = doc.resolve(ref)
    if not isinstance(f, dict) or f.get('Type') != 'Font':
        return [('font', '%s: not a font dictionary: %r' % (where, f if not isinstance(f, dict) else f.get('Type')))]
    sub = f.get('Subtype')
    if 'ToUnicode' in f:
        tu = doc.resolve(f['ToUnicode'])
        data = doc.stream_data(tu) if isinstance(tu, StreamObj) else None
        if data is None or b'begincmap' not in data or b'endcmap' not in data:
            bad.append(('font', '%s: /ToUnicode is not a CMap stream' % where))
        else:
            for m in re.finditer(rb'(\d+) beginbfchar(.*?)endbfchar', data, re.S):
                n = len(re.findall(rb'<[0-9A-Fa-f]*>\s*<[0-9A-Fa-f]*>', m.group(2)))
                if n != int(m.group(1)) or n > 100:
                    bad.append(('font', '%s: ToUnicode bfchar block announces %s entries, has %d' % (where, m.group(1).decode(), n)))
    if sub == 'Type0':
        if not isinstance(f.get('BaseFont'), Name):
            bad.append(('font', '%s: Type0 without /BaseFont' % where))
        if not isinstance(doc.resolve(f.get('Encoding')), (Name, StreamObj)):
            bad.append(('font', '%s: Type0 /Encoding is %r' % (where, f.get('Encoding'))))
        desc = doc.resolve(f.get('DescendantFonts'))
        if not (isinstance(desc, list) and len(desc) == 1):
            bad.append(('font', '%s: /DescendantFonts is %r' % (where, desc)))
            return bad
        cid = doc.resolve(desc[0])
        if not (isinstance(cid, dict) and cid.get('Type') == 'Font' and cid.get('Subtype') in ('CIDFontType0', 'CIDFontType2')):
            bad.append(('font', '%s: descendant font is %r' % (where, cid if not isinstance(cid, dict) else (cid.get('Type'), cid.get('Subtype')))))
            return bad
        csi = doc.resolve(cid.get('CIDSystemInfo'))
        if not (isinstance(csi, dict) and isinstance(csi.get('Registry'), PDFString) and isinstance(csi.get('Ordering'), PDFString)
                and isinstance(csi.get('Supplement'), int)):
            bad.append(('font', '%s: CIDFont /CIDSystemInfo %r' % (where, csi)))
        if 'W' in cid:
            w = doc.resolve(cid['W'])
            if not (isinstance(w, list) and _check_widths_array([doc.resolve(x) for x in w])):
                bad.append(('font', '%s: CIDFont /W is malformed: %r' % (where, str(w)[:100])))
        if 'CIDToGIDMap' in cid and not isinstance(doc.resolve(cid['CIDToGIDMap']), (Name, StreamObj)):
            bad.append(('font', '%s: /CIDToGIDMap %r' % (where, cid['CIDToGIDMap'])))
        if 'FontDescriptor' not in cid:
            bad.append(('font', '%s: CIDFont without /FontDescriptor' % where))
        else:
            _check_descriptor(doc, cid['FontDescriptor'], where, bad)
    elif sub == 'Type3':
        cp = doc.resolve(f.get('CharProcs'))
        enc = doc.resolve(f.get('Encoding'))
        fm = doc.resolve(f.get('FontMatrix'))
        bb = doc.resolve(f.get('FontBBox'))
        if not (isinstance(fm, list) and len(fm) == 6 and all(_is_num(x) for x in fm)):
            bad.append(('font', '%s: Type3 /FontMatrix %r' % (where, fm)))
        if not (isinstance(bb, list) and len(bb) == 4 and all(_is_num(x) for x in bb)):
            bad.append(('font', '%s: Type3 /FontBBox %r' % (where, bb)))
        if not isinstance(cp, dict):
            bad.append(('font', '%s: Type3 /CharProcs %r' % (where, type(cp).__name__)))
            cp = {}
        for g, st in cp.items():
            if not isinstance(doc.resolve(st), StreamObj):
                bad.append(('font', '%s: CharProc /%s is not a stream' % (where, g)))
        if not isinstance(enc, (Name, dict)):
            bad.append(('font', '%s: Type3 /Encoding %r' % (where, enc)))
        elif isinstance(enc, dict):
            diffs = doc.resolve(enc.get('Differences')) or []
            for x in diffs:
                if isinstance(x, Name) and str(x) not in cp:
                    bad.append(('font', '%s: /Differences names /%s which has no CharProc' % (where, x)))
                    break
        fc, lc, ws = doc.resolve(f.get('FirstChar')), doc.resolve(f.get('LastChar')), doc.resolve(f.get('Widths'))
        if not (isinstance(fc, int) and isinstance(lc, int) and isinstance(ws, list) and fc <= lc and len(ws) == lc - fc + 1
                and all(_is_num(doc.resolve(x)) for x in ws)):
            bad.append(('font', '%s: Type3 FirstChar %r LastChar %r and %s widths' % (where, fc, lc, len(ws) if isinstance(ws, list) else ws)))
    elif sub in ('Type1', 'MMType1', 'TrueType'):
        base = f.get('BaseFont')
        if not isinstance(base, Name):
            bad.append(('font', '%s: %s without /BaseFont' % (where, sub)))
        elif not (sub == 'Type1' and str(base) in STANDARD_14):
            if 'FontDescriptor' not in f:
                bad.append(('font', '%s: %s font /%s is not a standard font and has no /FontDescriptor' % (where, sub, base)))
            else:
                _check_descriptor(doc, f['FontDescriptor'], where, bad, embedded_required=False)
    else:
        bad.append(('font', '%s: unknown font /Subtype %r' % (where, sub)))
    return bad


def check_field_da(doc, fref, dr, depth=0):
    """the default appearance string of a form field names a font of /AcroForm /DR (ISO 32000-1 12.7.3.3)"""
    bad = []
    f = doc.resolve(fref)
    if not isinstance(f, dict) or depth > 20:
        return bad
    da = f.get('DA')
    if isinstance(da, PDFString):
        try:
            ops = tokenize_content(bytes(da))
        except PDFError as exc:
            return [('field-da', 'field %r: /DA does not tokenize: %s' % (fref, exc))]
        fonts = doc.resolve(dr.get('Font')) if isinstance(dr, dict) else None
        for op, args in ops:
            if op == 'Tf' and len(args) == 2 and isinstance(args[0], Name):
                if not isinstance(fonts, dict) or str(args[0]) not in fonts:
                    bad.append(('resource:Font', 'field %r: /DA selects /%s which is not in /AcroForm /DR /Font %s' % (
                        fref, args[0], sorted(fonts)[:8] if isinstance(fonts, dict) else fonts)))
    for kid in doc.resolve(f.get('Kids')) or []:
        bad.extend(check_field_da(doc, kid, dr, depth + 1))
    return bad


# ------------------------------------------------------------------------------ closure facts (for the Coq judge)

USE_CATEGORY = {'Tf': ('Font', 0), 'Do': ('XObject', 0), 'gs': ('ExtGState', 0), 'sh': ('Shading', 0),
                'cs': ('ColorSpace', 0), 'CS': ('ColorSpace', 0), 'BDC': ('Properties', 1), 'DP': ('Properties', 1)}
CATEGORIES = ['Font', 'XObject', 'ExtGState', 'Shading', 'ColorSpace', 'Pattern', 'Properties']


def uses_of(ops):
    """[(category, name)] named by the operators of a tokenized content stream"""
    out = []
    for op, args in ops:
        if op in USE_CATEGORY:
            cat, idx = USE_CATEGORY[op]
            if len(args) > idx and isinstance(args[idx], Name):
                if cat == 'ColorSpace' and str(args[idx]) in DEVICE_SPACES:
                    continue
                out.append((cat, str(args[idx])))
        elif op in ('scn', 'SCN') and args and isinstance(args[-1], Name):
            out.append(('Pattern', str(args[-1])))
    return out


def closure_facts(doc):
    facts = []
    type3_done = set()
    for where, num, data, res in doc.walk_content_streams():
        defs = {}
        for cat in CATEGORIES:
            d = doc.resolve(res.get(cat)) if isinstance(res, dict) else None
            defs[cat] = sorted(d) if isinstance(d, dict) else []
        try:
            ops = tokenize_content(data) if data is not None else []
        except PDFError:
            ops = []
        facts.append({'where': where, 'defs': defs, 'uses': uses_of(ops)})
        fonts = doc.resolve(res.get('Font')) if isinstance(res, dict) else None
        for name, ref in (fonts.items() if isinstance(fonts, dict) else []):
            f = doc.resolve(ref)
            if isinstance(f, dict) and f.get('Subtype') == 'Type3' and id(f) not in type3_done:
                type3_done.add(id(f))
                fres = doc.resolve(f.get('Resources'))
                fres = fres if isinstance(fres, dict) else res
                for g, st in (doc.resolve(f.get('CharProcs')) or {}).items():
                    d2 = doc.stream_data(st)
                    try:
                        ops2 = tokenize_content(d2) if d2 is not None else []
                    except PDFError:
                        ops2 = []
                    defs2 = {}
                    for cat in CATEGORIES:
                        dd = doc.resolve(fres.get(cat)) if isinstance(fres, dict) else None
                        defs2[cat] = sorted(dd) if isinstance(dd, dict) else []
                    facts.append({'where': '%s>Font/%s/CharProcs/%s' % (where, name, g), 'defs': defs2, 'uses': uses_of(ops2)})
    return facts
