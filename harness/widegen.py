"""Wide document generator for the conservation / fit monitors (C01, C03, C02): a grammar larger than the
fragmentation model's: blocks, paragraphs with inline markup, lists, tables with head/foot and spans,
multi-column, floats, absolutely positioned boxes, footnotes, flex and grid containers, display:none,
forced/avoided breaks, orphans/widows.  Every word is unique; the generator returns the document together with
its leaf elements: (html, leaves) with leaves = list of dict(id, words, kind, repeat, hidden, ctx)."""
import random
import fraggen

BV = ['page', 'avoid', 'left', 'right', 'auto', 'always', 'avoid-page', 'recto', 'verso', 'column', 'avoid-column']


class G:
    def __init__(self, rng, feats):
        self.rng = rng
        self.feats = feats
        self.n = 0
        self.leaves = []
        self.fn_prob = 0.06

    def words(self, n):
        ws = [fraggen.word(self.n + i) for i in range(n)]
        self.n += n
        return ws

    def leaf(self, ws, kind, ctx, repeat=False, hidden=False):
        lid = len(self.leaves)
        self.leaves.append(dict(id=lid, words=ws, kind=kind, repeat=repeat, hidden=hidden, ctx=list(ctx)))
        return lid

    def style(self, depth):
        rng = self.rng
        css = []
        if rng.random() < 0.25:
            css.append('margin-top:%dpx' % rng.choice([0, 5, 10, 20, -5]))
        if rng.random() < 0.25:
            css.append('margin-bottom:%dpx' % rng.choice([0, 5, 10, 20, -5]))
        if rng.random() < 0.15:
            css.append('padding-top:%dpx' % rng.choice([0, 3, 10]))
        if rng.random() < 0.15:
            css.append('padding-bottom:%dpx' % rng.choice([0, 3, 10]))
        if rng.random() < 0.15:
            css.append('border-top:%dpx solid' % rng.choice([1, 4]))
        if rng.random() < 0.15:
            css.append('border-bottom:%dpx solid' % rng.choice([1, 4]))
        if 'break' in self.feats:
            if rng.random() < 0.1:
                css.append('break-before:' + rng.choice(BV))
            if rng.random() < 0.1:
                css.append('break-after:' + rng.choice(BV))
            if rng.random() < 0.1:
                css.append('break-inside:' + rng.choice(['avoid', 'avoid-page']))
        if rng.random() < 0.1:
            css.append('orphans:%d' % rng.randint(1, 4))
        if rng.random() < 0.1:
            css.append('widows:%d' % rng.randint(1, 4))
        if rng.random() < 0.07:
            css.append('box-decoration-break:clone')
        return ';'.join(css)

    def inline_text(self, ws, ctx):
        """words with some inline markup and possibly footnotes; returns html"""
        rng = self.rng
        out = []
        i = 0
        while i < len(ws):
            r = rng.random()
            if r < 0.15 and i + 1 < len(ws):
                tag = rng.choice(['b', 'i', 'span', 'em'])
                st = rng.choice(['', ' style="padding:0 1px"', ' style="border:1px solid"'])
                out.append('<%s%s>%s %s</%s>' % (tag, st, ws[i], ws[i + 1], tag))
                i += 2
            else:
                out.append(ws[i])
                i += 1
            if 'footnote' in self.feats and rng.random() < self.fn_prob:
                fw = self.words(1)
                self.leaf(fw, 'footnote', ctx + ['footnote'])
                out.append('<span style="float:footnote">%s</span>' % fw[0])
        return ' '.join(out)

    def para(self, ctx, nmax=8, tag='p', extra=''):
        n = self.rng.choice([1, 1, 2, 3, 5, nmax])
        ws = self.words(n)
        self.leaf(ws, 'para', ctx)
        body = self.inline_text(ws, ctx)
        return '<%s style="%s%s">%s</%s>' % (tag, self.style(9), extra, body, tag)

    def block(self, depth, ctx):
        rng = self.rng
        kinds = ['para'] * 6 + ['div'] * 3
        for f, k in (('list', 'list'), ('table', 'table'), ('columns', 'columns'), ('float', 'float'),
                     ('abs', 'abs'), ('flex', 'flex'), ('grid', 'grid'), ('none', 'none'), ('fixed', 'fixed')):
            if f in self.feats:
                kinds += [k] * (2 if k in ('table', 'columns', 'list') else 1)
        if depth >= 3:
            kinds = ['para']
        k = rng.choice(kinds)
        if k == 'para':
            return self.para(ctx)
        if k == 'div':
            return '<div style="%s">%s</div>' % (self.style(depth), ''.join(
                self.block(depth + 1, ctx + ['div']) for _ in range(rng.choice([0, 1, 2, 3]))))
        if k == 'list':
            tag = rng.choice(['ul', 'ol'])
            return '<%s style="%s">%s</%s>' % (tag, self.style(depth), ''.join(
                self.para(ctx + ['li'], 4, 'li') for _ in range(rng.choice([1, 2, 3, 5]))), tag)
        if k == 'table':
            return self.table(depth, ctx)
        if k == 'columns':
            return '<div style="columns:%d;column-gap:4px;%s">%s</div>' % (rng.choice([2, 3]), self.style(depth), ''.join(
                self.para(ctx + ['columns']) for _ in range(rng.choice([1, 2, 4]))))
        if k == 'float':
            ws = self.words(1)
            self.leaf(ws, 'float', ctx + ['float'])
            return '<div style="float:%s;width:72px">%s</div>' % (rng.choice(['left', 'right']), ws[0])
        if k == 'abs':
            ws = self.words(1)
            self.leaf(ws, 'abs', ctx + ['abs'])
            return '<div style="position:absolute;%s:0">%s</div>' % (rng.choice(['left', 'right']), ws[0])
        if k == 'fixed':
            ws = self.words(1)
            self.leaf(ws, 'fixed', ctx + ['fixed'], repeat=True)
            return '<div style="position:fixed;bottom:0;right:0">%s</div>' % ws[0]
        if k == 'none':
            ws = self.words(2)
            self.leaf(ws, 'none', ctx + ['none'], hidden=True)
            return '<div style="display:none">%s %s</div>' % tuple(ws)
        if k == 'flex':
            items = []
            for _ in range(rng.choice([1, 2, 3])):
                ws = self.words(1)
                self.leaf(ws, 'flexitem', ctx + ['flex'])
                items.append('<div style="flex:1">%s</div>' % ws[0])
            return '<div style="display:flex">%s</div>' % ''.join(items)
        if k == 'grid':
            items = []
            for _ in range(rng.choice([1, 2, 4])):
                ws = self.words(1)
                self.leaf(ws, 'griditem', ctx + ['grid'])
                items.append('<div>%s</div>' % ws[0])
            return '<div style="display:grid;grid-template-columns:1fr 1fr">%s</div>' % ''.join(items)
        raise AssertionError(k)

    def table(self, depth, ctx):
        rng = self.rng
        ncols = rng.choice([1, 2, 3])
        parts = []

        def row(c, repeat=False):
            cells = []
            col = 0
            while col < ncols:
                span = 1
                if rng.random() < 0.15 and col + 1 < ncols:
                    span = 2
                n = rng.choice([1, 1, 2, 3])
                ws = self.words(n)
                self.leaf(ws, 'cell', c, repeat=repeat)
                cells.append('<td%s>%s</td>' % (' colspan=2' if span == 2 else '', ' '.join(ws)))
                col += span
            return '<tr>%s</tr>' % ''.join(cells)
        if rng.random() < 0.4:
            parts.append('<thead>%s</thead>' % row(ctx + ['table', 'thead'], repeat=True))
        if rng.random() < 0.3:
            parts.append('<tfoot>%s</tfoot>' % row(ctx + ['table', 'tfoot'], repeat=True))
        parts.append('<tbody>%s</tbody>' % ''.join(row(ctx + ['table']) for _ in range(rng.choice([1, 2, 4, 8, 14]))))
        return ('<table style="border-spacing:0;%s;border-collapse:%s">%s</table>'
                % (self.style(depth), rng.choice(['separate', 'collapse']), ''.join(parts)))


ALL_FEATS = ('break', 'list', 'table', 'columns', 'float', 'abs', 'flex', 'grid', 'none', 'fixed', 'footnote')


def document(rng, feats=ALL_FEATS, heights=(40, 50, 60, 80, 100, 150, 200, 35, 45)):
    g = G(rng, set(feats))
    H = rng.choice(heights)
    W = rng.choice([160, 200, 240])
    fn_css = ''
    if 'footnote' in g.feats and rng.random() < 0.35:
        # footnote-heavy document with a decorated footnote area
        g.fn_prob = rng.choice([0.15, 0.3])
        fn_css = '@page{@footnote{margin-top:%dpx;padding-top:%dpx;border-top:%dpx solid}}' % (
            rng.choice([0, 5, 12]), rng.choice([0, 0, 3]), rng.choice([0, 0, 1]))
    body = ''.join(g.block(0, []) for _ in range(rng.choice([1, 2, 3, 5, 8])))
    html = ('<style>@page{size:%dpx %dpx; margin:0} %s html{font-family:weasyprint;font-size:10px;line-height:10px}'
            'body{margin:0} p,ul,ol{margin:0} td{padding:0}</style>' % (W, H, fn_css)) + body
    return html, g.leaves, H


def split_document(rng):
    """Documents whose tables and multi-column boxes are SPLIT over three pages or more: table rows whose cells hold
    several paragraphs (some tall and unbreakable, some wrapping one word per line) next to short cells, with or
    without thead/tfoot, separate or collapsed borders; multi-column boxes with `column-span: all` children, blocks
    that avoid breaks and blocks taller than the room left, after some content on the page."""
    g = G(rng, set())
    H = rng.choice([24, 30, 40, 50, 60, 80])
    W = rng.choice([160, 200, 240])
    parts = []

    def cell_content(ctx):
        out = []
        for _ in range(rng.choice([1, 1, 2, 3])):
            ws = g.words(rng.choice([1, 2, 3, 5]))
            g.leaf(ws, 'para', ctx)
            st = []
            r = rng.random()
            if r < 0.2:
                st.append('font-size:%dpx;line-height:%dpx' % ((rng.choice([7, 14, 20]),) * 2))
            elif r < 0.3:
                st.append('break-inside:avoid')
            if rng.random() < 0.2:
                st.append('padding-bottom:%dpx' % rng.choice([3, 8]))
            out.append('<p style="margin:0;%s">%s</p>' % (';'.join(st), ' '.join(ws)))
        return ''.join(out)

    def table():
        ncols = rng.choice([2, 2, 3])
        rows = []
        for _ in range(rng.choice([1, 1, 2, 3])):
            cells = []
            for c in range(ncols):
                if rng.random() < 0.25:
                    ws = g.words(1)
                    g.leaf(ws, 'cell', ['split', 'table'])
                    cells.append('<td>%s</td>' % ws[0])
                else:
                    cells.append('<td style="%s">%s</td>' % (rng.choice(['', '', 'padding-bottom:3px', 'border:2px solid']),
                                                          cell_content(['split', 'table', 'cell'])))
            rows.append('<tr>%s</tr>' % ''.join(cells))
        head = foot = ''
        if rng.random() < 0.6:
            ws = g.words(1)
            g.leaf(ws, 'cell', ['split', 'table', 'thead'], repeat=True)
            head = '<thead><tr><th colspan=%d>%s</th></tr></thead>' % (ncols, ws[0])
        if rng.random() < 0.3:
            ws = g.words(1)
            g.leaf(ws, 'cell', ['split', 'table', 'tfoot'], repeat=True)
            foot = '<tfoot><tr><td colspan=%d>%s</td></tr></tfoot>' % (ncols, ws[0])
        return ('<table style="border-spacing:0;width:100%%;table-layout:fixed;border-collapse:%s">%s%s<tbody>%s</tbody></table>'
                % (rng.choice(['separate', 'collapse']), head, foot, ''.join(rows)))

    def columns():
        kids = []
        for _ in range(rng.choice([2, 3, 5, 7])):
            r = rng.random()
            ws = g.words(rng.choice([1, 2, 3, 4]))
            if r < 0.25:
                g.leaf(ws, 'para', ['split', 'columns', 'span'])
                kids.append('<h4 style="column-span:all;margin:0;font-size:10px;font-weight:normal">%s</h4>' % ' '.join(ws))
            elif r < 0.5:
                g.leaf(ws, 'para', ['split', 'columns', 'avoid'])
                kids.append('<section style="break-inside:avoid">%s</section>' % '<br>'.join(ws))
            else:
                g.leaf(ws, 'para', ['split', 'columns'])
                kids.append('<p style="margin:0">%s</p>' % ' '.join(ws))
        return '<div style="columns:%d;column-gap:4px">%s</div>' % (rng.choice([2, 3]), ''.join(kids))

    for _ in range(rng.choice([1, 2, 3])):
        r = rng.random()
        if r < 0.3:
            ws = g.words(rng.choice([1, 2, 4]))
            g.leaf(ws, 'para', ['split'])
            parts.append('<p style="margin:0">%s</p>' % '<br>'.join(ws))
        elif r < 0.7:
            parts.append(table())
        else:
            parts.append(columns())
    html = ('<style>@page{size:%dpx %dpx; margin:0} html{font-family:weasyprint;font-size:10px;line-height:10px}'
            'body{margin:0} td,th{padding:0;font-weight:normal;text-align:left}</style>' % (W, H)) + ''.join(parts)
    return html, g.leaves, H


def inline_document(rng):
    """Paragraphs that are inline formatting contexts with real line breaking INSIDE inline boxes: many short-looking
    words per line (small font sizes), inline boxes with start / end margin, border and padding of every size (also
    wider than the room left on the line), nested inline boxes, inline-blocks holding a word, forced line breaks,
    in ltr and rtl, with box-decoration-break: clone or slice; blocks are split over pages of a few lines."""
    g = G(rng, set())
    H = rng.choice([20, 30, 40, 60])
    W = rng.choice([120, 160, 200, 240])
    parts = []

    def spacing():
        st = []
        for side in ('left', 'right'):
            r = rng.random()
            if r < 0.45:
                st.append('padding-%s:%dpx' % (side, rng.choice([1, 5, 10, 20, 40, 80])))
            if rng.random() < 0.2:
                st.append('border-%s:%dpx solid' % (side, rng.choice([1, 3, 10])))
            if rng.random() < 0.2:
                st.append('margin-%s:%dpx' % (side, rng.choice([2, 10, 30, -3])))
        if rng.random() < 0.15:
            st.append('box-decoration-break:clone')
        return ';'.join(st)

    def run_of(ws, depth):
        out, i = [], 0
        while i < len(ws):
            r = rng.random()
            if r < 0.3 and depth < 3:
                n = min(len(ws) - i, rng.choice([1, 2, 3, 5, 8, 12]))
                out.append('<span style="%s">%s</span>' % (spacing(), run_of(ws[i:i + n], depth + 1)))
                i += n
            elif r < 0.36:
                out.append('<span style="display:inline-block;%s">%s</span>' % (spacing(), ws[i]))
                i += 1
            elif r < 0.4:
                out.append(ws[i] + '<br>')
                i += 1
            else:
                out.append(ws[i])
                i += 1
        return ' '.join(out)

    for _ in range(rng.choice([1, 2, 3])):
        ws = g.words(rng.choice([3, 6, 10, 16, 24, 40]))
        g.leaf(ws, 'para', ['inline'])
        fs = rng.choice([2, 3, 4, 5, 10])
        st = ['font-size:%dpx' % fs, 'line-height:%dpx' % rng.choice([fs, 10])]
        if rng.random() < 0.25:
            st.append('direction:rtl')
        if rng.random() < 0.2:
            st.append('text-align:%s' % rng.choice(['right', 'center', 'justify']))
        if rng.random() < 0.2:
            st.append('orphans:%d;widows:%d' % (rng.randint(1, 3), rng.randint(1, 3)))
        if rng.random() < 0.15:
            st.append('text-indent:%dpx' % rng.choice([10, 40, -5]))
        parts.append('<p style="margin:0;%s">%s</p>' % (';'.join(st), run_of(ws, 0)))
    html = ('<style>@page{size:%dpx %dpx; margin:0} html{font-family:weasyprint;font-size:10px;line-height:10px}'
            'body{margin:0}</style>' % (W, H)) + ''.join(parts)
    return html, g.leaves, H
