"""C16 - the output is a well-formed, self-consistent PDF under every option."""
import random, json, os, sys, re
import common
from common import zlit
import impl_c16 as I

PRE = ('From Coq Require Import ZArith List Bool.\nRequire Import WV.model.C16Stream.\n'
       'Import ListNotations.\nOpen Scope Z_scope.\n')

# ------------------------------------------------------------------------------- Coq printing of cases


def cb(b):
    return 'true' if b else 'false'


def copt(x, f=str):
    return 'None' if x is None else '(Some %s)' % f(x)


def cmat(v):
    return '(%s)' % ', '.join(zlit(int(x)) for x in v)


def ccolor(idx):
    space, _ = I.COLORS[idx]
    sp = I.SPACES.index(space)
    # channel-tuple id: the palette index itself (distinct tuples within a space have distinct ids)
    return '(%s, %s)' % (zlit(sp), zlit(idx))


def cfont(f):
    return '(%s, %s)' % (zlit(f[0]), zlit(f[1]))


_ALPHA_BY_STR = {str(v): (th, isint) for v, th, isint in I.ALPHAS}


def ckey(s):
    if s[0] in 'aA' and s[1:] in _ALPHA_BY_STR:
        th, isint = _ALPHA_BY_STR[s[1:]]
        return '(KA %s %s %s)' % (cb(s[0] == 'A'), zlit(th), cb(isint))
    m = re.fullmatch(r's(\d+)', s)
    if m:
        return '(KS %s)' % zlit(int(m.group(1)))
    raise ValueError('unknown ExtGState key %r' % s)


def cgsval(ca, CA):
    return '(%s, %s)' % (copt(ca, zlit), copt(CA, zlit))


def cop(o):
    k = o[0]
    if k == 'push':
        return 'Push'
    if k == 'pop':
        return 'Pop'
    if k == 'bt':
        return 'BeginText'
    if k == 'et':
        return 'EndText'
    if k == 'color':
        th, isint = I.ALPHAS[o[3]][1:]
        return '(SetColor %s %s %s %s)' % (cb(o[1]), ccolor(o[2]), zlit(th), cb(isint))
    if k == 'alpha':
        th, isint = I.ALPHAS[o[1]][1:]
        return '(SetAlpha %s %s %s %s)' % (zlit(th), cb(isint), cb(o[2]), copt(o[3], cb))
    if k == 'font':
        return '(SetFont %s)' % cfont(o[1:3])
    if k == 'state':
        f = lambda i: zlit(I.ALPHAS[i][1])
        return '(SetState %s %s)' % (copt(o[1], f), copt(o[2], f))
    if k == 'pattern':
        return '(PatternColor %s %s)' % (cb(o[1]), zlit(o[2]))
    if k == 'cm':
        return '(Transform %s)' % cmat(o[1:])
    if k == 'tm':
        return '(TextMatrix %s)' % cmat(o[1:])
    if k == 'bmc':
        return '(BeginMC %s)' % cb(o[1])
    if k == 'emc':
        return 'EndMC'
    if k == 'tok':
        return '(Tok %s)' % zlit(o[1])
    raise ValueError(o)


def ctok(t):
    k = t[0]
    if k in ('q', 'Q', 'BT', 'ET', 'BMC', 'BDC', 'EMC'):
        return 'T' + k
    if k == 'gs':
        return '(Tgs %s %s)' % (ckey(t[1]), cgsval(t[2], t[3]))
    if k == 'rg':
        return '(Trg %s %s)' % (cb(t[1]), ccolor(t[2]))
    if k == 'scn':
        return '(Tscn %s %s)' % (cb(t[1]), ccolor(t[2]))
    if k == 'cs':
        return '(Tcs %s %s)' % (cb(t[1]), zlit(t[2]))
    if k == 'pat':
        return '(Tpat %s %s)' % (cb(t[1]), zlit(t[2]))
    if k == 'Tf':
        return '(Tfont %s)' % cfont(t[1:3])
    if k == 'cm':
        return '(Tcm %s)' % cmat(t[1:])
    if k == 'Tm':
        return '(Ttm %s)' % cmat(t[1:])
    if k == 'tag':
        return 'Ttag'
    if k == 'props':
        return '(Tprops %s)' % zlit(t[1])
    if k == 'other':
        return '(Tother %s)' % zlit(t[1])
    raise ValueError(t)


def clist(items):
    return '[%s]' % '; '.join(items)


def cout(o):
    if o is None or 'raised' in o:
        return 'None'
    return ('(Some (iomk %s %s %s %s %s %s %s %s %s %s))' % (
        clist(ctok(t) for t in o['toks']), clist(cmat(m) for m in o['ctms']),
        copt(o['col'], ccolor), copt(o['cols'], ccolor), copt(o['alpha'], ckey), copt(o['alphas'], ckey),
        copt(o['font'], cfont), copt(o['ofont'], cfont), clist('(%s, %s)' % (ckey(k[0]), cgsval(k[1], k[2])) for k in o['keys']), zlit(o['nmark'])))


def ccase(c, o):
    return '(%s, %s, %s, %s)' % (cb(c['mark']), clist(ckey(k) for k in c['keys0']), clist(cop(x) for x in c['ops']), cout(o))


CASE_T = 'bool * list key * list op * option implout'

# ------------------------------------------------------------------------------- generators of call sequences

MATS = [(1, 0, 0, 1, 0, 0), (2, 0, 0, 2, 0, 0), (1, 0, 0, -1, 0, 75), (0, 1, -1, 0, 3, 4), (1, 2, 3, 4, 5, 6), (0, 0, 0, 0, 0, 0)]


def gen_ops(rng, n, wellformed=True, hot=None):
    """A call sequence; when `wellformed`, nested like `with stacked` / paired begin_text..end_text /
    begin..end_marked_content produce.  `hot` biases towards a family of situations."""
    ops, stack = [], []
    ncol = rng.choice([2, 3, len(I.COLORS)])       # few colours -> many cache hits
    nalpha = rng.choice([2, 3, len(I.ALPHAS)])
    cols = rng.sample(range(len(I.COLORS)), ncol)
    alphas = rng.sample(range(len(I.ALPHAS)), nalpha)

    def setter():
        r = rng.random()
        if r < 0.4:
            return ['color', rng.random() < 0.3, rng.choice(cols), rng.choice([a for a in alphas if a < 4] or [3])]  # Color() stores a float alpha
        if r < 0.6:
            return ['alpha', rng.choice(alphas), rng.random() < 0.4, rng.choice([None, None, True, False])]
        if r < 0.85:
            return ['font', rng.randrange(len(I.FONTS) if rng.random() < 0.3 else 2), rng.randrange(2)]
        if hot == 'raw' or rng.random() < 0.25:
            if rng.random() < 0.5:
                return ['pattern', rng.random() < 0.3, rng.randrange(3)]
            return ['state'] + rng.choice([[None, None], [4, None], [None, None], [rng.choice(alphas), None],
                                           [None, rng.choice(alphas)], [rng.choice(alphas), rng.choice(alphas)]])
        return ['tok', rng.randrange(len(I.RAW))]

    while len(ops) < n:
        intext = bool(stack) and stack[-1] == 't'
        r = rng.random()
        if not wellformed and r < 0.08:
            ops.append(rng.choice([['push'], ['pop'], ['bt'], ['et'], ['emc'], ['bmc', True], ['cm'] + list(rng.choice(MATS)),
                                   ['tm'] + list(rng.choice(MATS))]))
            continue
        if intext:
            if r < 0.3:
                ops.append(['et']); stack.pop()
            elif r < 0.55:
                ops.append(['tm'] + list(rng.choice(MATS)))
            elif r < 0.75:
                ops.append(['tok', rng.choice([8, 13, 14, 19, 7])])
            else:
                ops.append(setter())
            continue
        if r < 0.22:
            ops.append(['push']); stack.append('q')
            if rng.random() < (0.5 if hot == 'peephole' else 0.15):
                ops.append(['pop']); stack.pop()
        elif r < 0.40 and stack and stack[-1] == 'q':
            ops.append(['pop']); stack.pop()
        elif r < 0.55:
            ops.append(['bt']); stack.append('t')
            if rng.random() < 0.3:
                ops.append(['et']); stack.pop()
        elif r < 0.62:
            ops.append(['bmc', rng.random() < 0.7]); stack.append('m')
        elif r < 0.70 and stack and stack[-1] == 'm':
            ops.append(['emc']); stack.pop()
        elif r < 0.78:
            ops.append(['cm'] + list(rng.choice(MATS)))
        elif r < 0.86:
            ops.append(['tok', rng.randrange(len(I.RAW))])
        else:
            ops.append(setter())
    while stack:
        ops.append({'q': ['pop'], 't': ['et'], 'm': ['emc']}[stack.pop()])
    return ops


FIXED_SEQS = [
    [],
    [['push'], ['pop']],
    [['bt'], ['et'], ['bt'], ['et']],
    [['bt'], ['tm', 1, 0, 0, 1, 0, 0], ['font', 0, 0], ['tok', 8], ['et'], ['push'], ['pop'], ['bt'], ['tm', 1, 0, 0, 1, 5, 5],
     ['font', 0, 0], ['tok', 8], ['et']],
    [['push'], ['push'], ['pop'], ['pop']],
    [['pop']],
    [['push'], ['pop'], ['pop']],
    # F12: an ExtGState with /ca 1 installed behind the alpha cache (set_alpha_state)
    [['alpha', 2, False, None], ['push'], ['state', 4, None], ['alpha', 2, False, None], ['tok', 0], ['tok', 1], ['pop']],
    # F12b: Pattern colour installed behind the colour cache
    [['color', False, 0, 3], ['push'], ['pattern', False, 0], ['tok', 0], ['tok', 1], ['push'], ['color', False, 0, 3],
     ['tok', 0], ['tok', 1], ['pop'], ['pop']],
]


def check_stream_direct(run, rng, n):
    cases = []
    for ops in FIXED_SEQS:
        for mark in (False, True):
            cases.append({'mark': mark, 'keys0': [], 'ops': ops})
    while len(cases) < n:
        r = rng.random()
        wf = r < 0.8
        hot = rng.choice([None, None, 'peephole', 'raw'])
        keys0 = rng.choice([[], [], ['a1.0'], ['a0.5', 's1', 'A1'], ['s0'], ['s1'], ['a1', 's7']])
        cases.append({'mark': rng.random() < 0.4, 'keys0': keys0,
                      'ops': gen_ops(rng, rng.choice([3, 6, 12, 25, 60, 150]), wf, hot)})
    outs = common.run_impl('impl_c16', 'stream_direct', cases, chunksize=32)
    coq_cases, kept = [], []
    for c, (st, o) in zip(cases, outs):
        if st != 'ok':
            run.oblige('corr:stream-direct:impl-call', False, 'case %s: %s' % (json.dumps(c)[:400], o))
            continue
        coq_cases.append(ccase(c, o)); kept.append((c, o))
    masks = common.eval_cases('c16sd', PRE, CASE_T, coq_cases, 'stream_judge', per_file=120)
    return kept, masks
