"""C16 - the output is a well-formed, self-consistent PDF under every option."""
import random, json, os, sys, re
import common
from common import zlit
import impl_c16 as I

PRE = ('From Coq Require Import ZArith List Bool.\nRequire Import WV.model.C16Stream.\n'
       'Import ListNotations.\nOpen Scope Z_scope.\n')

# ------------------------------------------------------------------------------- Coq printing of cases


def cb(b):
    return 'true' if b else 'false'


def copt(x, f=str):
    return 'None' if x is None else '(Some %s)' % f(x)


def cmat(v):
    return '(%s)' % ', '.join(zlit(int(x)) for x in v)


def ccolor(idx):
    space, _ = I.COLORS[idx]
    sp = I.SPACES.index(space)
    # channel-tuple id: the palette index itself (distinct tuples within a space have distinct ids)
    return '(%s, %s)' % (zlit(sp), zlit(idx))


def cfont(f):
    return '(%s, %s)' % (zlit(f[0]), zlit(f[1]))


_ALPHA_BY_STR = {str(v): (th, isint) for v, th, isint in I.ALPHAS}


def ckey(s):
    if s[0] in 'aA' and s[1:] in _ALPHA_BY_STR:
        th, isint = _ALPHA_BY_STR[s[1:]]
        return '(KA %s %s %s)' % (cb(s[0] == 'A'), zlit(th), cb(isint))
    m = re.fullmatch(r's(\d+)', s)
    if m:
        return '(KS %s)' % zlit(int(m.group(1)))
    raise ValueError('unknown ExtGState key %r' % s)


def cgsval(ca, CA):
    return '(%s, %s)' % (copt(ca, zlit), copt(CA, zlit))


def cop(o):
    k = o[0]
    if k == 'push':
        return 'Push'
    if k == 'pop':
        return 'Pop'
    if k == 'bt':
        return 'BeginText'
    if k == 'et':
        return 'EndText'
    if k == 'color':
        th, isint = I.ALPHAS[o[3]][1:]
        return '(SetColor %s %s %s %s)' % (cb(o[1]), ccolor(o[2]), zlit(th), cb(isint))
    if k == 'alpha':
        th, isint = I.ALPHAS[o[1]][1:]
        return '(SetAlpha %s %s %s %s)' % (zlit(th), cb(isint), cb(o[2]), copt(o[3], cb))
    if k == 'font':
        return '(SetFont %s)' % cfont(o[1:3])
    if k == 'state':
        f = lambda i: zlit(I.ALPHAS[i][1])
        return '(SetState %s %s)' % (copt(o[1], f), copt(o[2], f))
    if k == 'pattern':
        return '(PatternColor %s %s)' % (cb(o[1]), zlit(o[2]))
    if k == 'cm':
        return '(Transform %s)' % cmat(o[1:])
    if k == 'tm':
        return '(TextMatrix %s)' % cmat(o[1:])
    if k == 'bmc':
        return '(BeginMC %s)' % cb(o[1])
    if k == 'emc':
        return 'EndMC'
    if k == 'tok':
        return '(Tok %s)' % zlit(o[1])
    if k == 'rb':
        return '(Rollback %d%%nat %d%%nat %d%%nat)' % (o[1], o[2], o[3])
    raise ValueError(o)


def ctok(t):
    k = t[0]
    if k in ('q', 'Q', 'BT', 'ET', 'BMC', 'BDC', 'EMC'):
        return 'T' + k
    if k == 'gs':
        return '(Tgs %s %s)' % (ckey(t[1]), cgsval(t[2], t[3]))
    if k == 'rg':
        return '(Trg %s %s)' % (cb(t[1]), ccolor(t[2]))
    if k == 'scn':
        return '(Tscn %s %s)' % (cb(t[1]), ccolor(t[2]))
    if k == 'cs':
        return '(Tcs %s %s)' % (cb(t[1]), zlit(t[2]))
    if k == 'pat':
        return '(Tpat %s %s)' % (cb(t[1]), zlit(t[2]))
    if k == 'Tf':
        return '(Tfont %s)' % cfont(t[1:3])
    if k == 'cm':
        return '(Tcm %s)' % cmat(t[1:])
    if k == 'Tm':
        return '(Ttm %s)' % cmat(t[1:])
    if k == 'tag':
        return 'Ttag'
    if k == 'props':
        return '(Tprops %s)' % zlit(t[1])
    if k == 'other':
        return '(Tother %s)' % zlit(t[1])
    raise ValueError(t)


def clist(items):
    return '[%s]' % '; '.join(items)


def cout(o):
    if o is None or 'raised' in o:
        return 'None'
    return ('(Some (iomk %s %s %s %s %s %s %s %s %s %s))' % (
        clist(ctok(t) for t in o['toks']), clist(cmat(m) for m in o['ctms']),
        copt(o['col'], ccolor), copt(o['cols'], ccolor), copt(o['alpha'], ckey), copt(o['alphas'], ckey),
        copt(o['font'], cfont), copt(o['ofont'], cfont), clist('(%s, %s)' % (ckey(k[0]), cgsval(k[1], k[2])) for k in o['keys']), zlit(o['nmark'])))


def ccase(c, o):
    # the calls as executed (checkpoints resolved to the lengths they returned) and the calls that are kept
    ops = (o or {}).get('ops', c['ops'])
    kops = c.get('kops', ops)
    return '(%s, %s, %s, %s, %s)' % (cb(c['mark']), clist(ckey(k) for k in c['keys0']), clist(cop(x) for x in ops),
                                     clist(cop(x) for x in kops), cout(o))


CASE_T = 'bool * list key * list op * list op * option implout'

# ------------------------------------------------------------------------------- generators of call sequences

MATS = [(1, 0, 0, 1, 0, 0), (2, 0, 0, 2, 0, 0), (1, 0, 0, -1, 0, 75), (0, 1, -1, 0, 3, 4), (1, 2, 3, 4, 5, 6), (0, 0, 0, 0, 0, 0)]


def gen_ops(rng, n, wellformed=True, hot=None):
    """A call sequence; when `wellformed`, nested like `with stacked` / paired begin_text..end_text /
    begin..end_marked_content produce.  `hot` biases towards a family of situations."""
    ops, stack = [], []
    ncol = rng.choice([2, 3, len(I.COLORS)])       # few colours -> many cache hits
    nalpha = rng.choice([2, 3, len(I.ALPHAS)])
    cols = rng.sample(range(len(I.COLORS)), ncol)
    alphas = rng.sample(range(len(I.ALPHAS)), nalpha)

    def setter():
        r = rng.random()
        if r < 0.4:
            return ['color', rng.random() < 0.3, rng.choice(cols), rng.choice([a for a in alphas if a < 4] or [3])]  # Color() stores a float alpha
        if r < 0.6:
            return ['alpha', rng.choice(alphas), rng.random() < 0.4, rng.choice([None, None, True, False])]
        if r < 0.85:
            return ['font', rng.randrange(len(I.FONTS) if rng.random() < 0.3 else 2), rng.randrange(2)]
        if hot == 'raw' or rng.random() < 0.25:
            if rng.random() < 0.5:
                return ['pattern', rng.random() < 0.3, rng.randrange(3)]
            return ['state'] + rng.choice([[None, None], [4, None], [None, None], [rng.choice(alphas), None],
                                           [None, rng.choice(alphas)], [rng.choice(alphas), rng.choice(alphas)]])
        return ['tok', rng.randrange(len(I.RAW))]

    while len(ops) < n:
        intext = bool(stack) and stack[-1] == 't'
        r = rng.random()
        if not wellformed and r < 0.08:
            ops.append(rng.choice([['push'], ['pop'], ['bt'], ['et'], ['emc'], ['bmc', True], ['cm'] + list(rng.choice(MATS)),
                                   ['tm'] + list(rng.choice(MATS))]))
            continue
        if intext:
            if ops[-1][0] == 'bt' and r < 0.85:
                ops.append(['tm'] + list(rng.choice(MATS)))
            elif r < 0.3:
                ops.append(['et']); stack.pop()
            elif r < 0.55:
                ops.append(['tm'] + list(rng.choice(MATS)))
            elif r < 0.75:
                ops.append(['tok', rng.choice([8, 13, 14, 19, 7])])
            else:
                ops.append(setter())
            continue
        if r < 0.22:
            ops.append(['push']); stack.append('q')
            if rng.random() < (0.5 if hot == 'peephole' else 0.15):
                ops.append(['pop']); stack.pop()
        elif r < 0.40 and stack and stack[-1] == 'q':
            ops.append(['pop']); stack.pop()
        elif r < 0.55:
            ops.append(['bt']); stack.append('t')
            if rng.random() < 0.3:
                ops.append(['et']); stack.pop()
        elif r < 0.62:
            ops.append(['bmc', rng.random() < 0.7]); stack.append('m')
        elif r < 0.70 and stack and stack[-1] == 'm':
            ops.append(['emc']); stack.pop()
        elif r < 0.78:
            ops.append(['cm'] + list(rng.choice(MATS)))
        elif r < 0.86:
            ops.append(['tok', rng.randrange(len(I.RAW))])
        else:
            ops.append(setter())
    while stack:
        ops.append({'q': ['pop'], 't': ['et'], 'm': ['emc']}[stack.pop()])
    return ops


FIXED_SEQS = [
    [],
    [['push'], ['pop']],
    [['bt'], ['et'], ['bt'], ['et']],
    [['bt'], ['tm', 1, 0, 0, 1, 0, 0], ['font', 0, 0], ['tok', 8], ['et'], ['push'], ['pop'], ['bt'], ['tm', 1, 0, 0, 1, 5, 5],
     ['font', 0, 0], ['tok', 8], ['et']],
    [['push'], ['push'], ['pop'], ['pop']],
    [['pop']],
    [['push'], ['pop'], ['pop']],
    # F12: an ExtGState with /ca 1 installed behind the alpha cache (set_alpha_state)
    [['alpha', 2, False, None], ['push'], ['state', 4, None], ['alpha', 2, False, None], ['tok', 0], ['tok', 1], ['pop']],
    # F12b: Pattern colour installed behind the colour cache
    [['color', False, 0, 3], ['push'], ['pattern', False, 0], ['tok', 0], ['tok', 1], ['push'], ['color', False, 0, 3],
     ['tok', 0], ['tok', 1], ['pop'], ['pop']],
]


def gen_failed_prog(rng, n):
    """well-bracketed calls with failed drawings inside, as SVGImage.draw makes them: checkpoint, push_state, calls
    interrupted anywhere before (or at) the matching pop_state, rollback.  Returns (ops, kept ops)."""
    base = gen_ops(rng, n, True, rng.choice([None, 'peephole']))
    # positions outside text objects
    spots, depth_text = [], False
    for i, o in enumerate(base + [['end']]):
        if not depth_text:
            spots.append(i)
        if o[0] == 'bt':
            depth_text = True
        elif o[0] == 'et':
            depth_text = False
    ops, last, ncp = [], 0, 0
    for pos in sorted(rng.sample(spots, min(len(spots), rng.choice([1, 1, 2, 3])))):
        ops += base[last:pos]
        last = pos
        inner = [['push']] + gen_ops(rng, rng.choice([0, 2, 6, 15]), True, rng.choice([None, 'raw'])) + [['pop']]
        cut = rng.choice([1, len(inner), rng.randrange(1, len(inner) + 1), rng.randrange(1, len(inner) + 1)])
        ops += [['cp']] + inner[:cut] + [['rb', ncp]]
        ncp += 1
    ops += base[last:]
    return ops, base


def check_stream_direct(run, rng, n):
    cases = []
    for ops in FIXED_SEQS:
        for mark in (False, True):
            cases.append({'mark': mark, 'keys0': [], 'ops': ops})
    for _ in range(n // 5):
        ops, kops = gen_failed_prog(rng, rng.choice([3, 8, 20, 50]))
        cases.append({'mark': rng.random() < 0.4, 'keys0': rng.choice([[], [], ['a1.0'], ['a0.5', 's1', 'A1']]), 'ops': ops, 'kops': kops})
    for _ in range(n // 12):
        # checkpoints and rollbacks anywhere (not what the source does): the model must still follow
        ops = gen_ops(rng, rng.choice([6, 12, 30]), rng.random() < 0.5, None)
        for _ in range(rng.choice([1, 2, 4])):
            ops.insert(rng.randrange(len(ops) + 1), rng.choice([['cp'], ['cp'], ['rb', rng.randrange(4)]]))
        cases.append({'mark': rng.random() < 0.4, 'keys0': rng.choice([[], ['s0'], ['a1', 's7']]), 'ops': ops})
    while len(cases) < n:
        r = rng.random()
        wf = r < 0.8
        hot = rng.choice([None, None, 'peephole', 'raw'])
        keys0 = rng.choice([[], [], ['a1.0'], ['a0.5', 's1', 'A1'], ['s0'], ['s1'], ['a1', 's7']])
        cases.append({'mark': rng.random() < 0.4, 'keys0': keys0,
                      'ops': gen_ops(rng, rng.choice([3, 6, 12, 25, 60, 150]), wf, hot)})
    outs = common.run_impl('impl_c16', 'stream_direct', cases, chunksize=32)
    coq_cases, kept = [], []
    for c, (st, o) in zip(cases, outs):
        if st != 'ok':
            run.oblige('corr:stream-direct:impl-call', False, 'case %s: %s' % (json.dumps(c)[:400], o))
            continue
        coq_cases.append(ccase(c, o)); kept.append((c, o))
    masks = common.eval_cases('c16sd', PRE, CASE_T, coq_cases, 'stream_judge', per_file=120)
    return kept, masks


# ===================================================================================== monitor: full renders
import pdfread

VARIANTS = [None, 'pdf/a-1b', 'pdf/a-2b', 'pdf/a-3b', 'pdf/a-4b', 'pdf/a-2u', 'pdf/a-3u', 'pdf/a-4u', 'pdf/ua-1', 'debug']
VERSIONS = [None, '1.4', '1.5', '1.7', '2.0']
ZOOMS = [1, 1, 1, 0.5, 2, 1.5, 0.1, 3]
COLORS_CSS = ['red', '#00f', 'rgba(0,128,0,.5)', 'rgba(10,20,30,.25)', 'hsl(120 50% 50%)', 'hsl(20 80% 40% / .5)',
              'lab(50 20 30)', 'lab(50 20 30 / .5)', 'lch(60 40 200)', 'oklab(.6 .1 -.1)', 'oklch(.5 .1 20 / .7)',
              'hwb(10 20% 30%)', 'color(xyz-d50 .2 .3 .4)', 'color(xyz-d65 .2 .3 .4 / .6)', 'transparent', 'black',
              'currentColor', 'rgb(0 0 0 / 1)']
BORDER_STYLES = ['solid', 'dashed', 'dotted', 'double', 'groove', 'ridge', 'inset', 'outset', 'none', 'hidden']
IMAGES = ['pattern.png', 'blue.jpg', 'icon.png', 'pattern.gif', 'pattern.svg', 'pattern-transparent.svg', 'logo_small.png',
          'pattern.palette.png']
WORDS = ['abc', 'defg', 'ab', 'hgfe dcba', 'a', 'bcd efg', 'Hello', 'fi', 'ABC def']


# colours that tinycss2 can convert to sRGB: gradient stops and 3D border styles of any other colour crash the
# unchanged tree (findings C02-a/b/c of the report: Gradient.draw / draw.color.darken / lighten)
COLORS_SRGB = [c for c in COLORS_CSS if not c.startswith(('lab', 'lch', 'oklab', 'oklch', 'color(')) and c != 'currentColor']
STYLES_3D = ('groove', 'ridge', 'inset', 'outset')


def _c(rng, srgb=False):
    return rng.choice(COLORS_SRGB if srgb else COLORS_CSS)


def _border(rng, widths, rounded=False):
    # dashed/dotted sides next to a rounded corner crash the unchanged tree (draw_dots, finding C02-d)
    style = rng.choice([b for b in BORDER_STYLES if not (rounded and b in ('dashed', 'dotted'))])
    return '%dpx %s %s' % (rng.choice(widths), style, _c(rng, srgb=style in STYLES_3D))


def gen_gradient(rng):
    stops = ', '.join('%s %d%%' % (_c(rng, True), p) if rng.random() < 0.5 else _c(rng, True)
                      for p in sorted(rng.sample(range(0, 101, 10), rng.choice([2, 2, 3, 4]))))
    kind = rng.random()
    rep = 'repeating-' if rng.random() < 0.25 else ''
    if kind < 0.5:
        return '%slinear-gradient(%s%s)' % (rep, rng.choice(['', 'to right, ', '45deg, ', 'to top left, ', '0.3turn, ']), stops)
    return '%sradial-gradient(%s%s)' % (rep, rng.choice(['', 'circle, ', 'ellipse at top, ', '10px 20px at 30% 40%, ',
                                                            'closest-side, ', 'circle at 0 0, ']), stops)


def gen_svg(rng, size=40):
    """A well-formed SVG (numeric attributes valid: malformed ones hit finding F28)."""
    defs, body = [], []
    ids = {'n': 0}

    def nid(p):
        ids['n'] += 1
        return '%s%d' % (p, ids['n'])

    def paint():
        r = rng.random()
        if r < 0.45:
            return rng.choice(['red', 'blue', '#0a0', 'black', 'none', 'rgba(0,0,255,.5)', 'lime'])
        if r < 0.8:
            g = nid('g')
            stops = ''.join("<stop offset='%s' stop-color='%s'%s/>" % (
                o, rng.choice(['red', 'blue', 'lime', 'black']), rng.choice(['', " stop-opacity='.5'", " stop-opacity='0'"]))
                for o in rng.choice([['0', '1'], ['0', '.5', '1'], ['.2', '.2', '.8'], ['0']]))
            if rng.random() < 0.6:
                defs.append("<linearGradient id='%s'%s%s>%s</linearGradient>" % (
                    g, rng.choice(['', " x1='0' y1='0' x2='1' y2='1'", " gradientUnits='userSpaceOnUse' x2='%d'" % size]),
                    rng.choice(['', " spreadMethod='reflect'", " spreadMethod='repeat'", " gradientTransform='rotate(30)'"]), stops))
            else:
                defs.append("<radialGradient id='%s'%s%s>%s</radialGradient>" % (
                    g, rng.choice(['', " cx='.3' cy='.3' r='.6'", " fx='.2' fy='.2'"]),
                    rng.choice(['', " spreadMethod='reflect'", " spreadMethod='repeat'"]), stops))
            return 'url(%%23%s)' % g
        p = nid('p')
        defs.append("<pattern id='%s' width='.25' height='.25'><rect width='3' height='3' fill='%s'/></pattern>" % (
            p, rng.choice(['red', 'blue'])) if rng.random() < 0.5 else
            "<pattern id='%s' patternUnits='userSpaceOnUse' width='8' height='8'><circle cx='4' cy='4' r='3' fill='%s'/></pattern>" % (
                p, rng.choice(['green', 'black'])))
        return 'url(%%23%s)' % p

    def attrs():
        a = " fill='%s'" % paint()
        if rng.random() < 0.5:
            a += " stroke='%s' stroke-width='%s'" % (paint(), rng.choice(['1', '2', '0.5', '0']))
        if rng.random() < 0.2:
            a += " stroke-dasharray='%s'" % rng.choice(['2', '3 1', '0 0', '1 2 3'])
        if rng.random() < 0.25:
            a += " opacity='%s'" % rng.choice(['.5', '0', '1', '.25'])
        if rng.random() < 0.2:
            # 'x' makes alpha_value raise in the middle of the drawing: the SVG must leave nothing behind (F66 fixed)
            a += " fill-opacity='%s'" % rng.choice(['.5', '0', '1', '.5', '0', '1', 'x'])
        if rng.random() < 0.2:
            a += " stroke-opacity='%s'" % rng.choice(['.5', '1'])
        if rng.random() < 0.25:
            a += " transform='%s'" % rng.choice(['rotate(20)', 'scale(.5)', 'translate(5 5)', 'matrix(1 0 0 1 2 2)',
                                                  'skewX(10)', 'scale(0)', 'rotate(45 10 10)'])
        if rng.random() < 0.1:
            c = nid('c')
            defs.append("<clipPath id='%s'><circle cx='%d' cy='%d' r='%d'/></clipPath>" % (c, size // 2, size // 2, size // 3))
            a += " clip-path='url(%%23%s)'" % c
        if rng.random() < 0.1:
            m = nid('m')
            defs.append("<mask id='%s'><rect width='%d' height='%d' fill='white'/><circle cx='5' cy='5' r='4' fill='black'/></mask>" % (m, size, size))
            a += " mask='url(%%23%s)'" % m
        if rng.random() < 0.05:
            f = nid('f')
            defs.append("<filter id='%s'><feOffset dx='2' dy='2'/><feBlend mode='%s'/></filter>" % (f, rng.choice(['multiply', 'screen', 'color-dodge'])))
            a += " filter='url(%%23%s)'" % f
        return a

    def shape(depth=0):
        r = rng.random()
        if r < 0.2:
            return "<rect x='%d' y='%d' width='%d' height='%d'%s%s/>" % (
                rng.randrange(10), rng.randrange(10), rng.choice([0, 5, 20]), rng.choice([5, 20]),
                rng.choice(['', " rx='3'", " rx='2' ry='5'"]), attrs())
        if r < 0.3:
            return "<circle cx='%d' cy='%d' r='%d'%s/>" % (rng.randrange(30), rng.randrange(30), rng.choice([0, 4, 12]), attrs())
        if r < 0.38:
            return "<ellipse cx='15' cy='15' rx='%d' ry='%d'%s/>" % (rng.choice([3, 10]), rng.choice([0, 6]), attrs())
        if r < 0.46:
            return "<line x1='1' y1='2' x2='%d' y2='%d'%s/>" % (rng.randrange(40), rng.randrange(40), attrs())
        if r < 0.56:
            mk = ''
            d = rng.choice([
                'M 2 2 L 30 5 L 20 30 z', 'M5,5 h20 v20 h-20 z', 'M 5 20 C 10 0, 20 0, 30 20 S 35 35 20 30',
                'M 5 5 Q 20 0 30 20 T 10 30', 'M 10 10 A 8 8 0 1 1 25 25', 'M 1 1', 'M 3 3 l 5 0 m 2 2 l 5 5'])
            # (a marker with orient=auto on the single-vertex path raises inside draw_markers: the drawing is erased by
            # Stream.rollback since the fix of F66; kept in the grammar)
            if rng.random() < 0.4:
                k = nid('k')
                defs.append("<marker id='%s' markerWidth='6' markerHeight='6' refX='3' refY='3'%s><circle cx='3' cy='3' r='2'%s/></marker>" % (
                    k, rng.choice(['', " orient='auto'", " viewBox='0 0 6 6'", " markerUnits='userSpaceOnUse'"]), attrs()))
                mk = " %s='url(%%23%s)'" % (rng.choice(['marker', 'marker-start', 'marker-mid', 'marker-end']), k)
            return "<path d='%s'%s%s/>" % (d, mk, attrs())
        if r < 0.64:
            return "<poly%s points='%s'%s/>" % (rng.choice(['gon', 'line']), rng.choice(['2,2 30,5 20,30', '0,0 10,10', '5,5']), attrs())
        if r < 0.78:
            inner = ''
            if rng.random() < 0.3:
                inner = "<tspan dx='2' fill='blue'>%s</tspan>" % rng.choice(WORDS)
            return "<text x='%d' y='%d' font-size='%d'%s%s%s>%s%s</text>" % (
                rng.randrange(20), 10 + rng.randrange(20), rng.choice([6, 10, 14]),
                rng.choice(['', " text-anchor='middle'", " text-anchor='end'", " font-family='weasyprint'", " rotate='10 20'",
                            " letter-spacing='2'", " textLength='30'", " dx='1 2 3'"]),
                rng.choice(['', " font-weight='bold'", " font-style='italic'"]), attrs(), rng.choice(WORDS + ['']), inner)
        if r < 0.86 and depth < 2:
            return "<g%s>%s</g>" % (attrs(), ''.join(shape(depth + 1) for _ in range(rng.choice([0, 1, 2, 3]))))
        if r < 0.92:
            u = nid('u')
            defs.append("<rect id='%s' width='6' height='6'%s/>" % (u, attrs()) if rng.random() < 0.6 else
                        "<symbol id='%s' viewBox='0 0 10 10'><circle cx='5' cy='5' r='4'/></symbol>" % u)
            return "<use href='%%23%s' x='%d' y='%d'%s/>" % (u, rng.randrange(20), rng.randrange(20),
                                                              rng.choice(['', " width='10' height='10'"]))
        if r < 0.97:
            return "<image href='%s' x='2' y='2' width='%d' height='%d'%s/>" % (
                'file://%s/tests/resources/%s' % (common.REPO, rng.choice(['pattern.png', 'blue.jpg', 'pattern.svg'])),
                rng.choice([8, 16]), rng.choice([8, 16]),
                rng.choice(['', " preserveAspectRatio='none'", " opacity='.5'"]))
        return "<svg x='5' y='5' width='20' height='20' viewBox='0 0 10 10'%s>%s</svg>" % (
            rng.choice(['', " overflow='visible'", " preserveAspectRatio='xMaxYMin slice'"]), shape(depth + 1))

    for _ in range(rng.choice([1, 2, 3, 5])):
        body.append(shape())
    head = "<svg xmlns='http://www.w3.org/2000/svg' xmlns:xlink='http://www.w3.org/1999/xlink' width='%d' height='%d'%s>" % (
        size, size, rng.choice(['', " viewBox='0 0 %d %d'" % (size, size), " viewBox='0 0 20 20' preserveAspectRatio='xMinYMax meet'"]))
    return head + ('<defs>%s</defs>' % ''.join(defs) if defs else '') + ''.join(body) + '</svg>'


def gen_box_style(rng, ctx):
    st = []
    r = rng.random
    rounded = r() < 0.15
    if r() < 0.35:
        st.append('color:%s' % _c(rng))
    if r() < 0.4:
        st.append('background:%s' % rng.choice([_c(rng), gen_gradient(rng), 'url(%s) %s' % (
            rng.choice(IMAGES), rng.choice(['', 'no-repeat', 'repeat-x', 'space', 'round', 'no-repeat 3px 4px / 10px 10px',
                                            'repeat-y right bottom', 'space round'])),
            '%s, %s' % (gen_gradient(rng), _c(rng))]))
    if r() < 0.1:
        st.append('background-clip:%s' % rng.choice(['padding-box', 'content-box', 'border-box', 'text']))
    if r() < 0.35:
        if r() < 0.5:
            st.append('border:' + _border(rng, [0, 1, 2, 5], rounded))
        else:
            for side in rng.sample(['top', 'right', 'bottom', 'left'], rng.choice([1, 2, 4])):
                st.append('border-%s:%s' % (side, _border(rng, [1, 3, 6], rounded)))
    if rounded:
        st.append('border-radius:%s' % rng.choice(['3px', '50%', '10px 2px', '5px / 10px', '0 8px 0 8px']))
    if r() < 0.05:
        st.append('border-image:url(%s) %s' % (rng.choice(['border.svg', 'pattern.png']), rng.choice(['30', '1 fill', '2 round', '30 / 5px / 2px space'])))
    if r() < 0.04:
        st.append('mask-border:url(%s) %s' % (rng.choice(['mask.svg', 'pattern.png']), rng.choice(['1', '30 fill'])))
    translucent = False
    if r() < 0.15:
        st.append('opacity:%s' % rng.choice(['.5', '0', '1', '.99', '.25']))
        translucent = True
    if r() < 0.15:
        # (a non-invertible transform with opacity < 1 under pdf/ua-1 was finding F29, fixed in dd3d4b1: kept in the grammar)
        choices = ['rotate(10deg)', 'scale(2)', 'translate(3px, 4px)', 'matrix(1,0,0,1,5,5)', 'skew(10deg)', 'scale(.5) rotate(1rad)',
                   'scale(0)', 'scaleX(0)']
        if translucent:
            choices += ['scale(0)', 'matrix(1,1,1,1,0,0)']
        st.append('transform:%s' % rng.choice(choices))
        if r() < 0.3:
            st.append('transform-origin:%s' % rng.choice(['0 0', '50% 50%', 'right bottom']))
    if r() < 0.1:
        st.append('outline:' + _border(rng, [1, 3], rounded))
    if r() < 0.1:
        st.append('overflow:%s' % rng.choice(['hidden', 'visible', 'auto']))
    if r() < 0.2:
        st.append('padding:%dpx' % rng.choice([0, 2, 5]))
    if r() < 0.15:
        st.append('margin:%dpx' % rng.choice([0, 2, 5]))
    if r() < 0.15:
        st.append('width:%s' % rng.choice(['50px', '50%', '100px', '10px']))
    # a multi-column box with a fixed height and a float inside never finishes layout (finding C02-g): no height on
    # multi-column boxes, no float that is itself multi-column
    multicol = r() < 0.04
    if r() < 0.1 and not multicol:
        st.append('height:%s' % rng.choice(['20px', '40px', '5px']))
    if r() < 0.08:
        st.append('position:%s;%s' % (rng.choice(['relative', 'absolute']), rng.choice(['top:3px;left:5px', 'z-index:%d' % rng.choice([-1, 0, 2]),
                                                                                       'clip:rect(1px, 30px, 20px, 2px)'])))
    floated = r() < 0.05
    if floated:
        st.append('float:%s' % rng.choice(['left', 'right']))
    if r() < 0.12:
        st.append('text-decoration:%s %s' % (rng.choice(['underline', 'overline', 'line-through', 'underline overline line-through']),
                                             rng.choice(['', 'wavy', 'dotted', 'double red', 'dashed'])))
    # (a form field whose font draws no glyph used to crash build_fonts_dictionary: F95/F96, fixed)
    if ctx.get('fonts_ok', True):
        if r() < 0.08:
            st.append('font-size:%s' % rng.choice(['6px', '14px', '0', '20px', '1px']))
        if r() < 0.06:
            st.append('font-family:%s' % rng.choice(['weasyprint-otb', 'DejaVu Sans', 'monospace', 'serif']))
        if r() < 0.05:
            st.append('font-weight:bold')
    if r() < 0.04:
        st.append('visibility:hidden')
    if multicol and not floated:
        st.append('columns:2;column-rule:' + _border(rng, [1, 3]))
    if r() < 0.04:
        st.append('text-overflow:ellipsis;white-space:nowrap;overflow:hidden;width:30px')
    if r() < 0.03:
        st.append('block-ellipsis:auto;max-lines:1')
    if r() < 0.04:
        st.append('mix-blend-mode:multiply')
    if r() < 0.04:
        st.append('image-rendering:%s' % rng.choice(['pixelated', 'crisp-edges', 'auto']))
    if r() < 0.04:
        st.append('break-before:page')
    if r() < 0.04:
        st.append('box-decoration-break:clone')
    return ';'.join(st)


def gen_content(rng, depth, ctx):
    r = rng.random()
    n = ctx['n'] = ctx['n'] + 1
    style = gen_box_style(rng, ctx)
    sa = ' style="%s"' % style if style else ''
    if r < 0.03 and ctx.get('fonts_ok', True) and not ctx.get('low'):
        # a run without any visible glyph in a font of its own: Tf is emitted, the font must stay in /Font
        return '<p%s>ab<span style="font-family:%s">%s</span>cd</p>' % (
            sa, rng.choice(['DejaVu Serif', 'DejaVu Sans Mono', 'DejaVu Sans']), rng.choice(INVISIBLE))
    if r < 0.22 or depth > 3:
        return '<p%s>%s</p>' % (sa, ' '.join(rng.choice(WORDS) for _ in range(rng.choice([1, 2, 4, 9]))))
    if r < 0.34:
        return '<div%s>%s</div>' % (sa, ''.join(gen_content(rng, depth + 1, ctx) for _ in range(rng.choice([0, 1, 2, 3]))))
    if r < 0.40:
        lvl = rng.choice([1, 2, 3, 4])
        ctx['ids'].append('h%d' % n)
        return '<h%d id="h%d"%s>%s</h%d>' % (lvl, n, sa, rng.choice(WORDS + ['T(i)tle \\ )', 'é ü ✓', '']), lvl)
    if r < 0.47:
        return '<img src="%s"%s%s>' % (rng.choice(IMAGES), rng.choice(['', ' width=20', ' width=30 height=10', ' alt="x"']), sa)
    if r < 0.56:
        ctx['svg'] = True
        return '<img src="data:image/svg+xml,%s"%s>' % (gen_svg(rng).replace('"', "'"), sa)
    if r < 0.63:
        kind = rng.random()
        if kind < 0.4 and ctx['ids']:
            href = '#' + rng.choice(ctx['ids'])
        elif kind < 0.5:
            href = '#nowhere'
        elif kind < 0.8:
            href = rng.choice(['https://example.org/a(b)c', 'http://x.test/?q=é', 'mailto:a@b.c', '../x.html'])
        else:
            ctx['attach'] = True
            return '<a rel="attachment" href="data:text/plain,att%d"%s>%s</a>' % (n, sa, rng.choice(WORDS))
        return '<p><a href="%s"%s>%s<span> %s</span></a></p>' % (href, sa, rng.choice(WORDS), rng.choice(WORDS))
    if r < 0.71:
        ctx['forms'] = True
        f = rng.random()
        name = rng.choice(['', ' name="n%d"' % rng.randrange(3)])
        if f < 0.2:
            return '<input%s value="%s"%s%s>' % (name, rng.choice(['v', 'a(b', '']), rng.choice(['', ' maxlength=5', ' type=password', ' type=file']), sa)
        if f < 0.4:
            return '<input type=checkbox%s%s%s>' % (name, rng.choice(['', ' checked']), sa)
        if f < 0.55:
            return '<form><input type=radio name=r%s%s><input type=radio name=r value=b></form>' % (rng.choice(['', ' checked']), sa)
        if f < 0.7:
            return '<select%s%s><option value=a>A</option><option%s>B</option></select>' % (
                name, rng.choice(['', ' multiple']), rng.choice(['', ' selected']))
        if f < 0.85:
            return '<textarea%s%s>%s</textarea>' % (name, sa, rng.choice(WORDS))
        return '<form action="http://x.test/s" method="%s"><input%s><button%s>go</button><input type=submit value=ok></form>' % (
            rng.choice(['get', 'post']), name, sa)
    if r < 0.78:
        rows = ''.join('<tr>%s</tr>' % ''.join('<t%s style="%s">%s</t%s>' % (
            c, rng.choice(['', 'border:' + _border(rng, [1, 2]), 'background:%s' % _c(rng)]),
            rng.choice(WORDS), c) for c in rng.choice([['d', 'd'], ['h', 'd', 'd'], ['d']])) for _ in range(rng.choice([1, 2, 3])))
        collapse = rng.choice(['collapse', 'separate'])
        # (a collapsed-border table with a <thead> on a very small page used to hang layout: F166, fixed)
        extra = rng.choice(['', '<caption>cap</caption>', '<thead><tr><th>H</th></tr></thead>'])
        return '<table style="border-collapse:%s;%s">%s%s</table>' % (collapse, style, extra, rows)
    if r < 0.84:
        tag = rng.choice(['ul', 'ol', 'dl'])
        if tag == 'dl':
            return '<dl%s><dt>t</dt><dd>%s</dd></dl>' % (sa, rng.choice(WORDS))
        return '<%s style="list-style:%s;%s">%s</%s>' % (tag, rng.choice(['disc', 'decimal', 'square inside', 'url(pattern.png)', 'none', '"x"']), style,
                                                          ''.join('<li>%s</li>' % rng.choice(WORDS) for _ in range(rng.choice([1, 2, 3]))), tag)
    if r < 0.90:
        return '<span%s>%s</span> <b>%s</b> <span style="display:inline-block;%s">%s</span>' % (
            sa, rng.choice(WORDS), rng.choice(WORDS), gen_box_style(rng, ctx), rng.choice(WORDS))
    if r < 0.95:
        tag = rng.choice(['section', 'article', 'blockquote', 'pre', 'hr'])
        return '<%s%s>%s</%s>' % (tag, sa, '' if tag == 'hr' else gen_content(rng, depth + 1, ctx), tag)
    return '<div style="display:%s;%s">%s</div>' % (rng.choice(['flex', 'grid', 'inline-block', 'table', 'list-item']), style,
                                                     ''.join('<div>%s</div>' % rng.choice(WORDS) for _ in range(rng.choice([1, 2, 3]))))


def gen_doc(rng, opts):
    """Returns (html, expectation dict).  SVGs that raise while they are drawn (former finding F66) are part of the
    grammar; the crash sites still avoided are the C02 findings listed in the C16 report."""
    W, H = rng.choice([(200, 150), (300, 200), (120, 400), (500, 500), (64, 64), (333, 77)])
    bleed = rng.choice([0, 0, 0, 5, 12, 30])
    marks = rng.choice(['', '', 'crop', 'cross', 'crop cross']) if bleed else ''
    margin = rng.choice([0, 5, 10, 20])
    # pdf/ua marks content: avoid opacity together with scale(0) there (F29)
    variant = opts.get('pdf_variant')
    ctx = {'n': 0, 'ids': [], 'marked': variant == 'pdf/ua-1', 'fonts_ok': True, 'low': False}   # F95/F96 fixed (01e6bdd, f790265): no avoidance
    page_extra = ''
    if rng.random() < 0.25:
        page_extra += '@top-center{content:"p " counter(page);color:%s}' % _c(rng)
    if rng.random() < 0.15:
        page_extra += '@bottom-right-corner{content:"x";background:%s;border:%s}' % (_c(rng), _border(rng, [1]))
    if rng.random() < 0.15:
        page_extra += 'background:%s;' % rng.choice([_c(rng), gen_gradient(rng), 'url(pattern.png)'])
    if rng.random() < 0.1:
        page_extra += 'border:%s;' % _border(rng, [2])
    first = ''
    first_size = None
    if rng.random() < 0.15:
        first_size = (W + 50, H + 20)
        first = '@page :first{size:%dpx %dpx}' % first_size
    head = ''
    meta = {}
    if rng.random() < 0.6:
        meta['title'] = rng.choice(['Title', 'T(i)tle \\ 1', 'Ünïcödé ✓', 'a' * 70])
        head += '<title>%s</title>' % meta['title']
    for name, values in (('author', ['Me', 'A (B)', 'Zoë']), ('description', ['desc', 'd)e(s']), ('keywords', ['k1, k2', 'kw']),
                         ('generator', ['gen 1.0']), ('dcterms.created', ['2011-04-20', '2011-04-20T23:21:12+02:00', 'invalid']),
                         ('dcterms.modified', ['2013', '2013-07-01T10:00Z']), ('custom-key', ['custom value', 'vä(l']),
                         ('other_key!', ['x'])):
        if rng.random() < 0.3:
            meta[name] = rng.choice(values)
            head += '<meta name="%s" content="%s">' % (name, meta[name])
    if rng.random() < 0.2:
        head += '<link rel="attachment" href="data:text/plain,linked" title="t(1)">'
        ctx['attach'] = True
    lang = rng.choice(['', '', ' lang="en"', ' lang="fr-FR"'])
    body = ''.join(gen_content(rng, 0, ctx) for _ in range(rng.choice([1, 2, 3, 5, 8])))
    if not ctx['fonts_ok']:
        body = '<p>abcdefgh ABC Hello fi</p>' + body
    html = ('<html%s><head>%s<style>@font-face{src:url(weasyprint.otb);font-family:weasyprint-otb}'
            '@page{size:%dpx %dpx;margin:%dpx;%s%s%s}%s'
            'body{font-family:weasyprint;font-size:10px;line-height:12px;margin:0}'
            'h1,h2,h3,h4{font-size:12px;margin:2px 0}</style></head><body>%s</body></html>' % (
                lang, head, W, H, margin, 'bleed:%dpx;' % bleed if bleed else '', 'marks:%s;' % marks if marks else '',
                page_extra, first, body))
    return html, {'size': (W, H), 'first_size': first_size, 'bleed': bleed, 'meta': meta, 'forms': ctx.get('forms', False),
                  'svg': ctx.get('svg', False), 'attach': ctx.get('attach', False), 'ids': len(ctx['ids'])}


# ---------------------------------------------------------------- documents about the closure of /Font dictionaries
FAMILIES = ['weasyprint', 'DejaVu Sans', 'DejaVu Serif', 'DejaVu Sans Mono', 'weasyprint-otb']
INVISIBLE = ['&#x200b;', '&#x200d;', '&shy;', '&lrm;', '&#xfeff;', '&#x2060;', '&#xe000;', '&#x200b;&#x200b;', '&#x200c;']


def low_version(opts):
    """PDF <= 1.4 builds a CIDSet from font.widths: a font that shows no glyph crashes there (finding F95, fixed in 01e6bdd)"""
    v = opts.get('pdf_version') or ('1.4' if opts.get('pdf_variant') == 'pdf/a-1b' else None)
    return v is not None and str(v) <= '1.4'


def gen_font_doc(rng, opts):
    """A small document in which some font is used in an unusual way only: by a run without visible glyph, in
    generated content, in a margin box, inside an SVG, inside a form field, inside an opacity group or a pattern,
    for a single glyph, with letter/word spacing.  Every font selected by a Tf must still be in the /Font dictionary
    of the resources in effect.  The former crash sites F95 (no glyph shown + PDF <= 1.4) and F96 (bitmap font
    without glyph) are fixed and exercised here."""
    base = rng.choice(['weasyprint', 'weasyprint', 'DejaVu Sans'])
    low = False          # F95 fixed in 01e6bdd: glyph-less fonts are exercised at every PDF version
    forms = bool(opts.get('pdf_forms'))

    def other(bitmap_ok=True):
        fam = rng.choice([f for f in FAMILIES if f != base])          # F96 fixed in f790265: bitmap fonts everywhere
        extra = ''
        if fam.startswith('DejaVu') and rng.random() < 0.4:
            extra = rng.choice([';font-weight:bold', ';font-style:italic', ';font-weight:bold;font-style:italic'])
        return 'font-family:%s%s' % (fam, extra)

    def invisible(font):
        return rng.choice(INVISIBLE)

    css, body = [], []
    npat = rng.choice([1, 1, 2, 3])
    kinds = rng.sample(['invisible', 'pre-space', 'generated', 'margin-box', 'svg', 'field', 'group', 'pattern', 'single', 'spacing',
                        'hidden', 'size0', 'invisible', 'invisible-block', 'marker'], npat)
    for k in kinds:
        f = other()
        if k == 'invisible' and not low:
            body.append('<p>abc<span style="%s">%s</span>def</p>' % (f, invisible(f)))
        elif k == 'invisible-block' and not low:
            body.append('<div style="%s;%s">%s</div>' % (f, rng.choice(['', 'opacity:.5', 'transform:rotate(5deg)', 'float:left']), invisible(f)))
        elif k == 'pre-space':
            body.append('<pre style="%s;margin:0">%s</pre>' % (f, rng.choice([' ', '\t', '  \t ', '&nbsp;', '&nbsp; &nbsp;', '\n\n', ' a'])))
        elif k == 'generated':
            content = rng.choice(['""', '"\\200b"' if not low else '"x"', '" "', '"a"', 'counter(page)', '"\\a0"'])
            css.append('.g%d::%s{content:%s;%s}' % (len(css), rng.choice(['before', 'after']), content, f))
            body.append('<p class="g%d">abc</p>' % (len(css) - 1))
        elif k == 'margin-box':
            content = rng.choice(['"x"', 'counter(page)', '"\\200b"' if not low else '"y"', '"a b"', '""'])
            css.append('@page{@%s{content:%s;%s}}' % (rng.choice(['top-center', 'bottom-left', 'left-middle', 'top-right-corner']), content, f))
        elif k == 'svg':
            fam = f.split(':')[1].split(';')[0]
            txt = rng.choice(['a', 'ab c', '&#x200b;', '&#xe000;', ' '])
            body.append("<img src=\"data:image/svg+xml,<svg xmlns='http://www.w3.org/2000/svg' width='60' height='20'>"
                        "<text x='2' y='12' font-size='10' font-family='%s'%s>%s</text></svg>\">" % (
                            fam, rng.choice(['', " font-weight='bold'", " text-anchor='middle'", " opacity='.5'"]), txt))
        elif k == 'field':
            ff = other()        # a field font that shows no glyph elsewhere, outline or bitmap
            body.append(rng.choice(['<input value="v" style="%s">', '<textarea style="%s">t</textarea>',
                                    '<select style="%s"><option>o</option></select>', '<form><input type=checkbox checked style="%s"></form>']) % ff)
        elif k == 'group':
            body.append('<div style="opacity:.5"><span style="%s">%s</span></div>' % (f, rng.choice(['a', 'fi', invisible(f) if not low else 'b'])))
        elif k == 'pattern':
            fam = f.split(':')[1].split(';')[0]
            body.append("<div style=\"width:80px;height:30px;background:url(&quot;data:image/svg+xml,<svg xmlns='http://www.w3.org/2000/svg' "
                        "width='20' height='15'><text y='10' font-size='8' font-family='%s'>%s</text></svg>&quot;) %s\"></div>" % (
                            fam, rng.choice(['a', 'b']), rng.choice(['repeat', 'repeat-x', 'space', 'no-repeat'])))
        elif k == 'single':
            body.append('<p>abc <span style="%s">%s</span> def</p>' % (f, rng.choice(['a', 'f', 'A', '.', '1'])))
        elif k == 'spacing':
            body.append('<p style="%s;letter-spacing:%s;word-spacing:%s">%s</p>' % (
                f, rng.choice(['3px', '-1px', '0', '1em']), rng.choice(['-2px', '5px', 'normal']), rng.choice(['a b', 'ab cd ef', 'a'])))
        elif k == 'hidden':
            body.append('<p style="%s;visibility:hidden">abc</p>' % f)
        elif k == 'size0':
            body.append('<p style="%s;font-size:0">abc</p>' % f)
        elif k == 'marker':
            css.append('li.m%d::marker{%s;content:%s}' % (len(css), f, rng.choice(['"*"', '"\\200b"' if not low else '"-"', 'counter(list-item)'])))
            body.append('<ul><li class="m%d">abc</li></ul>' % (len(css) - 1))
        else:
            body.append('<p>abc <span style="%s">d</span></p>' % f)
    rng.shuffle(body)
    W, H = rng.choice([(200, 100), (150, 150), (120, 60)])
    html = ('<html><head><style>@font-face{src:url(weasyprint.otb);font-family:weasyprint-otb}'
            '@page{size:%dpx %dpx;margin:15px}body{font-family:%s;font-size:10px;line-height:12px;margin:0}%s</style></head>'
            '<body><p>abcdefgh Hello</p>%s</body></html>' % (W, H, base, ''.join(css), ''.join(body)))
    return html, {'size': (W, H), 'first_size': None, 'bleed': 0, 'kinds': kinds}


def gen_options(rng):
    o = {}
    variant = rng.choice(VARIANTS + [None, None, None])
    if variant:
        o['pdf_variant'] = variant
    if rng.random() < 0.4:
        o['uncompressed_pdf'] = True
    if rng.random() < 0.35:
        o['pdf_version'] = rng.choice(VERSIONS[1:])
    if rng.random() < 0.3:
        o['pdf_identifier'] = rng.choice(['abc', 'id(with)paren\\', '\xff\x00bin', 'x' * 40])
    if rng.random() < 0.4:
        o['pdf_forms'] = True
    if rng.random() < 0.25:
        o['srgb'] = True
    if rng.random() < 0.15:
        o['full_fonts'] = True
    if rng.random() < 0.2:
        o['hinting'] = True
    if rng.random() < 0.4:
        o['custom_metadata'] = True
    if rng.random() < 0.15:
        o['presentational_hints'] = True
    if rng.random() < 0.15:
        o['optimize_images'] = True
    if rng.random() < 0.1:
        o['jpeg_quality'] = rng.choice([10, 90])
    if rng.random() < 0.1:
        o['dpi'] = rng.choice([10, 72, 300])
    if rng.random() < 0.15:
        o['attachments'] = [{'data': 'attached %d' % i, 'name': rng.choice(['a.txt', 'n(a)me', None]),
                             'description': rng.choice([None, 'desc'])} for i in range(rng.choice([1, 2]))]
    return o, rng.choice(ZOOMS)


# ------------------------------------------------------------------------------------------------ the judge

SKEL = {'q': 0, 'Q': 1, 'BT': 2, 'ET': 3, 'BMC': 4, 'BDC': 4, 'EMC': 5, 'cm': 6}


def skeleton(ops):
    out = []
    for op, _ in ops:
        code = SKEL.get(op)
        if code is None:
            code = 7 if op in pdfread.TEXT_ONLY else 8
        if code == 8 and out and out[-1] == 8:
            continue
        out.append(code)
    return out


def close(a, b, tol=2e-4):
    return abs(a - b) <= tol * max(1.0, abs(a), abs(b)) + 1e-5


def judge_pdf(pdf, case, pages):
    """Everything the property demands of one output file.  Returns dict(bad=[(clause, detail)], stats, skeletons)."""
    opts = case.get('options') or {}
    zoom = case.get('zoom', 1)
    exp = case.get('expect') or {}
    bad = []
    doc = pdfread.parse(pdf)
    bad += pdfread.check_structure(doc)
    stats = {'bytes': len(pdf), 'objects': len(doc.objects), 'pages': len(pages), 'xref': getattr(doc, '_xref_kind', None),
             'version': doc.version, 'streams': 0, 'operators': 0}
    skeletons = []
    if not doc.objects:
        return {'bad': bad, 'stats': stats, 'skeletons': skeletons}
    # header / options
    want_version = opts.get('pdf_version')
    if not want_version and opts.get('pdf_variant'):
        want_version = {'pdf/a-1b': '1.4', 'pdf/a-4b': '2.0', 'pdf/a-4u': '2.0', 'pdf/ua-1': None, 'debug': None}.get(opts['pdf_variant'], '1.7')
    if doc.version != (want_version or '1.7'):
        bad.append(('header-version', 'header says %s, expected %s' % (doc.version, want_version or '1.7')))
    ident = opts.get('pdf_identifier')
    needs_id = bool(ident) or str(opts.get('pdf_variant')).startswith('pdf/a')
    idv = doc.trailer.get('ID')
    if needs_id and not (isinstance(idv, list) and len(idv) == 2):
        bad.append(('trailer-id', 'identifier requested but /ID is %r' % (idv,)))
    if not needs_id and idv is not None:
        bad.append(('trailer-id', '/ID present though no identifier was requested'))
    if ident and isinstance(idv, list) and idv and isinstance(idv[0], pdfread.PDFString):
        want = ident.encode('latin-1') if isinstance(ident, str) else ident
        if bytes(idv[0]) != want:
            bad.append(('trailer-id', '/ID[0] %r differs from the requested identifier %r' % (bytes(idv[0]), want)))
    # page tree = rendered pages ; MediaBox = page size x 0.75 x zoom plus bleed
    pdf_pages = doc.pages()
    if len(pdf_pages) != len(pages):
        bad.append(('page-count', '%d pages in the page tree, %d rendered' % (len(pdf_pages), len(pages))))
    contents_seen = set()
    scale = 0.75 * zoom
    for i, (pp, pg) in enumerate(zip(pdf_pages, pages)):
        mb = doc.resolve(pp.get('MediaBox'))
        c = pp.get('Contents')
        key = repr(c)
        if key in contents_seen:
            bad.append(('page-tree', 'page %d shares its /Contents %s with another page' % (i, key)))
        contents_seen.add(key)
        if not (isinstance(mb, list) and len(mb) == 4):
            continue
        b = pg['bleed']
        want = [-b['left'] * scale, -b['top'] * scale, (pg['w'] + b['right']) * scale, (pg['h'] + b['bottom']) * scale]
        if not all(close(x, y) for x, y in zip(mb, want)):
            bad.append(('mediabox', 'page %d MediaBox %r, expected %r (size %sx%s bleed %r zoom %s)' % (i, mb, want, pg['w'], pg['h'], b, zoom)))
        if 'size' in exp:
            W, H = exp['first_size'] if (i == 0 and exp.get('first_size')) else exp['size']
            if not (close(mb[2] - mb[0], (W + 2 * exp['bleed']) * scale) and close(mb[3] - mb[1], (H + 2 * exp['bleed']) * scale)):
                bad.append(('mediabox', 'page %d MediaBox %r does not have the size of @page %sx%s + bleed %s at zoom %s' % (i, mb, W, H, exp['bleed'], zoom)))
        for k in ('TrimBox', 'BleedBox'):
            bx = doc.resolve(pp.get(k))
            if isinstance(bx, list) and len(bx) == 4 and all(isinstance(v, (int, float)) for v in bx + mb):
                if not (bx[0] >= mb[0] - 1e-4 and bx[1] >= mb[1] - 1e-4 and bx[2] <= mb[2] + 1e-4 and bx[3] <= mb[3] + 1e-4):
                    bad.append(('page-box', 'page %d /%s %r is not inside the MediaBox %r' % (i, k, bx, mb)))
    # content streams
    for where, num, data, res in doc.walk_content_streams():
        stats['streams'] += 1
        if data is None:
            bad.append(('stream-decode', '%s: content stream %s cannot be decoded' % (where, num)))
            continue
        try:
            ops = pdfread.tokenize_content(data)
        except pdfread.PDFError as exc:
            bad.append(('content-syntax', '%s: %s' % (where, exc)))
            continue
        stats['operators'] += len(ops)
        skeletons.append(skeleton(ops))
        for clause, detail in pdfread.check_content(ops, res, doc):
            bad.append((clause, '%s: %s' % (where, detail)))
    return {'bad': bad[:40], 'stats': stats, 'skeletons': skeletons, 'closure': closure_case(doc)}


def closure_case(doc):
    """what closure_judge (coq/model/C16Closure.v) is evaluated on: per content stream the names defined by the resource
    dictionary in effect and the names its operators use (category index, interned name), the object numbers of the
    file and the object numbers referenced from anywhere"""
    names = {}
    nodes = []
    for f in pdfread.closure_facts(doc):
        defs = [(ci, names.setdefault(n, len(names))) for ci, cat in enumerate(pdfread.CATEGORIES) for n in f['defs'][cat]]
        uses = sorted({(pdfread.CATEGORIES.index(cat), names.setdefault(n, len(names))) for cat, n in f['uses']})
        nodes.append({'where': f['where'], 'defs': defs, 'uses': uses})
    refs = set()
    for num, val in doc.objects.items():
        for r in doc.refs_in(val):
            refs.add(r.num)
    for r in doc.refs_in(doc.trailer):
        refs.add(r.num)
    return {'nodes': nodes, 'objs': sorted(doc.objects), 'refs': sorted(refs), 'names': {v: k for k, v in names.items()}}


PRE_CLO = ('From Coq Require Import ZArith List Bool.\nRequire Import WV.model.C16Closure.\n'
           'Import ListNotations.\nOpen Scope Z_scope.\n')


def cclosure(c):
    rn = lambda u: '(%d%%nat, %s)' % (u[0], zlit(u[1]))
    nodes = clist('(nmk %s %s)' % (clist(rn(u) for u in n['defs']), clist(rn(u) for u in n['uses'])) for n in c['nodes'])
    return '(%s, (%s, %s))' % (nodes, clist(zlit(x) for x in c['objs']), clist(zlit(x) for x in c['refs']))


def judge_closure(run, docs, tag, stream):
    """docs: [(case, verdict)]; evaluates closure_judge in Coq on every parsed output"""
    items = [(c, v) for c, v in docs if v.get('closure')]
    masks = common.eval_cases(tag, PRE_CLO, 'list node * (list Z * list Z)', [cclosure(v['closure']) for _, v in items],
                              'closure_judge', per_file=40) if items else []
    nuses = 0
    for (c, v), m in zip(items, masks):
        nuses += sum(len(n['uses']) for n in v['closure']['nodes'])
        if m:
            clo = v['closure']
            detail = []
            for n in clo['nodes']:
                for u in n['uses']:
                    if u not in [tuple(d) for d in n['defs']] and list(u) not in n['defs']:
                        detail.append('%s uses /%s (%s) which its resource dictionary does not define' % (
                            n['where'], clo['names'].get(u[1], clo['names'].get(str(u[1]))), pdfread.CATEGORIES[u[0]]))
            missing = sorted(set(clo['refs']) - set(clo['objs']))
            if missing:
                detail.append('references to absent objects %s' % missing[:6])
            run.fail('resource closure fails (Coq closure_judge mask %d): %s' % (m, '; '.join(detail[:3])),
                     {'stream': stream, 'html': c['html'], 'options': c.get('options'), 'zoom': c.get('zoom', 1), 'detail': detail[:10]},
                     signature='pdf:closure')
    return len(items), nuses


def _streams_of(pdf):
    doc = pdfread.parse(pdf)
    out = []
    for where, num, data, res in doc.walk_content_streams():
        out.append((where, data))
    other = []
    for num, obj in sorted(doc.objects.items()):
        if isinstance(obj, pdfread.StreamObj) and obj.dict.get('Type') not in ('XRef', 'ObjStm') \
                and obj.dict.get('Subtype') != 'OpenType' and 'Length1' not in obj.dict:    # font programs carry a date
            other.append((num, obj.dict.get('Type'), obj.dict.get('Subtype'), doc.stream_data(obj)))
    return doc, out, other


def compare_twins(pdf_a, pdf_b):
    """compressed and uncompressed output decode to the same streams"""
    bad = []
    da, ca, oa = _streams_of(pdf_a)
    db, cb_, ob = _streams_of(pdf_b)
    if [w for w, _ in ca] != [w for w, _ in cb_]:
        bad.append(('twin-streams', 'content stream sets differ: %s vs %s' % ([w for w, _ in ca][:8], [w for w, _ in cb_][:8])))
    for (w, x), (_, y) in zip(ca, cb_):
        if x != y:
            bad.append(('twin-streams', '%s decodes differently with and without compression' % w))
            break
    if len(oa) != len(ob):
        bad.append(('twin-streams', '%d stream objects vs %d' % (len(oa), len(ob))))
    else:
        for (n1, t1, s1, d1), (n2, t2, s2, d2) in zip(oa, ob):
            if (t1, s1) != (t2, s2) or d1 != d2:
                bad.append(('twin-streams', 'stream object %s/%s (%s %s) decodes differently with and without compression' % (n1, n2, t1, s1)))
                break
    return bad


# ------------------------------------------------------------------- recorded traces -> Coq (trace_judge)

def tkey(k):
    if k[0] == 'KA':
        return '(KA %s %s %s)' % (cb(k[1]), zlit(k[2]), cb(k[3]))
    return '(KS %s)' % zlit(k[1])


def tcol(c):
    return '(%s, %s)' % (zlit(c[0]), zlit(c[1]))


def tcop(o):
    k = o[0]
    if k in ('push', 'pop', 'bt', 'et', 'emc'):
        return {'push': 'Push', 'pop': 'Pop', 'bt': 'BeginText', 'et': 'EndText', 'emc': 'EndMC'}[k]
    if k == 'color':
        return '(SetColor %s %s %s %s)' % (cb(o[1]), tcol(o[2]), zlit(o[3]), cb(o[4]))
    if k == 'alpha':
        return '(SetAlpha %s %s %s %s)' % (zlit(o[1]), cb(o[2]), cb(o[3]), copt(o[4], cb))
    if k == 'font':
        return '(SetFont (%s, %s))' % (zlit(o[1]), zlit(o[2]))
    if k == 'state':
        return '(SetState %s %s)' % (copt(o[1], zlit), copt(o[2], zlit))
    if k == 'pattern':
        return '(PatternColor %s %s)' % (cb(o[1]), zlit(o[2]))
    if k == 'cm':
        return '(Transform (1, 0, 0, 1, %s, 0))' % zlit(o[1])
    if k == 'tm':
        return '(TextMatrix (1, 0, 0, 1, %s, 0))' % zlit(o[1])
    if k == 'bmc':
        return '(BeginMC %s)' % cb(o[1])
    if k == 'tok':
        return '(Tok %s)' % zlit(o[1])
    if k == 'xstate':
        return '(ExtState %s)' % cgsval(o[1], o[2])
    if k == 'xalpha':
        return '(ExtAlpha %s %s %s)' % (cb(o[1]), zlit(o[2]), cb(o[3]))
    if k == 'rb':
        return '(Rollback %d%%nat %d%%nat %d%%nat)' % (max(0, o[1]), o[2], o[3])
    raise ValueError(o)


def tctok(t):
    k = t[0]
    if k in ('q', 'Q', 'BT', 'ET', 'BMC', 'BDC', 'EMC'):
        return 'T' + k
    if k == 'gs':
        return '(Tgs %s %s)' % (tkey(t[1]), cgsval(t[2], t[3]))
    if k == 'rg':
        return '(Trg %s %s)' % (cb(t[1]), tcol(t[2]))
    if k == 'scn':
        return '(Tscn %s %s)' % (cb(t[1]), tcol(t[2]))
    if k == 'cs':
        return '(Tcs %s %s)' % (cb(t[1]), zlit(t[2]))
    if k == 'pat':
        return '(Tpat %s %s)' % (cb(t[1]), zlit(t[2]))
    if k == 'Tf':
        return '(Tfont (%s, %s))' % (zlit(t[1]), zlit(t[2]))
    if k == 'cm':
        return '(Tcm (1, 0, 0, 1, %s, 0))' % zlit(t[1])
    if k == 'Tm':
        return '(Ttm (1, 0, 0, 1, %s, 0))' % zlit(t[1])
    if k == 'tag':
        return 'Ttag'
    if k == 'props':
        return '(Tprops %s)' % zlit(t[1])
    if k == 'other':
        return '(Tother %s)' % zlit(t[1])
    raise ValueError(t)


def ctrace(tr):
    d0 = clist('(%s, %s)' % (tkey(k[:-2]), cgsval(k[-2], k[-1])) for k in tr['keys0'])
    return '(%s, %s, %s, %s, %s)' % (cb(tr['mark']), d0, clist(tcop(o) for o in tr['ops']),
                                     clist(tcop(o) for o in tr.get('kops', tr['ops'])), clist(tctok(t) for t in tr['toks']))


TRACE_T = 'bool * egsd * list op * list op * list tok'
UNMODELLED = ('list-replaced', 'foreign-append', 'nonempty-at-start', 'odd-item')


# =============================================================== AST pass: the draw calls are well bracketed
import ast

OPEN = {'push_state': 'q', 'begin_text': 't', 'begin_marked_content': 'm'}
CLOSE = {'pop_state': 'q', 'end_text': 't', 'end_marked_content': 'm'}
AST_FILES = ['draw/*.py', 'pdf/*.py', 'document.py', 'images.py', 'svg/*.py']


def _key(node):
    """name of an lvalue/receiver, independent of Load/Store context"""
    if isinstance(node, ast.Name):
        return node.id
    if isinstance(node, ast.Attribute):
        return _key(node.value) + '.' + node.attr
    if isinstance(node, ast.Subscript):
        return _key(node.value) + '[' + ast.dump(node.slice, annotate_fields=False) + ']'
    return ast.dump(node, annotate_fields=False)


def _dump(node):
    return ast.dump(node, annotate_fields=False)


def _is_bracket_call(c):
    return isinstance(c, ast.Call) and isinstance(c.func, ast.Attribute) and (c.func.attr in OPEN or c.func.attr in CLOSE)


def _own_nodes(fn):
    """nodes of a function body without the bodies of nested function definitions"""
    todo = list(fn.body)
    while todo:
        n = todo.pop()
        yield n
        for c in ast.iter_child_nodes(n):
            if not isinstance(c, (ast.FunctionDef, ast.AsyncFunctionDef, ast.ClassDef, ast.Lambda)):
                todo.append(c)


class _State(object):
    """abstract state on one path: open brackets, identity of the receivers, known truth values of conditions"""
    __slots__ = ('stack', 'env', 'lists', 'facts')

    def __init__(self, stack=(), env=None, lists=None, facts=None):
        self.stack, self.env, self.lists, self.facts = tuple(stack), dict(env or {}), dict(lists or {}), dict(facts or {})

    def copy(self):
        return _State(self.stack, self.env, self.lists, self.facts)

    def key(self):
        return (self.stack, tuple(sorted(self.env.items())), tuple(sorted((k, tuple(v)) for k, v in self.lists.items())),
                tuple(sorted((k, v[0]) for k, v in self.facts.items())))


class BracketChecker(object):
    """Path-sensitive check of one function: every push_state/begin_text/begin_marked_content is closed by the
    matching call on the same object on every path (return, continue, break included), or is a `with stacked()`.
    Identical conditions tested several times in a function are correlated, boolean flags are followed; receivers
    are compared by abstract identity (`a = b` copies it, any other assignment makes a new one,
    list.append / list.pop() / list[-1] follow it).  Exceptions are not paths here (see `swallow`)."""

    def __init__(self, path, func):
        self.path, self.func = path, func
        self.problems = []
        self.swallow = []
        nodes = list(_own_nodes(func))
        self.receivers = {_key(n.func.value) for n in nodes if _is_bracket_call(n)}
        # names whose identity matters: receivers, their aliases, the lists they are saved in
        self.tracked_names = set(self.receivers)
        changed = True
        while changed:
            changed = False
            for n in nodes:
                if isinstance(n, ast.Assign) and isinstance(n.value, (ast.Name, ast.Attribute, ast.Subscript)):
                    ks = {_key(t) for t in n.targets if isinstance(t, (ast.Name, ast.Attribute))}
                    v = _key(n.value.value) if isinstance(n.value, ast.Subscript) else _key(n.value)
                    if (ks & self.tracked_names and v not in self.tracked_names) or (v in self.tracked_names and not ks <= self.tracked_names):
                        self.tracked_names |= ks | {v}
                        changed = True
                if isinstance(n, ast.Assign) and isinstance(n.value, ast.Call) and isinstance(n.value.func, ast.Attribute) \
                        and n.value.func.attr == 'pop' and _key(n.value.func.value) in self.tracked_names:
                    ks = {_key(t) for t in n.targets if isinstance(t, (ast.Name, ast.Attribute))}
                    if not ks <= self.tracked_names:
                        self.tracked_names |= ks
                        changed = True
                if isinstance(n, ast.Call) and isinstance(n.func, ast.Attribute) and n.func.attr == 'append' and len(n.args) == 1 \
                        and isinstance(n.args[0], (ast.Name, ast.Attribute)) and _key(n.args[0]) in self.tracked_names \
                        and _key(n.func.value) not in self.tracked_names:
                    self.tracked_names.add(_key(n.func.value))
                    changed = True
        # conditions worth remembering: tested more than once; boolean flags (names assigned True/False)
        counts = {}
        for n in nodes:
            if isinstance(n, (ast.If, ast.While, ast.IfExp)):
                for t in ([n.test] + (n.test.values if isinstance(n.test, ast.BoolOp) else [])):
                    counts[_dump(t)] = counts.get(_dump(t), 0) + 1
        self.flags = {t.id for n in nodes if isinstance(n, ast.Assign) and isinstance(n.value, ast.Constant)
                      and isinstance(n.value.value, bool) for t in n.targets if isinstance(t, ast.Name)}
        self.tracked_conds = {d for d, c in counts.items() if c > 1}
        self.assigned_attrs = set()

    def relevant(self):
        return bool(self.receivers)

    # ---- helpers
    def problem(self, node, msg):
        p = (self.path, self.func.name, getattr(node, 'lineno', 0), msg)
        if p not in self.problems:
            self.problems.append(p)

    def ident(self, st, expr):
        k = _key(expr)
        if k in st.env:
            return st.env[k]
        if isinstance(expr, ast.Subscript) and isinstance(expr.slice, ast.UnaryOp) and isinstance(expr.slice.op, ast.USub) \
                and isinstance(expr.slice.operand, ast.Constant) and expr.slice.operand.value == 1:
            l = st.lists.get(_key(expr.value))
            if l:
                return l[-1]
        return 'init:' + k

    def new_id(self, node):
        return 'new@%d:%d' % (getattr(node, 'lineno', 0), getattr(node, 'col_offset', 0))

    def assign(self, st, target, value_id, node):
        if isinstance(target, (ast.Tuple, ast.List)):
            for t in target.elts:
                self.assign(st, t, self.new_id(t), node)
            return
        if isinstance(target, ast.Starred):
            return self.assign(st, target.value, self.new_id(target), node)
        k = _key(target)
        if isinstance(target, ast.Attribute) and k in self.receivers:
            self.assigned_attrs.add(k)
        if k in self.tracked_names:
            st.env[k] = value_id
        for other in list(st.env):
            if other.startswith(k + '.'):                           # x = ... invalidates x.attr
                del st.env[other]
        base = k.split('.')[0].split('[')[0]
        for f in list(st.facts):
            if k in st.facts[f][1] or base in st.facts[f][1]:
                del st.facts[f]

    def calls_in(self, node):
        out = [n for n in ast.walk(node) if isinstance(n, ast.Call) and isinstance(n.func, ast.Attribute)]
        return sorted(out, key=lambda n: (n.lineno, n.col_offset))

    def do_calls(self, st, node):
        for c in self.calls_in(node):
            name = c.func.attr
            if name in OPEN:
                st.stack = st.stack + ((OPEN[name], self.ident(st, c.func.value), c.lineno),)
            elif name in CLOSE:
                rid = self.ident(st, c.func.value)
                if not st.stack or st.stack[-1][0] == 'with':
                    self.problem(c, '%s() without a matching opening call in this function' % name)
                elif st.stack[-1][0] != CLOSE[name]:
                    self.problem(c, '%s() closes a %s opened at line %d' % (name, st.stack[-1][0], st.stack[-1][2]))
                    st.stack = st.stack[:-1]
                elif st.stack[-1][1] != rid:
                    self.problem(c, '%s() is called on another object (%s) than the opening call of line %d (%s)'
                                 % (name, rid, st.stack[-1][2], st.stack[-1][1]))
                    st.stack = st.stack[:-1]
                else:
                    st.stack = st.stack[:-1]
            elif name == 'append' and len(c.args) == 1 and _key(c.func.value) in self.tracked_names:
                st.lists[_key(c.func.value)] = st.lists.get(_key(c.func.value), []) + [self.ident(st, c.args[0])]

    def check_exit(self, st, node, what):
        opened = [e for e in st.stack if e[0] != 'with']
        if opened:
            self.problem(node, '%s with %s still open (opened at line %s)' % (
                what, '/'.join({'q': 'push_state', 't': 'begin_text', 'm': 'begin_marked_content'}[e[0]] for e in opened),
                ','.join(str(e[2]) for e in opened)))

    # ---- statements: list of (state, how) with how in normal|return|break|continue
    def block(self, stmts, states):
        out_other = []
        cur = states
        for s in stmts:
            nxt, seen = [], set()
            for st in cur:
                for st2, how in self.stmt(s, st):
                    if how == 'normal':
                        k = st2.key()
                        if k not in seen:
                            seen.add(k)
                            nxt.append(st2)
                    else:
                        out_other.append((st2, how))
            cur = nxt
            if len(cur) > 2000:
                self.problem(s, 'analysis gave up: too many paths')
                cur = cur[:20]
        seen, uniq = set(), []
        for st2, how in out_other:
            k = (st2.key(), how)
            if k not in seen:
                seen.add(k)
                uniq.append((st2, how))
        return [(st, 'normal') for st in cur] + uniq

    def cond(self, st, test):
        """[(state, truth)] for the outcomes of a test that are possible in `st`"""
        d = _dump(test)
        if isinstance(test, ast.UnaryOp) and isinstance(test.op, ast.Not):
            return [(s2, not v) for s2, v in self.cond(st, test.operand)]
        if isinstance(test, ast.Constant):
            return [(st, bool(test.value))]
        if d in st.facts:
            return [(st, st.facts[d][0])]
        names = frozenset({n.id for n in ast.walk(test) if isinstance(n, ast.Name)} |
                          {_key(n) for n in ast.walk(test) if isinstance(n, ast.Attribute)})
        if isinstance(test, ast.BoolOp) and isinstance(test.op, ast.And):
            outs = [(st, True)]
            for operand in test.values:
                nxt = []
                for s2, v in outs:
                    if not v:
                        nxt.append((s2, False))
                    else:
                        nxt.extend(self.cond(s2, operand))
                outs = nxt
            res = []
            for s2, v in outs:
                if d in self.tracked_conds:
                    s2 = s2.copy()
                    s2.facts[d] = (v, names)
                res.append((s2, v))
            return res
        if d in self.tracked_conds or (isinstance(test, ast.Name) and test.id in self.flags):
            a, b = st.copy(), st.copy()
            a.facts[d] = (True, names)
            b.facts[d] = (False, names)
            return [(a, True), (b, False)]
        return [(st, True), (st.copy(), False)]

    def stmt(self, s, st):
        st = st.copy()
        if isinstance(s, (ast.FunctionDef, ast.AsyncFunctionDef, ast.ClassDef, ast.Import, ast.ImportFrom, ast.Pass,
                          ast.Global, ast.Nonlocal)):
            return [(st, 'normal')]
        if isinstance(s, ast.Return):
            if s.value is not None:
                self.do_calls(st, s.value)
            self.check_exit(st, s, 'return')
            return [(st, 'return')]
        if isinstance(s, ast.Raise):
            return []
        if isinstance(s, (ast.Break, ast.Continue)):
            return [(st, 'break' if isinstance(s, ast.Break) else 'continue')]
        if isinstance(s, ast.Assign):
            self.do_calls(st, s.value)
            v = s.value
            if isinstance(v, (ast.Name, ast.Attribute)) or (isinstance(v, ast.Subscript) and self.ident(st, v) != 'init:' + _key(v)):
                vid = self.ident(st, v)
            elif isinstance(v, ast.Call) and isinstance(v.func, ast.Attribute) and v.func.attr == 'pop' and not v.args \
                    and st.lists.get(_key(v.func.value)):
                l = st.lists[_key(v.func.value)]
                vid = l[-1]
                st.lists[_key(v.func.value)] = l[:-1]
            else:
                vid = self.new_id(s)
            for t in s.targets:
                self.assign(st, t, vid, s)
                if isinstance(t, ast.Name) and t.id in self.flags and isinstance(v, ast.Constant) and isinstance(v.value, bool):
                    st.facts[_dump(ast.Name(t.id, ast.Load()))] = (v.value, frozenset([t.id]))
            return [(st, 'normal')]
        if isinstance(s, (ast.AugAssign, ast.AnnAssign)):
            if s.value is not None:
                self.do_calls(st, s.value)
            self.assign(st, s.target, self.new_id(s), s)
            return [(st, 'normal')]
        if isinstance(s, ast.Expr):
            v = s.value
            if isinstance(v, ast.Call) and isinstance(v.func, ast.Attribute) and v.func.attr == 'pop' and not v.args \
                    and st.lists.get(_key(v.func.value)):
                st.lists[_key(v.func.value)] = st.lists[_key(v.func.value)][:-1]
            self.do_calls(st, v)
            return [(st, 'normal')]
        if isinstance(s, ast.If):
            self.do_calls(st, s.test)
            out = []
            for s2, truth in self.cond(st, s.test):
                out.extend(self.block(s.body if truth else s.orelse, [s2]))
            return out
        if isinstance(s, (ast.For, ast.AsyncFor, ast.While)):
            self.do_calls(st, s.test if isinstance(s, ast.While) else s.iter)
            entry = st.copy()
            body_st = st.copy()
            if not isinstance(s, ast.While):
                self.assign(body_st, s.target, self.new_id(s), s)
            assigned = set()
            for n in ast.walk(s):
                if isinstance(n, (ast.Assign, ast.AugAssign, ast.AnnAssign, ast.For)):
                    for t in (n.targets if isinstance(n, ast.Assign) else [n.target]):
                        for x in ast.walk(t):
                            if isinstance(x, ast.Name):
                                assigned.add(x.id)
            for f in list(body_st.facts):
                if body_st.facts[f][1] & assigned:
                    del body_st.facts[f]
            exits = []
            rebound = set()
            for s2, how in self.block(s.body, [body_st]):
                if how == 'return':
                    exits.append((s2, how))
                    continue
                if s2.stack != entry.stack:
                    self.problem(s, 'loop body (%s) changes the open brackets: %r -> %r' % (how, entry.stack, s2.stack))
                for k in self.tracked_names:
                    if s2.env.get(k, 'init:' + k) != entry.env.get(k, 'init:' + k):
                        rebound.add(k)
            after = entry.copy()
            for k in rebound:                       # identity unknown after the loop
                after.env[k] = 'loop@%d:%s' % (s.lineno, k)
            for f in list(after.facts):
                if after.facts[f][1] & assigned:
                    del after.facts[f]
            out = self.block(s.orelse, [after]) if s.orelse else [(after, 'normal')]
            return out + exits
        if isinstance(s, (ast.With, ast.AsyncWith)):
            marks = 0
            for item in s.items:
                ce = item.context_expr
                if isinstance(ce, ast.Call) and isinstance(ce.func, ast.Name) and ce.func.id == 'stacked':
                    st.stack = st.stack + (('with', self.ident(st, ce.args[0]) if ce.args else '?', s.lineno),)
                    marks += 1
                else:
                    self.do_calls(st, ce)
                if isinstance(ce, ast.Call) and isinstance(ce.func, ast.Name) and ce.func.id == 'suppress':
                    if any(isinstance(n, ast.Call) for b in s.body for n in ast.walk(b)):
                        site = (self.path, self.func.name, s.lineno, 'with suppress(%s) around calls' % ', '.join(_key(a) for a in ce.args))
                        if site not in self.swallow:
                            self.swallow.append(site)
                if item.optional_vars is not None:
                    self.assign(st, item.optional_vars, self.new_id(s), s)
            out = []
            for s2, how in self.block(s.body, [st]):
                if marks:
                    if how == 'normal' and s2.stack != st.stack:
                        self.problem(s, 'body of `with stacked` leaves brackets open: %r' % (s2.stack[len(st.stack):],))
                    if how in ('break', 'continue') and [e for e in s2.stack[len(st.stack):] if e[0] != 'with']:
                        self.problem(s, '%s out of `with stacked` with brackets open' % how)
                    if how != 'return':
                        s2.stack = st.stack[:len(st.stack) - marks]
                out.append((s2, how))
            return out
        if isinstance(s, ast.Try):
            swallowing = [h for h in s.handlers if not any(isinstance(n, ast.Raise) for b in h.body for n in ast.walk(b))]
            if swallowing and any(isinstance(n, ast.Call) and isinstance(n.func, ast.Attribute) and
                                  (n.func.attr in OPEN or n.func.attr == 'draw') for b in s.body for n in ast.walk(b)):
                site = (self.path, self.func.name, s.lineno, 'try/except %s without re-raise around drawing calls' % ', '.join(
                    _key(h.type) if h.type is not None else 'everything' for h in swallowing))
                if site not in self.swallow:
                    self.swallow.append(site)
            out = []
            for s2, how in self.block(s.body, [st]):
                if how == 'normal' and s.orelse:
                    out.extend(self.block(s.orelse, [s2]))
                else:
                    out.append((s2, how))
            for h in s.handlers:
                out.extend(self.block(h.body, [st.copy()]))
            if s.finalbody:
                fin = []
                for s2, how in out:
                    for s3, how3 in self.block(s.finalbody, [s2]):
                        fin.append((s3, how if how3 == 'normal' else how3))
                out = fin
            return out
        self.do_calls(st, s)
        return [(st, 'normal')]

    def run(self):
        for n in _own_nodes(self.func):
            pass
        for n in ast.walk(self.func):
            if isinstance(n, (ast.Lambda, ast.ListComp, ast.SetComp, ast.DictComp, ast.GeneratorExp)):
                for c in ast.walk(n):
                    if _is_bracket_call(c):
                        self.problem(c, 'bracket call inside a lambda/comprehension is not analysed')
        results = self.block(list(self.func.body), [_State()])
        for st, how in results:
            if how == 'normal':
                self.check_exit(st, self.func.body[-1], 'end of function')
            if how in ('normal', 'return'):
                for k in self.assigned_attrs:
                    if st.env.get(k, 'init:' + k) != 'init:' + k and self.reads_before_assign(k):
                        self.problem(self.func, 'receiver %s is not restored at exit' % k)
        return self.problems

    def reads_before_assign(self, k):
        """the first statement that mentions the attribute does not simply assign it: it is state of the caller"""
        for s in self.func.body:
            for n in ast.walk(s):
                if isinstance(n, ast.Attribute) and _key(n) == k:
                    return not (isinstance(s, ast.Assign) and any(_key(t) == k for t in s.targets)
                                and not any(isinstance(x, ast.Attribute) and _key(x) == k for x in ast.walk(s.value)))
        return False


def ast_pass(repo):
    """Returns (problems, swallow sites, stats)."""
    import glob
    problems, swallow = [], []
    stats = {'files': 0, 'functions': 0, 'with_stacked': 0, 'open_calls': 0, 'close_calls': 0, 'functions_checked': 0}
    for pat in AST_FILES:
        for path in sorted(glob.glob(os.path.join(repo, 'weasyprint', pat))):
            rel = os.path.relpath(path, repo)
            try:
                tree = ast.parse(open(path).read(), path)
            except SyntaxError as exc:
                problems.append((rel, '<module>', 0, 'cannot parse: %s' % exc))
                continue
            stats['files'] += 1
            for n in ast.walk(tree):
                if isinstance(n, ast.With):
                    stats['with_stacked'] += sum(1 for i in n.items if isinstance(i.context_expr, ast.Call) and
                                                 isinstance(i.context_expr.func, ast.Name) and i.context_expr.func.id == 'stacked')
                if isinstance(n, ast.Call) and isinstance(n.func, ast.Attribute):
                    stats['open_calls'] += n.func.attr in OPEN
                    stats['close_calls'] += n.func.attr in CLOSE
            # exceptions swallowed around drawing calls, wherever they are (SVGImage.draw)
            for fn in ast.walk(tree):
                if isinstance(fn, (ast.FunctionDef, ast.AsyncFunctionDef)):
                    for n in _own_nodes(fn):
                        if isinstance(n, ast.Try):
                            sw = [h for h in n.handlers if not any(isinstance(x, ast.Raise) for b in h.body for x in ast.walk(b))]
                            draws = [x for b in n.body for x in ast.walk(b) if isinstance(x, ast.Call) and isinstance(x.func, ast.Attribute)
                                     and (x.func.attr in OPEN or x.func.attr in ('draw', 'draw_node', 'paint'))]
                            if sw and draws:
                                site = (rel, fn.name, n.lineno, 'try/except %s without re-raise around %s()' % (
                                    ', '.join(_key(h.type) if h.type is not None else 'everything' for h in sw), draws[0].func.attr))
                                if site not in swallow:
                                    swallow.append(site)
            for n in tree.body:
                if not isinstance(n, (ast.FunctionDef, ast.AsyncFunctionDef, ast.ClassDef)):
                    for c in ast.walk(n):
                        if _is_bracket_call(c):
                            problems.append((rel, '<module>', c.lineno, 'bracket call at module level'))
            for fn in ast.walk(tree):
                if isinstance(fn, (ast.FunctionDef, ast.AsyncFunctionDef)):
                    stats['functions'] += 1
                    if rel.endswith('pdf/stream.py') and (fn.name in OPEN or fn.name in CLOSE):
                        continue           # the primitives themselves: super().push_state() ...
                    ck = BracketChecker(rel, fn)
                    if not ck.relevant():
                        continue
                    stats['functions_checked'] += 1
                    problems.extend(ck.run())
                    swallow.extend(x for x in ck.swallow if x not in swallow)
    return problems, swallow, stats


# ======================================================================================== the check itself

# Regression probes of the findings of this property, all fixed in /repo (F12 twice, F29, F66): each must render to a
# well-formed PDF; for F66 the drawing that raises must leave nothing in the stream (Stream.checkpoint / rollback).
WITNESSES = {
    # name: (signature or None, case)
    'F12-mask-border(fixed 081cf63)': (None, {
        'html': '<style>@page{size:100px;margin:0}body{font-family:weasyprint;font-size:10px;margin:0}</style>'
                '<p style="color:rgba(0,0,0,.5)">ab<span style="mask-border: url(pattern.png) 1; background: rgba(0,0,255,.5)">cd</span></p>',
        'options': {'uncompressed_pdf': True}, 'record': True}),
    'F12-svg-pattern-colour(fixed d0792aa)': (None, {
        'html': '<style>@page{size:100px;margin:0}</style><img src="data:image/svg+xml,<svg xmlns=\'http://www.w3.org/2000/svg\' width=\'40\' height=\'40\'>'
                '<defs><linearGradient id=\'g\'><stop offset=\'0\' stop-color=\'red\'/><stop offset=\'1\' stop-color=\'blue\'/></linearGradient>'
                '<marker id=\'k2\' markerWidth=\'10\' markerHeight=\'10\'><rect width=\'3\' height=\'3\' fill=\'lime\'/></marker>'
                '<marker id=\'k\' markerWidth=\'10\' markerHeight=\'10\'><path d=\'M 0 0 L 5 0 L 5 5 z\' fill=\'url(%23g)\' marker-start=\'url(%23k2)\'/></marker></defs>'
                '<path d=\'M 5 5 L 30 30 L 5 30 z\' fill=\'lime\' marker-start=\'url(%23k)\'/></svg>">',
        'options': {'uncompressed_pdf': True}, 'record': True}),
    'F29-ua-opacity-scale0(fixed dd3d4b1)': (None, {
        'html': '<style>@page{size:100px;margin:0}body{font-family:weasyprint;font-size:10px;margin:0}</style>'
                '<div style="opacity:.5;transform:scale(0)">abc</div>', 'options': {'pdf_variant': 'pdf/ua-1'}, 'record': True}),
    'font-of-invisible-run-stays-in-Font-dictionary': (None, {
        'html': '<style>@page{size:200px 100px;margin:0}body{margin:0;font-size:20px;font-family:DejaVu Sans}span{font-family:weasyprint}</style>'
                '<p>abc<span>&#x200b;</span>def</p>', 'options': {'uncompressed_pdf': True}, 'record': False}),
    'F66-svg-bad-fill-opacity(fixed 5f13d7d)': (None, {
        'html': '<style>@page{size:100px;margin:0}body{font-family:weasyprint;font-size:10px;margin:0}</style>abc<img src="data:image/svg+xml,'
                '<svg xmlns=\'http://www.w3.org/2000/svg\' width=\'20\' height=\'20\'><text y=\'9\' font-size=\'8\'>a</text>'
                '<rect width=\'10\' height=\'10\' fill-opacity=\'x\'/></svg>">def', 'options': {'uncompressed_pdf': True}, 'record': True}),
    'F66-svg-marker-on-single-vertex-path(fixed 5f13d7d)': (None, {
        'html': '<style>@page{size:100px;margin:0}</style><img src="data:image/svg+xml,<svg xmlns=\'http://www.w3.org/2000/svg\' width=\'40\' height=\'40\'>'
                '<defs><marker id=\'k\' markerWidth=\'6\' markerHeight=\'6\' orient=\'auto\'><circle cx=\'3\' cy=\'3\' r=\'2\'/></marker></defs>'
                '<path d=\'M 1 1\' marker-end=\'url(%23k)\'/></svg>">', 'options': {'uncompressed_pdf': True}, 'record': True}),
}


def classify_doc(run, case, st, o, stream):
    """turn one render outcome into failures; returns the verdict dict or None"""
    small = {'stream': stream, 'html': case['html'], 'options': case.get('options'), 'zoom': case.get('zoom', 1),
             'expect': case.get('expect')}
    if st == 'timeout':
        run.fail('render timeout', small, signature='timeout')
        return None
    if st == 'exc':
        run.fail('render raised %s at %s: %s' % (o['type'], o['site'], o['msg'][:120]), dict(small, exc=o),
                 signature='crash:%s' % (o['site'],))
        return None
    # an SVG whose drawing raises is logged and erased (Stream.rollback, fix of F66): the output must be as well formed as
    # any other; the judge below does not know that something was swallowed
    for clause, detail in o['bad'][:3]:
        run.fail('PDF not well formed: %s: %s' % (clause, detail), dict(small, clause=clause, detail=detail),
                 signature='pdf:%s' % clause)
    return o


def judge_traces(run, docs, tag):
    """docs: [(case, verdict)] with verdict['traces'].  Evaluates trace_judge in Coq."""
    items = []
    skipped = {}
    for ci, (case, o) in enumerate(docs):
        for tr in o.get('traces') or []:
            flags = [f for f in tr['flags'] if f in UNMODELLED or f.startswith(('unmodelled', 'raised'))]
            if flags or len(tr['ops']) > 3000:
                for f in (flags or ['too-long']):
                    skipped[f] = skipped.get(f, 0) + 1
                continue
            items.append((ci, tr))
    masks = common.eval_cases(tag, PRE, TRACE_T, [ctrace(tr) for _, tr in items], 'trace_judge', per_file=60) if items else []
    return items, masks, skipped


def _mark(run, name):
    import time
    run.cov.setdefault('timeline', []).append((name, round(time.time() - run.t0, 1)))


def check(run):
    rng = random.Random(run.seed * 7919 + 16)
    thorough = run.tier == 'thorough'
    common.prove(run, 'C16', ['model/C16Stream.vo', 'model/C16Res.vo', 'model/C16Closure.vo', 'model/C16Py.vo',
                              'proofs/C16_gen_stream.vo', 'proofs/C16_gen_special.vo'])
    run.trusted += ['Coq 8.16.1 kernel (coqc); vm_compute for the cases.v evaluation',
                    'harness/pdfread.py (independent PDF reader, ISO 32000-1 Annex A operator table) and the judges of harness/p_c16.py (Python)',
                    'harness/impl_c16.py: decoding of Stream.stream items into model tokens; the call recorder (wraps the methods of weasyprint.pdf.stream.Stream in the worker process)',
                    'pydyf (not in the repository): its one-item-per-call emitters are exercised as `Tok k`; file syntax (header, xref, trailer) is monitored, not modelled']
    run.trusted += ['tools/py2coq.py (printer of the Stream methods into gen/GenStream.v; option obj_methods: super().m() as the oracle "super.m", '
                    'x.a.append / x.a.pop() / x.a[-1] = e on list attributes as rebinding of the attribute, bytes literals as the text of their repr, '
                    'pydyf.Dictionary({..}) as the oracle "pydyf.Dictionary") and base/Py.v; Matrix(..) and @ in Stream.transform are linked to gen/GenMatrix.v',
                    'model/C16Py.v pydyf_call: what pydyf.Stream.push_state / pop_state / begin_text / end_text / set_font_size / end_marked_content / '
                    'begin_marked_content / set_matrix append to self.stream (pydyf is not in the repository) and what Stream.get_marked_content_tag '
                    'answers (any str); methods are resolved by name',
                    'tools/py2coq.py option vararg_last (the vararg of Stream.set_color_special as its last parameter, the tuple of the extra arguments; '
                    'super().m(.., *operands) passes that tuple to the oracle) and proofs/C16_gen_special.v special_spec: what pydyf.Stream.set_color_special '
                    'appends (one item); set_color_space is pydyf\'s own (one item)']
    run.assumptions += ['an exception swallowed around drawing calls is either rolled back (SVGImage.draw: checkpoint/rollback, theorems C16_*_with_failed_drawings, exercised by the monitor) or raised by a call that opens no bracket (suppress(PointError) around one shape in svg draw_node); the AST pass lists these two places',
                        'content of fonts, images and attachments is judged by decodability only (font tables: C16 partial)',
                        'reference interpreter: fill/stroke colour, alpha constants, font, CTM, text matrix, q/Q stack; dash, line width, clip, blend mode and soft mask are not cached by Stream and therefore not part of skip soundness']

    _mark(run, '1')
    # ---- stream 1: direct calls on a real Stream vs the Coq model (all sequences: well bracketed or not)
    try:
        kept, masks = check_stream_direct(run, rng, 2400 if thorough else 480)
        mism = [(c, o) for (c, o), m in zip(kept, masks) if m & 1]
        run.oblige('corr:stream-direct(model = weasyprint.pdf.stream.Stream on %d call sequences)' % len(kept), not mism,
                   'first disagreements: %s' % json.dumps([{'case': c, 'impl': {k: v for k, v in o.items() if k != 'bytes'}} for c, o in mism[:2]])[:3000])
        for (c, o), m in zip(kept, masks):
            if m & 2:
                run.fail('well-bracketed calls gave unbalanced tokens on the real Stream', {'stream': 'stream-direct', 'case': c, 'impl': o}, signature='stream:unbalanced')
                break
        for (c, o), m in zip(kept, masks):
            if m & 4:
                run.fail('a skipped operator was not redundant on the real Stream (rendering of the emitted items differs from the un-optimised sequence)',
                         {'stream': 'stream-direct', 'case': c, 'bytes': o.get('bytes', '')[:2000]}, signature='stream:skip-unsound')
                break
        run.count('stream-direct', len(kept), [(tuple(map(tuple, [x[:2] for x in c['ops'][:6]])), len(c['ops']), c['mark']) for c, _ in kept],
                  samples=[{'case': kept[3][0], 'impl_bytes': kept[3][1].get('bytes', '')[:300]}])
        run.stream_info('stream-direct', raised=sum(1 for _, o in kept if 'raised' in o),
                        raw_gs_or_pattern=sum(1 for c, _ in kept if any(x[0] in ('state', 'pattern') for x in c['ops'])),
                        well_bracketed=sum(1 for c, _ in kept if _wb(c['ops'])),
                        peephole_qQ=sum(1 for c, _ in kept if _has_pair(c['ops'], 'push', 'pop')),
                        peephole_ETBT=sum(1 for c, _ in kept if _has_pair(c['ops'], 'et', 'bt')),
                        rule='random call sequences on a fresh Stream: 80% well bracketed (nested push/pop, begin/end_text, '
                             'begin/end_marked_content), biased to empty q..Q, ET-BT adjacency, few colours/alphas (cache hits), '
                             'raw gs/Pattern operators; all items, ctm stack, caches, ExtGState dictionary compared')
    except RuntimeError as exc:
        run.oblige('corr:stream-direct', False, str(exc))

    _mark(run, '1b')
    # ---- stream 1b: resource naming, direct calls on a root Stream and the streams it creates
    try:
        kept, masks = check_res_direct(run, rng, 1500 if thorough else 300)
        mism = [(c, o) for (c, o), m in zip(kept, masks) if m & 1]
        run.oblige('corr:res-direct(model = add_group/add_pattern/add_shading/add_image/set_state/set_alpha on %d call sequences)' % len(kept),
                   not mism, 'first disagreements: %s' % json.dumps(mism[:2])[:3000])
        for (c, o), m in zip(kept, masks):
            if m & 2:
                run.fail('a name emitted into a stream is not a key of its resource dictionary', {'stream': 'res-direct', 'case': c, 'impl': o},
                         signature='res:name-undefined')
                break
        run.oblige('model:finalise-succeeds-on-direct-cases', not any(m & 4 for m in masks), '')
        run.count('res-direct', len(kept), [(len(o['streams']), tuple(x[1] for x in o['calls'][:8])) for _, o in kept],
                  samples=[kept[5][1]['calls'][:12]] if len(kept) > 5 else [])
        run.stream_info('res-direct', streams=sum(len(o['streams']) for _, o in kept),
                        names_emitted=sum(len(s['names']) for _, o in kept for s in o['streams']),
                        rule='random forests: set_alpha/set_blend_mode/set_alpha_state/add_group/add_pattern/add_shading/'
                             'add_image/clone on any stream created so far, names drawn from the stream they were defined on '
                             '(90%) or arbitrary (10%); per stream: resource dictionary identity, the four key lists, emitted names')
    except RuntimeError as exc:
        run.oblige('corr:res-direct', False, str(exc))

    _mark(run, '2')
    # ---- stream 2: AST pass = premise of the bracket theorem for the real call sites
    problems, swallow, stats = ast_pass(common.REPO)
    for pr in problems[:3]:
        run.fail('AST: %s %s line %d: %s' % pr, {'stream': 'ast', 'problem': list(pr)}, signature='ast:%s:%s' % (pr[0], pr[1]))
    run.oblige('shape:draw-calls-bracketed', not problems and stats['open_calls'] + stats['with_stacked'] >= 20,
               'problems: %s ; stats: %s' % (problems[:5], stats))
    run.count('ast', stats['functions_checked'], [('fn', i) for i in range(stats['functions_checked'])])
    run.stream_info('ast', rule='abstract interpretation of every function of draw/, pdf/, svg/, document.py, images.py that calls '
                                'push_state/begin_text/begin_marked_content or their closers: all paths, receivers by identity, '
                                'correlated conditions', exception_swallowing_sites=[list(x) for x in swallow], **stats)

    _mark(run, '3')
    # ---- stream 3: known-defect witnesses (replayed; tell whether they still reproduce)
    wit_cases = [dict(c, keep_pdf=False) for _, (_, c) in sorted(WITNESSES.items())]
    wouts = common.run_impl('impl_c16', 'render_pdf', wit_cases, limit=60, chunksize=1)
    witness_state = {}
    wdocs = []
    for (name, (sig, case)), (st, o) in zip(sorted(WITNESSES.items()), wouts):
        reproduced = False
        data = {'stream': 'witness', 'name': name, 'html': case['html'], 'options': case['options']}
        if st == 'ok':
            if o['bad']:
                reproduced = True
                run.fail('witness %s: %s' % (name, o['bad'][0]), data, signature=sig or 'pdf:%s' % o['bad'][0][0])
            if sig is None:
                wdocs.append((case, o, name, sig))
        else:
            run.fail('witness %s: render failed: %s' % (name, o), data, signature='crash:%s' % (o and o.get('site'),))
        witness_state[name] = reproduced
    run.count('witness', len(wit_cases), [('w', n) for n in WITNESSES])
    run.stream_info('witness', rule='minimal documents of the findings of this property, all fixed: regression probes (the two F66 '
                    'documents do raise inside the SVG: the output must not show it)', reproduce=witness_state,
                    svg_exceptions_swallowed={n: bool(o and st == 'ok' and o.get('swallowed')) for (n, _), (st, o) in zip(sorted(WITNESSES.items()), wouts)})

    _mark(run, '4')
    # ---- stream 4: monitor over the document grammar x options
    ndocs = 1600 if thorough else 230
    cases = []
    for i in range(ndocs):
        opts, zoom = gen_options(rng)
        html, exp = gen_doc(rng, opts)
        cases.append({'html': html, 'options': opts, 'zoom': zoom, 'expect': exp, 'record': i % 3 == 0, 'twin': i % 4 == 1})
    outs = common.run_impl('impl_c16', 'render_pdf', cases, limit=90, chunksize=2)
    good = []
    agg = {'pages': 0, 'streams': 0, 'operators': 0, 'objects': 0, 'bytes': 0, 'twins': 0}
    optcov = set()
    for c, (st, o) in zip(cases, outs):
        v = classify_doc(run, c, st, o, 'monitor')
        if v is None:
            continue
        good.append((c, v))
        for k in ('pages', 'streams', 'operators', 'objects', 'bytes'):
            agg[k] += v['stats'][k]
        agg['twins'] += 1 if v['stats'].get('twin') else 0
        optcov.add((c['options'].get('pdf_variant'), bool(c['options'].get('uncompressed_pdf')), c['options'].get('pdf_version'),
                    bool(c['options'].get('pdf_forms')), c['zoom'], v['stats']['xref']))
    run.count('monitor', len(cases), [('doc', i) for i in range(len(good))], samples=[cases[0]['html'][:500], json.dumps(cases[0]['options'])])
    run.stream_info('monitor', rule='random documents (text, colours of every CSS colour space, backgrounds, gradients, border styles, '
                    'radius, opacity, transforms, raster and SVG images, links, bookmarks, forms, attachments, tables, lists, columns, '
                    'page margin boxes, bleed and marks) x options; every output parsed by harness/pdfread.py and judged: file '
                    'structure, references, page tree = rendered pages, MediaBox, content streams (balance, arity, operand types, '
                    'named resources in the dictionary in effect), compressed = uncompressed after decoding',
                    option_combinations=len(optcov), svg_drawings_that_raised=sum(len(v.get('swallowed') or []) for _, v in good), variants=sorted({str(c['options'].get('pdf_variant')) for c in cases}), **agg)

    _mark(run, '4b')
    # ---- stream 4b: documents about the closure of the /Font dictionaries
    nf = 500 if thorough else 70
    fcases = []
    for i in range(nf):
        opts, zoom = gen_options(rng)
        html, exp = gen_font_doc(rng, opts)
        fcases.append({'html': html, 'options': opts, 'zoom': zoom, 'expect': exp, 'record': False, 'twin': False})
    fouts = common.run_impl('impl_c16', 'render_pdf', fcases, limit=90, chunksize=2)
    fgood = []
    for c, (st, o) in zip(fcases, fouts):
        v = classify_doc(run, c, st, o, 'fonts')
        if v is not None:
            fgood.append((c, v))
    run.count('fonts', len(fcases), [('kinds', tuple(sorted(c['expect']['kinds'])), c['options'].get('pdf_variant'), bool(c['options'].get('pdf_forms')))
                                      for c, _ in fgood], samples=[fcases[0]['html'][:600]])
    run.stream_info('fonts', rule='small documents where a font is used only by a run without visible glyph (ZWSP, ZWJ, SHY, LRM, BOM, '
                    'WJ, private use), by white space in <pre>, in ::before/::after/::marker content (empty or not), in a page margin '
                    'box, inside an SVG image or an SVG background pattern, inside a form field, inside an opacity group, for one '
                    'glyph, with letter/word spacing, hidden or at font-size 0; x all options; judged like the monitor documents',
                    fonts_defined=sum(sum(1 for n in v['closure']['nodes'] for u in n['defs'] if u[0] == 0) for _, v in fgood),
                    tf_uses=sum(sum(1 for n in v['closure']['nodes'] for u in n['uses'] if u[0] == 0) for _, v in fgood))

    _mark(run, '4c')
    # ---- stream 4c: resource closure of every parsed output judged in Coq (closure_judge)
    try:
        nclo, nuses = judge_closure(run, good + fgood, 'c16clo', 'closure')
        run.count('closure', nclo, [('doc', i) for i in range(nclo)])
        run.stream_info('closure', names_used=nuses, rule='per content stream (pages, form XObjects, tiling patterns, soft-mask groups, '
                        'annotation appearances, Type3 glyph procedures): names used by Tf/Do/gs/sh/cs/scn/BDC vs names defined by '
                        'the resource dictionary in effect, and references vs objects of the file; closure_judge under vm_compute')
    except RuntimeError as exc:
        run.oblige('spec:closure-eval', False, str(exc))

    _mark(run, '5')
    # ---- stream 5: recorded Stream calls of those renders: model = implementation, premises and conclusions
    try:
        docs = [(c, v) for c, v in good if v.get('traces')] + [(c, o) for c, o, _, _ in wdocs]
        items, masks, skipped = judge_traces(run, docs, 'c16tr')
        mism = [(docs[ci][0], tr) for (ci, tr), m in zip(items, masks) if m & 1]
        run.oblige('corr:stream-traces(model = Stream on the %d call sequences the draw code made)' % len(items), not mism,
                   'first disagreement: %s' % json.dumps([{'html': c['html'][:1500], 'options': c['options'], 'trace': {k: v for k, v in tr.items()}} for c, tr in mism[:1]])[:6000])
        contradicted = [(docs[ci][0], tr) for (ci, tr), m in zip(items, masks) if m & (2 | 4)]
        run.oblige('thm-vs-traces(no real trace contradicts the theorems)', not contradicted, json.dumps([tr for _, tr in contradicted[:1]])[:3000])
        for (ci, tr), m in zip(items, masks):
            if m & 4:
                c = docs[ci][0]
                run.fail('on this document a skipped operator was not redundant: the items of stream #%d render differently from the un-optimised sequence' % tr['index'],
                         {'stream': 'traces', 'html': c['html'], 'options': c.get('options'), 'zoom': c.get('zoom', 1), 'trace_index': tr['index']},
                         signature='stream:skip-unsound')
                break
        nwb = ntm = 0
        for (ci, tr), m in zip(items, masks):
            case, o = docs[ci]
            data = {'stream': 'traces', 'html': case['html'], 'options': case.get('options'), 'zoom': case.get('zoom', 1), 'trace_index': tr['index']}
            nwb += 0 if m & 16 else 1
            ntm += 0 if m & 32 else 1
            if m & 128:
                run.fail('merging ET BT changed where text is shown (text matrix not set again)', data, signature='stream:merge-unsound')
            if m & 16:
                run.fail('the draw code made a call sequence that is not well bracketed on stream #%d of the document' % tr['index'],
                         dict(data, ops=tr['ops'][:300]), signature='calls-not-well-bracketed')
            if m & 64:
                run.oblige('traces:initial-ExtGState-well-formed', False, json.dumps(tr['keys0']))
        run.count('stream-traces', len(items), [('trace', len(tr['ops']), tuple(o[0] for o in tr['ops'][:8])) for _, tr in items],
                  samples=[{'ops': items[0][1]['ops'][:25]}] if items else [])
        run.stream_info('stream-traces', ops=sum(len(tr['ops']) for _, tr in items), with_rollback=sum(1 for _, tr in items if tr.get('rollbacks')), well_bracketed=nwb, tm_disciplined=ntm,
                        not_modelled=skipped, rule='every Stream object of every third monitored document (pages, opacity groups, '
                        'patterns, masks, form fields): API calls recorded in the worker, replayed in the Coq model, compared with '
                        'Stream.stream; wb/guarded/tm_disciplined premises and same_rendering evaluated on them')
    except RuntimeError as exc:
        run.oblige('corr:stream-traces', False, str(exc))

    _mark(run, '6')
    # ---- stream 6: bracket skeleton of every decoded content stream judged by the Coq specification
    try:
        sk = [(ci, s) for ci, (c, v) in enumerate(good) for s in v['skeletons'] if len(s) <= 6000]
        uniq = {}
        for ci, s in sk:
            uniq.setdefault(tuple(s), ci)
        keys = list(uniq)
        masks = common.eval_cases('c16sk', PRE, 'list nat', [clist('%d%%nat' % x for x in s) for s in keys], 'skeleton_judge', per_file=250) if keys else []
        for s, m in zip(keys, masks):
            c, v = good[uniq[s]]
            if m:
                run.fail('content stream skeleton rejected by the Coq specification (mask %d)' % m,
                         {'stream': 'skeleton', 'html': c['html'], 'options': c['options'], 'zoom': c['zoom'], 'skeleton': list(s)[:400]}, signature='pdf:balance(coq)')
        run.count('skeleton', len(sk), [('sk', hash(s)) for s in keys])
        run.stream_info('skeleton', distinct=len(keys), rule='q/Q/BT/ET/BMC|BDC/EMC/cm/text-operator skeleton of every content stream '
                        'of the monitored PDFs judged by dyck_q, dyck_text, dyck_mc and nested (vm_compute)')
    except RuntimeError as exc:
        run.oblige('spec:skeleton-eval', False, str(exc))


def _wb(ops):
    stack = []
    for o in ops:
        k = o[0]
        intext = bool(stack) and stack[-1] == 't'
        if k in ('push', 'bt', 'bmc', 'cm') and intext:
            return False
        if k == 'tm' and not intext:
            return False
        if k in ('push', 'bt', 'bmc'):
            stack.append({'push': 'q', 'bt': 't', 'bmc': 'm'}[k])
        elif k in ('pop', 'et', 'emc'):
            if not stack or stack[-1] != {'pop': 'q', 'et': 't', 'emc': 'm'}[k]:
                return False
            stack.pop()
    return not stack


def _has_pair(ops, a, b):
    return any(x[0] == a and y[0] == b for x, y in zip(ops, ops[1:]))


def replay(data):
    d = data.get('data', {})
    stream = d.get('stream')
    if stream in ('monitor', 'witness', 'traces', 'skeleton', 'fonts', 'closure'):
        case = {'html': d['html'], 'options': d.get('options') or {}, 'zoom': d.get('zoom', 1), 'expect': d.get('expect'),
                'record': True, 'twin': True}
        (st, o), = common.run_impl('impl_c16', 'render_pdf', [case], limit=120)
        if st != 'ok':
            print('replay: render %s: %s' % (st, o))
            return 1
        print('replay: bad =', o['bad'][:5], 'swallowed =', o.get('swallowed'))
        rc = 1 if o['bad'] else 0
        items = [(0, tr) for tr in o.get('traces') or [] if not [f for f in tr['flags'] if f in UNMODELLED or f.startswith(('unmodelled', 'raised'))]]
        if items:
            masks = common.eval_cases('c16replay', PRE, TRACE_T, [ctrace(tr) for _, tr in items], 'trace_judge', per_file=60)
            print('replay: trace masks', masks)
            rc = rc or (1 if any(m & (1 | 2 | 4 | 8 | 16 | 128) for m in masks) else 0)
        if o.get('closure'):
            cm = common.eval_cases('c16replay', PRE_CLO, 'list node * (list Z * list Z)', [cclosure(o['closure'])], 'closure_judge')
            print('replay: closure_judge mask', cm)
            rc = rc or (1 if cm[0] else 0)
        return rc
    if stream == 'stream-direct':
        (st, o), = common.run_impl('impl_c16', 'stream_direct', [d['case']])
        m = common.eval_cases('c16replay', PRE, CASE_T, [ccase(d['case'], o)], 'stream_judge')
        print('replay: impl', {k: v for k, v in (o or {}).items() if k != 'bytes'}, 'mask', m)
        return 1 if m[0] else 0
    if stream == 'res-direct':
        (st, o), = common.run_impl('impl_c16', 'res_direct', [d['case']])
        m = common.eval_cases('c16replay', PRE_RES, 'list call * list implstr',
                              ['(%s, %s)' % (clist(ccall(x) for x in o['calls']), clist(cimplstr(x) for x in o['streams']))], 'res_judge')
        print('replay: impl', o, 'mask', m)
        return 1 if m[0] else 0
    if stream == 'ast':
        problems, _, _ = ast_pass(common.REPO)
        print('replay: AST problems', problems)
        return 1 if problems else 0
    print('nothing to replay for', stream)
    return 0


# ============================================================== resource naming: direct calls on a forest of streams
PRE_RES = ('From Coq Require Import ZArith List Bool.\nRequire Import WV.model.C16Stream WV.model.C16Res.\n'
           'Import ListNotations.\nOpen Scope Z_scope.\n')


def gen_res_ops(rng, n):
    ops, nstreams = [], 1
    for _ in range(n):
        sid = rng.randrange(nstreams) if rng.random() < 0.9 else nstreams + 1
        r = rng.random()
        if r < 0.12:
            ops.append([sid, 'alpha', rng.randrange(len(I.ALPHAS)), rng.random() < 0.4])
        elif r < 0.2:
            ops.append([sid, 'state'])
        elif r < 0.28:
            ops.append([sid, 'alphastate']); nstreams += sid < nstreams
        elif r < 0.4:
            ops.append([sid, 'group']); nstreams += sid < nstreams
        elif r < 0.48:
            ops.append([sid, 'pattern']); nstreams += sid < nstreams
        elif r < 0.56:
            ops.append([sid, 'shading'])
        elif r < 0.66:
            ops.append([sid, 'image', rng.choice([1, 7, 11, 110]), rng.random() < 0.5])
        elif r < 0.7:
            ops.append([sid, 'clone']); nstreams += sid < nstreams
        elif r < 0.92:
            ops.append([sid, rng.choice(['draw', 'draw', 'shade', 'patcolor']), rng.randrange(8)])
        else:
            kind = rng.choice(['draw', 'shade', 'patcolor'])
            ops.append([sid, 'raw', kind, {'draw': rng.choice(['x0', 'x5', 'i71', 'i10']), 'shade': rng.choice(['s0', 's3']),
                                           'patcolor': rng.choice(['p0', 'p2'])}[kind]])
    return ops


def rname(kw, name):
    if kw == 'gs':
        return '(NGs %s)' % ckey(name)
    if name[0] == 'x' and kw in ('Do', 'draw'):
        return '(NX %s)' % zlit(int(name[1:]))
    if name[0] == 'i':
        return '(NI %s %s)' % (zlit(int(name[1:-1])), cb(name[-1] == '1'))
    if name[0] == 'p':
        return '(NP %s)' % zlit(int(name[1:]))
    if name[0] == 's':
        return '(NSh %s)' % zlit(int(name[1:]))
    raise ValueError((kw, name))


def ccall(c):
    sid, kind = c[0], c[1]
    body = {'state': 'RSetState', 'alphastate': 'RAlphaState', 'group': 'RAddGroup', 'pattern': 'RAddPattern',
            'shading': 'RAddShading', 'clone': 'RClone'}.get(kind)
    if kind == 'alpha':
        body = '(RSetAlpha %s %s %s)' % (zlit(c[2]), cb(c[3]), cb(c[4]))
    elif kind == 'image':
        body = '(RAddImage %s %s)' % (zlit(c[2]), cb(c[3]))
    elif kind == 'draw':
        body = '(RDraw %s)' % rname('draw', c[2])
    elif kind == 'shade':
        body = '(RShade %s)' % rname('sh', c[2])
    elif kind == 'patcolor':
        body = '(RPatColor %s)' % rname('scn', c[2])
    return '(%d%%nat, %s)' % (sid, body)


def cimplstr(o):
    return '(%d%%nat, %s, (%s, %s, %s, %s))' % (
        o['rid'], clist(rname(k, n) for k, n in o['names']), clist(ckey(k) for k in o['gs']),
        clist(rname('draw', k) for k in o['xo']), clist(zlit(int(k[1:])) for k in o['pat']), clist(zlit(int(k[1:])) for k in o['sh']))


def check_res_direct(run, rng, n):
    cases = [{'ops': gen_res_ops(rng, rng.choice([2, 5, 10, 20, 40]))} for _ in range(n)]
    outs = common.run_impl('impl_c16', 'res_direct', cases, chunksize=16)
    coq, kept = [], []
    for c, (st, o) in zip(cases, outs):
        if st != 'ok':
            run.oblige('corr:res-direct:impl-call', False, 'case %s: %s' % (json.dumps(c)[:300], o))
            continue
        coq.append('(%s, %s)' % (clist(ccall(x) for x in o['calls']), clist(cimplstr(x) for x in o['streams'])))
        kept.append((c, o))
    masks = common.eval_cases('c16res', PRE_RES, 'list call * list implstr', coq, 'res_judge', per_file=100)
    return kept, masks
