"""Implementation-side functions for C06 (run in worker processes; weasyprint imported from REPO)."""
from fractions import Fraction


# ------------------------------------------------------------------------------------------- direct calls

def prec(case):
    """case: (origin string, importance) -> precedence (AssertionError propagates as 'exc')."""
    from weasyprint.css import declaration_precedence
    return declaration_precedence(case[0], case[1])


def media(case):
    from weasyprint.css.media_queries import evaluate_media_query
    return bool(evaluate_media_query(list(case[0]), case[1]))


class _Always(dict):
    def __init__(self, value):
        super().__init__()
        self.value = value

    def __contains__(self, key):
        return True

    def __getitem__(self, key):
        return self.value


class _Stub(dict):
    """What the computer functions read from a ComputedStyle."""
    def __init__(self, case):
        super().__init__()
        if case.get('own_fs') is not None:
            self['font_size'] = Fraction(case['own_fs'])
        self.root_style = {'font_size': Fraction(case.get('root_fs', 16))}
        if case.get('parent_fs') is None and case.get('parent_fw') is None:
            self.parent_style = None
        else:
            self.parent_style = {}
            if case.get('parent_fs') is not None:
                self.parent_style['font_size'] = Fraction(case['parent_fs'])
            if case.get('parent_fw') is not None:
                self.parent_style['font_weight'] = case['parent_fw']
        self.cache = {'ratio_ex': _Always(Fraction(case.get('exr', '1/2'))),
                      'ratio_ch': _Always(Fraction(case.get('chr', '1/2')))}
        self.pseudo_type = None
        self.element = None
        self.is_root_element = bool(case['is_root']) if 'is_root' in case else self.parent_style is None

    def __missing__(self, key):
        return None


def _num(x):
    return str(Fraction(x))


def _dim(case):
    from weasyprint.css.properties import Dimension
    v = case['value']
    if isinstance(v, str):
        return v
    return Dimension(Fraction(v[0]), v[1])


def _lenres(r, value):
    if isinstance(r, str):
        return 'same'
    if hasattr(r, 'unit'):
        if r.unit != 'px':
            return 'same' if r == value else 'dim:%s:%s' % (_num(r.value), r.unit)
        return _num(r.value)
    return _num(r)


def length(case):
    """case: own_fs, root_fs, exr, chr, fs (None|str), value ('auto' | [num, unit]), pixels_only, name"""
    from weasyprint.css import computed_values
    style = _Stub(case)
    value = _dim(case)
    kw = {}
    if case.get('fs') is not None:
        kw['font_size'] = Fraction(case['fs'])
    r = computed_values.length(style, case.get('name', 'margin_left'), value,
                               pixels_only=bool(case.get('pixels_only')), **kw)
    return _lenres(r, value)


def font_size(case):
    """case: parent_fs (None = root element), root_fs, exr, chr, value (keyword | [num, unit])"""
    from weasyprint.css import computed_values
    style = _Stub(case)
    r = computed_values.font_size(style, 'font_size', _dim(case))
    return _num(r)


def font_weight(case):
    """case: parent_fw (None = root), value (keyword | int)"""
    from weasyprint.css import computed_values
    style = _Stub(case)
    return computed_values.font_weight(style, 'font_weight', case['value'])


def line_height(case):
    """case: own_fs, root_fs, value ('normal' | [num, None] | [num, '%'] | [num, unit])"""
    from weasyprint.css import computed_values
    from weasyprint.css.properties import Dimension
    style = _Stub(case)
    v = case['value']
    value = v if isinstance(v, str) else Dimension(Fraction(v[0]), v[1])
    r = computed_values.line_height(style, 'line_height', value)
    if r == 'normal':
        return ['normal']
    return [r[0], _num(r[1])]


def computer(case):
    """gap / word_spacing / border_width / border_radius on a stub style.  case: fn, name, own_fs, root_fs,
    is_root, value ('normal' | 'thin'.. | int | [num, unit]; for border_radius a list of [num, unit]),
    border_style (border_width: the entry name.replace('width', 'style') of the style)"""
    from weasyprint.css import computed_values
    from weasyprint.css.properties import Dimension
    style = _Stub(case)
    if case.get('border_style') is not None:
        style[case['name'].replace('width', 'style')] = case['border_style']

    def val(v):
        return Dimension(Fraction(v[0]), v[1]) if isinstance(v, list) else v

    def out(r):
        if isinstance(r, str):
            return r
        if hasattr(r, 'unit'):
            return [_num(r.value), r.unit]
        return _num(r)
    fn = getattr(computed_values, case['fn'])
    if case['fn'] == 'border_radius':
        return [out(r) for r in fn(style, case['name'], tuple(val(v) for v in case['value']))]
    return out(fn(style, case['name'], val(case['value'])))


def direct(case):
    """dispatcher: (function name, case)"""
    return globals()[case[0]](case[1])


# --------------------------------------------------------------------------------------------- full renders

def _norm(v):
    """JSON-able form of a computed value."""
    if v is None or isinstance(v, (str, int, bool)):
        return v
    if isinstance(v, float):
        return v
    if hasattr(v, 'unit') and hasattr(v, 'value'):
        return ['dim', v.value, v.unit]
    if hasattr(v, 'to'):          # tinycss2 color
        try:
            c = v.to('srgb')
            return ['rgba', [round(x * 255, 6) for x in c.coordinates], c.alpha]
        except Exception:
            return ['color', str(v)]
    if isinstance(v, (tuple, list)):
        return [_norm(x) for x in v]
    return repr(v)


def _make_html(case):
    from weasyprint import CSS
    from tests.testing_utils import FakeHTML, TEST_UA_FONT_CONFIG
    files = case.get('files', {})
    fetched = []

    def fetch(url):
        fetched.append(url)
        if url in files:
            return {'string': files[url].encode('utf-8'), 'mime_type': 'text/css', 'encoding': 'utf-8',
                    'redirected_url': url}
        raise ValueError('no such resource: %s' % url)

    media_type = case.get('media', 'print')
    ua_css = case['ua_css']

    class H(FakeHTML):
        def _ua_stylesheets(self, forms=False):
            return [CSS(string=ua_css, font_config=TEST_UA_FONT_CONFIG, media_type=media_type,
                        base_url='http://mem/', url_fetcher=fetch)]

    html = H(string=case['html'], base_url='http://mem/doc.html', url_fetcher=fetch, media_type=media_type)
    user = [CSS(string=s, base_url='http://mem/', url_fetcher=fetch, media_type=media_type,
                font_config=TEST_UA_FONT_CONFIG) for s in case.get('user_css', [])]
    return html, user, fetched


def _walk(box):
    yield box
    for c in getattr(box, 'children', ()) or ():
        yield from _walk(c)
    inner = getattr(box, '_box', None)
    if inner is not None:
        yield from _walk(inner)


def render_styles(case):
    """case: html, ua_css, user_css [str], files {url: css}, media, hints (bool), keys [style keys], attr ('data-n')
    -> {'direct': {"n|pseudo": [values]}, 'boxes': {"n|pseudo": [values]}, 'fetched': [...]}
    direct = the style_for of the layout context the renderer builds; boxes = box.style of the rendered boxes."""
    from weasyprint import DEFAULT_OPTIONS
    from weasyprint.document import Document
    from weasyprint.css.counters import CounterStyle
    from tests.testing_utils import TEST_UA_FONT_CONFIG
    keys = case['keys']
    attr = case.get('attr', 'data-n')
    out = {'direct': {}, 'boxes': {}}
    # 1. the renderer's own glue up to the style function
    html, user, fetched = _make_html(case)
    if not case.get('direct', True):
        html = None
    options = dict(DEFAULT_OPTIONS)
    options['stylesheets'] = user
    options['presentational_hints'] = bool(case.get('hints'))
    context = html and Document._build_layout_context(html, TEST_UA_FONT_CONFIG, CounterStyle(), options)
    for el in (html.etree_element.iter() if html else ()):
        n = el.get(attr)
        if n is None:
            continue
        for pseudo in (None, 'before'):
            st = context.style_for(el, pseudo)
            if st is None:
                continue
            out['direct']['%s|%s' % (n, pseudo or '')] = [_norm(st[k]) for k in keys]
    out['fetched'] = list(fetched)
    # 2. the full render; styles carried by the boxes
    if case.get('render', True):
        html, user, fetched2 = _make_html(case)
        doc = html.render(stylesheets=user, presentational_hints=bool(case.get('hints')))
        for page in doc.pages:
            for box in _walk(page._page_box):
                el = getattr(box, 'element', None)
                tag = getattr(box, 'element_tag', None)
                if el is None or tag is None or not isinstance(el.tag, str):
                    continue
                n = el.get(attr)
                if n is None:
                    continue
                if tag == el.tag:
                    pseudo = ''
                elif tag == el.tag + '::before':
                    pseudo = 'before'
                else:
                    continue
                key = '%s|%s' % (n, pseudo)
                if key in out['boxes']:
                    continue
                if type(box).__name__ in ('TextBox', 'LineBox'):
                    continue
                out['boxes'][key] = [_norm(box.style[k]) for k in keys]
        if case.get('page_keys'):
            out['pages'] = []
            for page in doc.pages:
                out['pages'].append([_norm(page._page_box.style[k]) for k in case['page_keys']])
    return out
