"""C07 - Declarations: invalid ones vanish, shorthands equal longhands, units agree, var() is substitution."""
import random, json, os, glob, itertools, re
from fractions import Fraction
import common
from common import zlit

HDR = ('From Coq Require Import ZArith QArith List Bool String.\nImport ListNotations.\n'
       'Require Import WV.model.C07Tok WV.model.C07Decl WV.model.C07Expand WV.model.C07Full '
       'WV.model.C07Var WV.model.C07Units.\nOpen Scope string_scope.\nOpen Scope Z_scope.\n')


class Interner:
    """string literals are costly for coqc (10 nodes per character): each distinct string is defined once in the
    preamble of the cases files and referred to by name"""
    def __init__(self):
        self.ids = {}

    def __call__(self, text):
        if text not in self.ids:
            self.ids[text] = 'str%d' % len(self.ids)
        return self.ids[text]

    def reset(self):
        self.ids = {}

    def preamble(self):
        return ''.join('Definition %s := %s.\n' % (v, common.slit(k)) for k, v in self.ids.items())


IN = Interner()


def slit(text):
    return IN(text)


def blit(b):
    return 'true' if b else 'false'


def nlit(n):
    return '%d%%nat' % n


def qmk(fr):
    fr = Fraction(fr)
    return '(Qmake (%d) %d)' % (fr.numerator, fr.denominator)


def strs(l):
    return '[%s]' % '; '.join(common.slit(s) for s in l)


def tok_coq(j):
    k = j[0]
    if k == 'I':
        return '(TIdent %s %s)' % (slit(j[1]), slit(j[2]))
    if k == 'L':
        return '(TLit %s)' % slit(j[1])
    if k == 'W':
        return 'TWs'
    if k == 'C':
        return 'TComment'
    if k == 'N':
        return '(TNum %s %s)' % (qmk(j[1]), 'None' if j[2] is None else '(Some (%d))' % j[2])
    if k == 'A':
        return '(TAtom %d)' % j[1]
    if k == 'F':
        return '(TFunc %s %s %s)' % (slit(j[1]), slit(j[2]), toks_coq(j[3]))
    if k == 'B':
        return '(TBlock %d %s)' % (j[1], toks_coq(j[2]))
    raise ValueError(j)


def toks_coq(l):
    return '[%s]' % '; '.join(tok_coq(t) for t in l)


def crash_sig(site, exc=None):
    """the signature of a crash: 'crash:<exception>:<file>:<function>' from common's (type, path, function) or
    impl_c07's text"""
    if isinstance(site, (list, tuple)) and len(site) == 3:
        text = '%s:%s:%s' % (site[0], os.path.basename(site[1]), site[2])
    else:
        text = str(site)
    tb = (exc or {}).get('tb', '') if isinstance(exc, dict) else ''
    msg = (exc or {}).get('msg', '') if isinstance(exc, dict) else ''
    # the two selector crashes are the ones that come out of tinycss2's an+b parser, nothing else
    if text == 'AttributeError:__init__.py:preprocess_declarations' and exc is not None and 'nth.py' not in tb:
        return 'crash:' + text + ':not-nth'
    if text == 'RuntimeError:__init__.py:preprocess_stylesheet' and exc is not None and 'StopIteration' not in msg:
        return 'crash:' + text + ':not-nth'
    return 'crash:' + text


def fail(run, what, data, signature=None):
    return run.fail(what, data, signature)


def corpus(stream):
    out = []
    for p in sorted(glob.glob(os.path.join(common.VERIF, 'corpus', 'C07', '*.json'))):
        d = json.load(open(p))
        if d.get('stream') == stream:
            out.append(d['case'])
    return out


def run_multi(cases, limit=30):
    """several streams share one worker pool: cases are dict(fn=..., **args)"""
    return common.run_impl('impl_c07', 'multi', cases, limit=limit)


# ================================================================================ token library

ABS_UNITS = ['px', 'pt', 'pc', 'in', 'cm', 'mm', 'q']
FONT_UNITS = ['em', 'ex', 'ch', 'rem']
OTHER_UNITS = ['%', 'deg', 'rad', 'grad', 'turn', 'dpi', 'dpcm', 'dppx', 's', 'ms', 'fr', 'vw', 'vh', 'vmin',
               'hz', 'x', 'foo', 'PX', 'Cm', 'Q', 'IN', 'Em', 'e1', 'n']
ALL_UNITS = ABS_UNITS + FONT_UNITS + OTHER_UNITS
NUMBERS = ['0', '1', '2', '3', '4', '-1', '0.5', '1.5', '10', '100', '1000', '+2', '-0', '.5', '1e2', '1e-1', '007',
           '65536', '-0.5', '1.0', '2.0', '0.0', '-2', '12', '400', '700', '99999999999', '1e40']
KEYWORDS = ['auto', 'none', 'normal', 'inherit', 'initial', 'unset', 'revert', 'red', 'blue', 'transparent',
            'currentColor', 'solid', 'dotted', 'bold', 'italic', 'thin', 'medium', 'thick', 'left', 'right', 'top',
            'bottom', 'center', 'block', 'inline', 'flex', 'grid', 'table', 'hidden', 'visible', 'always', 'avoid',
            'page', 'column', 'row', 'wrap', 'nowrap', 'content', 'fill', 'stretch', 'repeat', 'round', 'space',
            'serif', 'weasyprint', 'small-caps', 'condensed', 'underline', 'wavy', 'dense', 'span', 'foo', 'A4',
            'landscape', 'both', 'fixed', 'scroll', 'cover', 'contain', 'border-box', 'padding-box', 'content-box',
            'disc', 'decimal', 'inside', 'outside', 'from-font', 'min-content', 'max-content', 'fit-content',
            'RED', 'Auto', 'NONE', 'justify', 'start', 'end', 'baseline', 'sub', 'super', 'all', 'balance',
            'break-word', 'anywhere', 'pre', 'pre-wrap', 'uppercase', 'ltr', 'rtl', 'absolute', 'relative',
            'static', 'running', 'crop', 'cross', 'to', 'at', 'and', 'only', 'not']
FUNCTIONS = ['rgb(1, 2, 3)', 'rgba(1, 2, 3, 0.5)', 'rgb(10% 20% 30% / 50%)', 'hsl(120, 50%, 50%)', 'hwb(1 2% 3%)',
             'lab(50% 1 2)', 'color(srgb 1 0 0)', 'url(a.png)', 'url("b.png")', 'url()', 'attr(title)',
             'attr(data-x px)', 'attr(x string, "d")', 'counter(c)', 'counter(c, upper-roman)', 'counters(c, ".")',
             'counters(c, ".", decimal)', 'linear-gradient(red, blue)', 'linear-gradient(to left, red 10%, blue)',
             'radial-gradient(circle at top, red, blue)', 'repeating-linear-gradient(45deg, red, blue 10px)',
             'calc(1px + 2px)', 'calc(100% - 10px)', 'min(1px, 2px)', 'max(1px)', 'clamp(1px, 2px, 3px)',
             'var(--x)', 'var(--x, 1px)', 'var(--y,)', 'var(x)', 'var()', 'VAR(--x)', 'translate(1px, 2px)',
             'rotate(45deg)', 'scale(2)', 'matrix(1, 0, 0, 1, 0, 0)', 'skew(1deg)', 'local(x)', 'format("woff")',
             'repeat(2, 1fr)', 'repeat(auto-fill, 10px)', 'minmax(10px, 1fr)', 'fit-content(10px)',
             'element(x)', 'string(x)', 'string(x, first)', 'content(text)', 'target-counter(attr(href), page)',
             'target-text(attr(href))', 'leader(dotted)', 'leader(".")', 'env(x)', 'symbols(cyclic "a" "b")',
             'image-set("a.png" 1x)', 'cubic-bezier(0, 0, 1, 1)', 'rect(1px, 2px, 3px, 4px)', 'foo(bar)',
             'foo(,)', 'foo(a,,b)', 'rgb()', 'rgb(1,2)', 'rgb(a b c)', 'url(data:image/png;base64,AAAA)',
             'running(x)', 'target-counters(attr(href), c, ".")', 'cross-fade(url(a), url(b))',
             'drop-shadow(1px 1px red)', 'blur(1px)', 'footnote-call', 'translateX(5px)', 'perspective(10px)',
             'rgb(var(--x), 2, 3)', 'calc(var(--x) + 1px)', 'linear-gradient(var(--x), blue)',
             'calc(var(--x) + max(1px, 2px))', 'var(--x, var(--y))', 'var(--x, var(--y, 2px))']
STRINGS = ['"a"', "'b'", '""', '"a b"', '"\\""', "'\\27 '", '"\\a "', '"\\0041"', '"é"', '" "']
HASHES = ['#fff', '#ffffff', '#12', '#abcd', '#xyz', '#11223344', '#', '#-', '#1']
BLOCKS = ['[a]', '[a b]', '[]', '(1px)', '(a, b)', '{x}', '{x:y}', '[ [a] ]', '((1))']
LITERALS = [',', '/', '+', '*', '~', '>', '<', '=', '|', '&', '@', '%', '.', ':', '!', '$', '^', '?', '-', '--',
            '||', '<!--', '-->', '\\', '\\26 ', 'U+26', 'u+0-7F', '@foo', '/* c */', '/**/']
BAD_NESTING = ['rgb(1, 2', '[', '(', '{', '"unterminated', "'un", 'url(unterminated', 'url(a b)', ')', ']', '}',
               'foo(bar(', '[(])', '({)}', 'url("a" b)', '"a\nb"', 'rgb(1,2,3))', '\\', 'a\\', '{;}', '(;)']
IMPORTANTS = ['!important', '! important', '!IMPORTANT', '!important!important', '!important foo', '! /**/ important',
              '!importan', '!', 'important', '!important;', '!  important  ']


def dim_tokens(values=('0', '1', '-1', '1.5', '10', '100')):
    return [v + u for v in values for u in ALL_UNITS]


def generic_candidates():
    return (NUMBERS + dim_tokens() + KEYWORDS + FUNCTIONS + STRINGS + HASHES + BLOCKS +
            ['1px 2px', '1px 2px 3px', '1px 2px 3px 4px', 'auto auto', '1 2', '1 / 2', 'a, b', '1px, 2px', 'a b c',
             '10px solid red', 'red solid 10px', '1 1 0', '2 100px', 'left top', '50% 50%', 'top 10px left 20px',
             'italic bold 10px/12px serif', '10px serif', 'url(a.png) no-repeat red', 'none none', 'a 1 b 2',
             '"a" "b"', '"a" counter(c) "b"', 'a 1', 'a', 'span 2', '1 / span 2', 'auto / auto',
             'repeat(2, 1fr) / auto', '[a] 1fr [b]', '"a b" "c d"', 'A4 landscape', '10cm 20cm',
             'underline red', 'underline overline', 'row wrap', 'wrap-reverse column', 'inside disc', 'square outside',
             '2 "..."', 'x 1 y', 'red, blue', '1px 1px red', '1px 1px 2px 3px red inset'])


def soup_token(rng):
    r = rng.random()
    if r < 0.14:
        return rng.choice(NUMBERS)
    if r < 0.36:
        return rng.choice(NUMBERS) + rng.choice(ALL_UNITS)
    if r < 0.56:
        return rng.choice(KEYWORDS)
    if r < 0.70:
        return rng.choice(FUNCTIONS)
    if r < 0.75:
        return rng.choice(STRINGS)
    if r < 0.79:
        return rng.choice(HASHES)
    if r < 0.84:
        return rng.choice(BLOCKS)
    if r < 0.93:
        return rng.choice(LITERALS)
    if r < 0.97:
        return rng.choice(BAD_NESTING)
    return rng.choice(IMPORTANTS)


def soup_value(rng):
    n = rng.choice([0, 1, 1, 1, 2, 2, 3, 4, 5, 8])
    parts = [soup_token(rng) for _ in range(n)]
    sep = rng.choice([' ', ' ', ' ', '', ', ', ' / ', '  ', '\t', '/**/'])
    return sep.join(parts)


class Grammar:
    """per property / shorthand: the values the implementation accepts among the candidates (generic single tokens,
    the idents quoted in its validator's source, the strings of the validation tests)"""
    def __init__(self, reg, pools):
        self.reg = reg
        self.names = reg['properties'] + reg['expanders']
        self.pools = pools                       # name -> [accepted value text]
        self.nonempty = [n for n in self.names if pools.get(n)]

    def own(self, rng, name):
        pool = self.pools.get(name) or []
        if not pool:
            return soup_value(rng)
        r = rng.random()
        v = rng.choice(pool)
        if r < 0.60:
            return v
        if r < 0.80:
            return self.mutate(rng, name, v)
        sep = rng.choice([' ', ' ', ', ', ' / '])
        return sep.join(rng.choice(pool) for _ in range(rng.choice([2, 2, 3, 4, 5])))

    def mutate(self, rng, name, v):
        parts = v.split(' ')
        pool = self.pools[name]
        op = rng.randrange(9)
        i = rng.randrange(len(parts))
        if op == 0:
            parts[i] = rng.choice(pool).split(' ')[0]
        elif op == 1:
            parts.insert(i, parts[i])
        elif op == 2 and len(parts) > 1:
            del parts[i]
        elif op == 3:
            rng.shuffle(parts)
        elif op == 4:
            parts[i] = re.sub(r'(px|pt|pc|in|cm|mm|q|em|ex|ch|rem|%)$', lambda m: rng.choice(ALL_UNITS), parts[i])
        elif op == 5:
            parts[i] = parts[i].upper() if rng.random() < 0.5 else parts[i].capitalize()
        elif op == 6:
            parts.append(soup_token(rng))
        elif op == 7:
            parts[i] = re.sub(r'\d+', lambda m: rng.choice(['0', '-1', '1e3', '0.5', '99999']), parts[i], count=1)
        else:
            parts[i] = 'var(--x)' if rng.random() < 0.7 else 'calc(var(--x) * 2)'
        return ' '.join(parts)

    def cross(self, rng, name):
        other = rng.choice(self.nonempty)
        return rng.choice(self.pools[other])


def build_grammar(run, reg):
    gen = generic_candidates()
    tests = reg['test_strings']
    cases = []
    for n in reg['properties'] + reg['expanders']:
        cand = gen + [w for w in reg['words'].get(n, []) if w not in KEYWORDS] + tests
        cases.append({'fn': 'discover', 'name': n, 'candidates': cand})
    outs = run_multi(cases, limit=240)
    pools = {}
    crashes = []
    for c, (st, o) in zip(cases, outs):
        if st != 'ok':
            crashes.append((c['name'], o))
            pools[c['name']] = []
        else:
            pools[c['name']] = [c['candidates'][i] for i in o]
    return Grammar(reg, pools), crashes


# ================================================================================ 1. pp-skeleton

def decorate_name(rng, reg, name):
    r = rng.random()
    if r < 0.80:
        return name
    if r < 0.86:
        return name.upper() if rng.random() < 0.5 else name.capitalize()
    if r < 0.91:
        return reg['prefix'] + name
    if r < 0.94:
        return rng.choice(['-webkit-', '-moz-', '-', '-WEASY-']) + name
    if r < 0.97:
        return name + rng.choice([' ', '  ', '/**/'])
    return name + rng.choice(['x', '-', '-top'])


def gen_decl(rng, gr, kind=None):
    """one declaration text and the sub-stream it belongs to"""
    reg = gr.reg
    kind = kind or rng.choice(['own'] * 10 + ['cross'] * 4 + ['soup'] * 4 + ['custom', 'custom', 'notprint', 'unknown',
                                                                              'unsupported', 'empty'])
    if kind == 'own':
        name = rng.choice(gr.names)
        value = gr.own(rng, name)
    elif kind == 'cross':
        name = rng.choice(gr.names)
        value = gr.cross(rng, name)
    elif kind == 'soup':
        name = rng.choice(gr.names)
        value = soup_value(rng)
    elif kind == 'custom':
        name = '--' + rng.choice(['x', 'y', 'X', 'a-b', 'a_b', '-', '0', 'weasy-x', 'color'])
        value = rng.choice([soup_value(rng), gr.cross(rng, 'x'), 'var(--x)', 'initial', ' ', '{a:b}', '1px, 2px'])
        return '%s:%s' % (name, value), kind, name
    elif kind == 'notprint':
        name = rng.choice(reg['not_print'])
        value = soup_value(rng)
    elif kind == 'unknown':
        name = rng.choice(['foo', 'colour', 'margin-middle', 'x', 'border-top-left', 'font-colour', '_width', '*zoom',
                           'grid-template-bogus', '0', 'a b'])
        value = rng.choice([soup_value(rng), gr.cross(rng, 'x')])
    elif kind == 'unsupported':
        sup = set(reg['properties']) | set(reg['expanders'])
        cands = [k for k in reg['known'] if k not in sup]
        name = rng.choice(cands) if cands else 'foo'
        value = rng.choice([soup_value(rng), 'auto', 'none', '1px', 'initial', 'var(--x)'])
    else:
        name = rng.choice(gr.names)
        value = rng.choice(['', ' ', '/**/', ' /* c */ ', '!important', ' !important'])
    dname = decorate_name(rng, reg, name)
    r = rng.random()
    if r < 0.15:
        value += ' !important'
    elif r < 0.19:
        value += ' ' + rng.choice(IMPORTANTS)
    elif r < 0.21:
        value = rng.choice(IMPORTANTS) + ' ' + value
    return '%s:%s' % (dname, value), kind, name


JUNK_ITEMS = ['foo bar', '@media print { color: red }', '@foo;', 'div { color: red }', '& p { color: red }',
              '/* comment */', ';', '@page { margin: 0 }', 'color red', ': red', 'color:', '{}', '[a]: b',
              '@import "a.css"', 'a { b { c: d } }', '!important', '"str": x', '123: 4', '--: x', '-: x',
              'width: 1px }', ') width: 1px', '@media {', '<!-- color: red -->', 'color: red; }']


def gen_block(rng, gr):
    n = rng.choice([1, 1, 2, 3, 4, 5, 6, 8])
    parts, kinds, names = [], [], []
    for _ in range(n):
        if rng.random() < 0.12:
            parts.append(rng.choice(JUNK_ITEMS))
            kinds.append('junk')
        else:
            text, kind, name = gen_decl(rng, gr)
            parts.append(text)
            kinds.append(kind)
            names.append(name)
    sep = rng.choice([';', '; ', ';\n', ' ; ', ';;'])
    return {'fn': 'pp_block', 'css': sep.join(parts) + rng.choice(['', ';', ' ']), 'kinds': kinds, 'names': names}


def out_coq(o):
    return '(%s, %d, %s)' % (slit(o[0]), o[1], blit(o[2]))


def outs_coq(l):
    return '[%s]' % '; '.join(out_coq(o) for o in l)


def coq_pp_case(res):
    items, singles = [], []
    for it, s in zip(res['items'], res['singles']):
        if it[0] == 4:
            continue
        oracle = '[%s]' % '; '.join(
            '(%s, %s)' % (slit(n), 'None' if v is None else '(Some [%s])' % '; '.join(
                '(%s, %d)' % (slit(k), x) for k, x in v)) for n, v in it[5])
        items.append('(%s, %s, %s, %s, %s, %s)' % (nlit(it[0]), slit(it[1]), slit(it[2]), blit(it[3]), blit(it[4]), oracle))
        singles.append(outs_coq(s))
    return '([%s], %s, [%s], %s)' % ('; '.join(items), outs_coq(res['full']), '; '.join(singles),
                                     outs_coq(res['filtered']))


PP_TYPE = ('list jitem * list (string * Z * bool) * list (list (string * Z * bool)) * list (string * Z * bool)')


def cases_pp(rng, gr, n):
    return [{'fn': 'pp_block', 'css': c} for c in corpus('pp')] + [gen_block(rng, gr) for _ in range(n)]


def stream_pp(run, gr, cases, outs):
    reg = gr.reg
    IN.reset()
    coq, kept = [], []
    ndecl = 0
    crash_seen = set()
    for c, (st, o) in zip(cases, outs):
        if st == 'timeout':
            fail(run, 'preprocess_declarations does not return', {'stream': 'pp', 'css': c['css']}, signature='timeout:pp')
            continue
        if st == 'exc':
            fail(run, 'declaration block: %s at %s' % (o['type'], o['site']), {'stream': 'pp', 'css': c['css'], 'exc': o},
                     signature=crash_sig(o['site'], o))
            continue
        if o['crash']:
            if o['crash'] not in crash_seen:
                crash_seen.add(o['crash'])
                fail(run, 'preprocess_declarations / a validator raised %s (only InvalidValues may be raised: the '
                         'declaration must be dropped with a warning)' % o['crash'],
                         {'stream': 'pp', 'css': c['css'], 'crash': o['crash']}, signature='crash:%s' % o['crash'])
            continue
        if any(it[0] == 4 and s for it, s in zip(o['items'], o['singles'])):
            fail(run, 'whitespace / comment item yields declarations', {'stream': 'pp', 'css': c['css']})
            continue
        if any(it[0] == 0 and any(v == 'exc' for _, v in it[5]) for it in o['items']):
            continue
        coq.append(coq_pp_case(o))
        kept.append((c, o))
        ndecl += sum(1 for it in o['items'] if it[0] == 0)
    pre = HDR + IN.preamble() + ('Definition NP := %s.\nDefinition PROP := %s.\nDefinition UNST := %s.\n'
                                 % (strs(reg['not_print']), strs(reg['proprietary']), strs(reg['unstable'])))
    try:
        masks = common.eval_cases('c07pp', pre, PP_TYPE, coq, 'pp_judge NP PROP UNST', per_file=max(60, len(coq) // 16 + 1))
    except RuntimeError as exc:
        run.oblige('corr:pp-skeleton', False, str(exc))
        return []
    mism = [c['css'] for (c, o), m in zip(kept, masks) if m & 1]
    run.oblige('corr:pp-skeleton(model pp vs preprocess_declarations on tinycss2 declaration blocks)', not mism,
               'first disagreements: %s' % json.dumps(mism[:3])[:3000])
    for (c, o), m in zip(kept, masks):
        if m & 2:
            fail(run, 'the output of a declaration block is not the concatenation of its declarations\' own outputs, '
                     'or changes when the declarations that yield nothing are removed',
                     {'stream': 'pp', 'css': c['css'], 'full': o['full'], 'singles': o['singles'],
                      'filtered': o['filtered']}, signature='pp:cross-talk')
            break
    keys, stats = [], {}
    for c, o in kept:
        for it in o['items']:
            if it[0] == 0:
                valid = any(v for _, v in it[5])
                keys.append((it[2], it[3], it[4], valid))
        for k in c.get('kinds', []):
            stats[k] = stats.get(k, 0) + 1
    dropped = sum(1 for c, o in kept for it, s in zip(o['items'], o['singles']) if it[0] == 0 and not s)
    run.count('pp-skeleton', len(kept), keys, samples=[{'css': kept[-1][0]['css'][:300], 'impl': kept[-1][1]['full'][:6]}]
              if kept else [])
    run.stream_info('pp-skeleton', declarations=ndecl, dropped_declarations=dropped, by_kind=stats,
                    rule='declaration blocks of 1..8 items parsed by tinycss2; each declaration: a property or shorthand '
                         'of PROPERTIES/EXPANDERS with a value from its own discovered grammar (60% accepted value, 20% '
                         'one-token mutation, 20% composition), from another property\'s grammar, or token soup '
                         '(numbers, dimensions with 39 units, idents, 90 functions, strings, urls, hashes, brackets, '
                         'delimiters, bad nesting, !important in odd places); custom properties, not-print, unknown and '
                         'known-but-unsupported names, prefixes, upper case; 12% junk items (nested rules, at-rules, '
                         'errors). The real validator called on each declaration alone is the oracle of the model; '
                         'distinct = (property, non-empty, important, accepted)')
    return kept


# ================================================================================ 2. dispatch-direct

MODELLED = ['border-color', 'border-style', 'border-width', 'margin', 'padding', 'bleed', 'border-top', 'border-right',
            'border-bottom', 'border-left', 'column-rule', 'outline', 'border', 'border-radius', 'columns', 'flex']


def gen_dispatch(rng, gr):
    reg = gr.reg
    r = rng.random()
    if r < 0.62:
        name = rng.choice(MODELLED)
        k = rng.random()
        if k < 0.45:
            value = gr.own(rng, name)
        elif k < 0.75:
            # components of the family, any number, any order
            fam = {'margin': ['margin-top'], 'padding': ['padding-top'], 'bleed': ['bleed-top'],
                   'border-color': ['border-top-color'], 'border-style': ['border-top-style'],
                   'border-width': ['border-top-width'], 'border-radius': ['border-top-left-radius'],
                   'columns': ['column-width', 'column-count'], 'flex': ['flex-grow', 'flex-basis', 'flex-grow'],
                   }.get(name) or ['border-top-width', 'border-top-style', 'border-top-color']
            parts = []
            for _ in range(rng.choice([1, 2, 2, 3, 3, 4, 4, 5, 0])):
                q = rng.random()
                if q < 0.8:
                    parts.append(rng.choice(gr.pools.get(rng.choice(fam)) or ['1px']).split(' ')[0])
                elif q < 0.9:
                    parts.append(rng.choice(['inherit', 'initial', 'var(--x)', 'calc(var(--x))', '0', 'none', 'auto']))
                else:
                    parts.append(soup_token(rng))
            if name == 'border-radius' and rng.random() < 0.6:
                parts.insert(rng.randrange(len(parts) + 1), '/')
                if rng.random() < 0.15:
                    parts.insert(rng.randrange(len(parts) + 1), '/')
            value = ' '.join(parts)
        elif k < 0.9:
            value = gr.cross(rng, name)
        else:
            value = soup_value(rng)
    else:
        k = rng.random()
        if k < 0.6:
            name = rng.choice(reg['properties'])
        elif k < 0.7:
            name = '--' + rng.choice(['x', 'Y', 'a-b', '-'])
        elif k < 0.8:
            sup = set(reg['properties']) | set(reg['expanders'])
            name = rng.choice([x for x in reg['known'] if x not in sup] or ['foo'])
        else:
            name = rng.choice(['foo', 'colour', 'x', 'margin-middle'])
        q = rng.random()
        if q < 0.5:
            value = gr.own(rng, name) if name in gr.pools else soup_value(rng)
        elif q < 0.65:
            value = rng.choice(['inherit', 'initial', 'INHERIT', 'Initial', 'inherit inherit', 'unset', 'initial 1px'])
        elif q < 0.85:
            value = rng.choice(['var(--x)', 'var(--x, 1px)', '1px var(--x)', 'calc(var(--x) + 1px)', 'var(x)', 'var()',
                                'var(--x,)', 'var(,--x)', 'VAR(--X)', '(var(--x))', '[var(--x)]', 'f(g(var(--x)))',
                                'f(a,,var(--x))', 'f(var(--x),)', 'rgb(var(--x) 1 2)', 'var(--x) var(--y)',
                                'foo(bar(, var(--x)))', 'var(1)', 'var("--x")', 'var(--x', 'calc(var(--x)'])
        else:
            value = soup_value(rng)
    return {'fn': 'dispatch_case', 'name': name, 'value': value}


def coq_dispatch_case(o):
    vtab = '[%s]' % '; '.join('((%s, %s), %d)' % (slit(n), toks_coq(ts), v) for n, ts, v in o['vtab'])
    ctab = '[%s]' % '; '.join('(%s, %d)' % (tok_coq(t), m) for t, m in o['ctab'])
    ftab = '[%s]' % '; '.join('(%s, (%s, %s))' % (tok_coq(t), qmk(g), 'None' if i is None else '(Some (%d))' % i)
                              for t, g, i in o['ftab'])
    outs = []
    for k, v in o['outs']:
        if v[0] == 'raw':
            val = '(VRaw %s)' % toks_coq(v[1])
        elif v[0] == 'pexp':
            val = '(VPendingExp %s %s)' % (toks_coq(v[1]), slit(v[2]))
        elif v[0] == 'pprop':
            val = '(VPendingProp %s %s)' % (toks_coq(v[1]), slit(v[2]))
        elif v[0] == 'kw':
            val = '(VKeyword %s)' % slit(v[1])
        else:
            val = '(VVal %d)' % v[1]
        outs.append('(%s, %s)' % (slit(k), val))
    return '(%s, %s, %s, %s, %s, (%s, [%s]))' % (slit(o['name']), toks_coq(o['tokens']), vtab, ctab, ftab,
                                                 nlit(o['code']), '; '.join(outs))


DISPATCH_TYPE = ('string * list tok * list ((string * list tok) * Z) * list (tok * Z) * list (tok * (Q * option Z)) * '
                 '(nat * list (string * value Z))')


def cases_dispatch(rng, gr, n):
    fixed = []
    for name in MODELLED:
        fixed += [{'fn': 'dispatch_case', 'name': name, 'value': v} for v in
                  ['inherit', 'initial', 'var(--x)', '1px', '1px 2px', '1px 2px 3px', '1px 2px 3px 4px',
                   '1px 2px 3px 4px 5px', 'red', 'solid', '1px solid red', 'red solid 1px', 'solid red', '1px 1px',
                   'red red', 'inherit 1px', '1px / 2px', '1px 2px / 3px 4px 5px', '/ 1px', '1px /', '1px / 2px / 3px',
                   'none', '1', '1 2', '1 2 3px', '3px 1 2', '1 3px 2', '0', '0 0', '0 0 0', '0px', 'auto', 'auto 2',
                   '2 auto', 'auto auto', 'auto 10px', '10px auto', '2 3', '10px 20px', '10px 2', '2 10px', '2.0', '1.5 2.5 content', '-1',
                   'content', '1 1 1 1']]
    return ([{'fn': 'dispatch_case', **c} for c in corpus('dispatch')] + fixed +
            [gen_dispatch(rng, gr) for _ in range(n)])


def stream_dispatch(run, gr, cases, outs):
    reg = gr.reg
    IN.reset()
    coq, kept = [], []
    crash_seen = set()
    for c, (st, o) in zip(cases, outs):
        if st == 'timeout':
            fail(run, 'validator does not return', {'stream': 'dispatch', 'name': c['name'], 'value': c['value']},
                     signature='timeout:validator')
            continue
        if st == 'exc':
            fail(run, '%s: %s raised %s at %s' % (c['name'], c['value'], o['type'], o['site']),
                     {'stream': 'dispatch', 'name': c['name'], 'value': c['value'], 'exc': o},
                     signature=crash_sig(o['site'], o))
            continue
        if o is None:
            continue
        if o['crash']:
            if o['crash'] not in crash_seen:
                crash_seen.add(o['crash'])
                fail(run, '`%s: %s`: a validator raised %s (only InvalidValues may be raised)' % (c['name'], c['value'], o['crash']),
                         {'stream': 'dispatch', 'name': c['name'], 'value': c['value'], 'crash': o['crash']},
                         signature='crash:%s' % o['crash'])
            continue
        coq.append(coq_dispatch_case(o))
        kept.append((c, o))
    sup = set(reg['properties'])
    pre = HDR + IN.preamble() + 'Definition KNOWN := %s.\nDefinition SUPPORTED := %s.\n' % (
        strs(reg['known']), strs(reg['properties']))
    try:
        masks = common.eval_cases('c07dp', pre, DISPATCH_TYPE, coq, 'dispatch_judge KNOWN SUPPORTED (%d) (%d)' % (reg['id_initial'], reg['id_inherit']),
                                  per_file=max(60, len(coq) // 16 + 1))
    except RuntimeError as exc:
        run.oblige('corr:dispatch-direct', False, str(exc))
        return
    mism = [(c['name'], c['value'], o['code'], o['outs'][:2]) for (c, o), m in zip(kept, masks) if m & 1]
    run.oblige('corr:dispatch-direct(models of validate_non_shorthand, expand_four_sides, generic_expander, '
               'border-*, border-radius, columns, flex vs the real functions on tinycss2 tokens)', not mism,
               'first disagreements: %s' % json.dumps(mism[:4])[:3000])
    keys = [(o['name'], o['code'], len(o['tokens']), tuple(v[1][0] for v in o['outs'])) for c, o in kept]
    by_name = {}
    for c, o in kept:
        d = by_name.setdefault(o['name'] if o['name'] in MODELLED else 'longhand/other', [0, 0, 0])
        d[o['code']] += 1
    run.count('dispatch-direct', len(kept), keys, samples=[{'name': kept[-1][0]['name'], 'value': kept[-1][0]['value'],
                                                            'impl': kept[-1][1]['outs'][:3]}] if kept else [])
    run.stream_info('dispatch-direct', invalid_crash_ok_by_name=by_name,
                    rule='`name: value` parsed by tinycss2; 62% the 16 modelled shorthands (own grammar, free mixtures of '
                         'their components in any number and order with "/" for border-radius, cross grammar, soup) + 43 '
                         'fixed boundary values each; 38% longhands, custom, unknown and unsupported names with '
                         'own-grammar values, initial/inherit spellings, 21 var() shapes, soup. Oracles: PROPERTIES[longhand] '
                         'on the tokens the model asks for, parse_color/border_width/... as classifiers; '
                         'distinct = (name, outcome, token count, kinds of values)')


# ================================================================================ 3. units

def dec(fr):
    """exact decimal text of a rational with a 2^a 5^b denominator"""
    fr = Fraction(fr)
    sign = '-' if fr < 0 else ''
    fr = abs(fr)
    d, k = fr.denominator, 0
    while d % 10 != 1 and k < 40 and (10 ** k) % d != 0:
        k += 1
    if (10 ** k) % d != 0:
        raise ValueError('not a finite decimal: %s' % fr)
    n = fr.numerator * (10 ** k // d)
    s = str(n).rjust(k + 1, '0')
    return sign + (s[:-k] + '.' + s[-k:] if k else s)


def cases_units(rng, n):
    cases = []
    for u in ABS_UNITS:
        for v in ['0', '1', '-1', '1/2', '254/100', '72', '6', '96', '1016/10']:
            cases.append({'fn': 'length_case', 'value': v, 'unit': u})
    while len(cases) < n:
        cases.append({'fn': 'length_case', 'unit': rng.choice(ABS_UNITS),
                      'value': str(Fraction(rng.randint(-3000, 3000), rng.choice([1, 1, 2, 4, 10, 100, 3, 7])))})
    return cases


def stream_units(run, reg, cases, outs):
    IN.reset()
    # the table, literal by literal
    t = reg['lengths_source']
    if t is None:
        run.oblige('tie:LENGTHS_TO_PIXELS(source literals)', False, 'LENGTHS_TO_PIXELS is not a literal dict any more')
        return
    try:
        m = common.eval_cases('c07tab', HDR, 'list (string * Q)',
                              ['[%s]' % '; '.join('(%s, %s)' % (common.slit(k), qmk(v)) for k, v in t)], 'table_judge')
        run.oblige('tie:LENGTHS_TO_PIXELS(source literals as exact rationals = model table)', m == [0],
                   'source table: %s' % (t,))
    except RuntimeError as exc:
        run.oblige('tie:LENGTHS_TO_PIXELS', False, str(exc))
    rt = dict(reg['lengths_runtime'])
    bad = [(k, v, rt.get(k)) for k, v in t if k not in rt or
           abs(Fraction(float(rt[k])) - Fraction(v)) > abs(Fraction(v)) / 2 ** 50]
    run.oblige('tie:LENGTHS_TO_PIXELS(runtime floats within 2^-50 of the literals\' rationals)', not bad and len(rt) == len(t),
               str(bad))
    coq, kept = [], []
    for c, (st, o) in zip(cases, outs):
        if st != 'ok':
            fail(run, 'computed_values.length raised', {'stream': 'units', 'case': c, 'outcome': o}, signature='crash:length')
            continue
        coq.append('(%s, %s, %s)' % (qmk(c['value']), common.slit(c['unit']), qmk(o)))
        kept.append((c, o))
    try:
        masks = common.eval_cases('c07len', HDR, 'Q * string * Q', coq, 'length_judge')
    except RuntimeError as exc:
        run.oblige('corr:length-direct', False, str(exc))
        return
    mism = [(c, o) for (c, o), m in zip(kept, masks) if m & 1]
    run.oblige('corr:length-direct(model length_px vs computed_values.length)', not mism, str(mism[:3]))
    for (c, o), m in zip(kept, masks):
        if m & 2:
            fail(run, 'length(%s%s) = %s px is not value * 96 / (units per inch)' % (c['value'], c['unit'], float(Fraction(o))),
                     {'stream': 'units', 'case': c, 'impl': o}, signature='units:ratio')
            break
    run.count('length-direct', len(kept), [(c['unit'], c['value']) for c, _ in kept],
              samples=[{'case': kept[-1][0], 'impl': kept[-1][1]}])
    run.stream_info('length-direct', rule='7 absolute units x {0, 1, -1, 1/2, the conversion constants} + random rationals '
                    'in [-3000, 3000] with denominators {1,2,4,10,100,3,7}; direct call of computed_values.length with a '
                    'Fraction value, result read back as the exact rational of the float')


# ================================================================================ 4. var()

VAR_NAMES = ['--a', '--b', '--c', '--d', '--A', '--a-b', '--u']


def gen_var_value(rng, names, depth=0, allow_plain_func=False):
    """component values with var() at various places; names = custom properties that may be referenced"""
    parts = []
    for _ in range(rng.choice([1, 1, 2, 3])):
        r = rng.random()
        if r < 0.35 and names:
            x = rng.choice(names)
            k = rng.random()
            if k < 0.55:
                parts.append('var(%s)' % x)
            elif k < 0.85:
                parts.append('var(%s, %s)' % (x, gen_var_value(rng, names, depth + 1) if depth < 2 else '7px'))
            else:
                parts.append(rng.choice(['var( %s )' % x, 'VAR(%s)' % x, 'var(%s,)' % x, 'var(,%s)' % x,
                                         'var(%s 1px)' % x, 'var(%s, a b)' % x]))
        elif r < 0.5 and depth < 2:
            inner = gen_var_value(rng, names, depth + 1)
            fn = rng.choice(['calc', 'f', 'rgb', 'max'])
            sep = rng.choice([' ', ', ', ' + '])
            extra = rng.choice(['1px', 'a', '2'])
            if allow_plain_func and rng.random() < 0.3:
                extra = 'g(1)'
            parts.append('%s(%s%s%s)' % (fn, inner, sep, extra) if rng.random() < 0.5 else
                         '%s(%s%s%s)' % (fn, extra, sep, inner))
        elif r < 0.55:
            parts.append(rng.choice(['(var(--a))', '[var(--a)]', '{var(--a)}']))
        else:
            parts.append(rng.choice(['1px', '2em', 'red', 'a', '0', '"s"', 'url(x)', '#fff', '/', '10%']))
    return ' '.join(parts)


def gen_var_case(rng):
    """custom properties referring to later ones, 12% with references in any direction (cycles); 1..4 declaration
    values resolved on one style, often with several references to one property under different fallbacks"""
    names = VAR_NAMES[:rng.choice([1, 2, 3, 4, 5, 6])]
    env = {}
    cyclic = rng.random() < 0.12
    for i, x in enumerate(names):
        later = names[i + 1:] + ['--u']
        if rng.random() < 0.8:
            env[x] = gen_var_value(rng, later if not cyclic else names, 1, allow_plain_func=True)
    if rng.random() < 0.1:
        env['--a_b'] = '9px'
    values = [gen_var_value(rng, names + ['--u'], 0, allow_plain_func=True) for _ in range(rng.choice([1, 1, 2, 3, 4]))]
    if rng.random() < 0.5:
        # one property, several references, each with its own fallback - in one value and across values
        x = rng.choice(names + ['--u', '--u'])
        fbs = rng.sample(['10px', '20px', 'a b', 'var(--u, 5px)', 'var(%s, 3px)' % rng.choice(names), 'red', '0', 'f(1, 2)'], 3)
        values.append('var(%s, %s) 1px var(%s, %s)' % (x, fbs[0], x, fbs[1]))
        values.append('calc(var(%s, %s) + var(%s))' % (x, fbs[2], x))
        rng.shuffle(values)
    return {'fn': 'var_case', 'env': env, 'values': values}


def cases_var(run, rng, n):
    fixed = [{'fn': 'var_case', 'env': e, 'values': v if isinstance(v, list) else [v]} for e, v in [
        ({'--a': '5px'}, 'var(--a)'), ({}, 'var(--a)'), ({}, 'var(--a, 7px)'), ({'--a': '5px 6px'}, 'var(--a) 1px'),
        ({'--a': 'var(--b)', '--b': '3px'}, 'var(--a)'), ({'--a': 'var(--b, 8px)'}, 'var(--a)'),
        ({'--a': '5px'}, 'calc(var(--a) + 1px)'), ({'--a': '5px'}, 'f(g(var(--a)))'), ({'--a': ''}, 'var(--a, 7px)'),
        ({'--a-b': '1px', '--a_b': '2px'}, 'var(--a-b)'), ({}, 'var(--u, a, b)'), ({'--a': 'x'}, 'f(var(--u))'),
        ({'--a': '1px'}, 'var(--a) var(--a)'), ({'--A': '1px'}, 'var(--a, 2px)'), ({'--a': 'var(--u)'}, 'f(var(--a))'),
        ({'--x': 'var(--x)'}, 'var(--x)'), ({'--x': '1px var(--x)'}, 'var(--x, 7px)'),
        ({'--x': 'var(--y)', '--y': 'var(--x)'}, ['var(--x, 1px)', 'var(--y, 2px)']),
        ({'--a': '5px'}, 'calc(var(--a) + max(1px, 2px))'),
        ({}, ['var(--gap, 10px)', 'var(--gap, 20px)']), ({}, ['0 var(--gap, 30px) 0 var(--gap, 5px)']),
        ({'--gap': '3px'}, ['var(--gap, 10px)', 'var(--gap, 20px)']),
        ({}, ['var(--g, var(--h, 6px))', 'var(--h, var(--g, 2px))', 'var(--g, 1px) var(--h, 4px)'])]]
    return ([{'fn': 'var_case', 'env': c['env'], 'values': c.get('values') or [c['value']]} for c in corpus('var')] + fixed +
            [gen_var_case(rng) for _ in range(n)])


def stream_var(run, cases, outs):
    IN.reset()
    coq, kept = [], []
    reported = set()
    for c, (st, o) in zip(cases, outs):
        if st != 'ok':
            fail(run, 'resolve_var harness call failed: %s' % (o,), {'stream': 'var', 'case': c, 'outcome': o},
                 signature='crash:var-harness')
            continue
        env = '[%s]' % '; '.join('(%s, %s)' % (slit(k), toks_coq(v)) for k, v in o['env'])
        for value, it in zip(c['values'], o['items']):
            if it['code'] not in (0, 4):
                sig = 'crash:%s' % it['site']
                if sig not in reported:
                    reported.add(sig)
                    fail(run, 'resolve_var raised %s for %s with %s' % (it['site'], value, c['env']),
                         {'stream': 'var', 'case': {'env': c['env'], 'values': c['values']}, 'site': it['site']}, signature=sig)
            if [it['code'], it['out']] != it['alone'] and 'dep' not in reported:
                reported.add('dep')
                fail(run, 'the declarations of one element: resolving `%s` after %s on the same style gives %s, on a style '
                          'of its own %s (custom properties %s): a reference is not substituted independently of the others'
                     % (value, c['values'][:c['values'].index(value)], it['out'], it['alone'][1], c['env']),
                     {'stream': 'var', 'case': {'env': c['env'], 'values': c['values']}}, signature='var:reference-dependence')
            coq.append('(%s, %s, (%s, %s))' % (env, toks_coq(it['tokens']), nlit(it['code']), toks_coq(it['out'])))
            kept.append((c, value, it))
    try:
        masks = common.eval_cases('c07var', HDR + IN.preamble(), 'list (string * list tok) * list tok * (nat * list tok)',
                                  coq, 'var_judge', per_file=max(60, len(coq) // 16 + 1))
    except RuntimeError as exc:
        run.oblige('corr:var-direct', False, str(exc))
        return
    mism = [(c['env'], c['values'], v, it['code'], it['site']) for (c, v, it), m in zip(kept, masks) if m & 1]
    run.oblige('corr:var-direct(model resolve_var/solved_tokens vs the real resolve_var on tinycss2 tokens)', not mism,
               'first disagreements: %s' % json.dumps(mism[:3])[:3000])
    # the model is hand-written (independent of coq/gen) and is the reading of css-variables-1 the C07_var_* theorems are
    # about (substitution of the value or, when the property is undefined or cyclic, of the fallback; invalid at
    # computed-value time otherwise), so a value on which the real resolve_var answers differently is a failing input
    for (c, v, it), m in zip(kept, masks):
        if m & 1:
            fail(run, 'resolve_var answers (code %s) %s for `%s` with custom properties %s: not the substitution css-variables-1 '
                      'prescribes (the model of props/C07.v answers otherwise)' % (it['code'], it['out'], v, c['env']),
                 {'stream': 'var', 'case': {'env': c['env'], 'values': c['values']}, 'value': v, 'impl': [it['code'], it['out']]})
            break
    keys = [(len(c['env']), v.count('var('), it['code'], len(it['out'])) for c, v, it in kept]
    run.count('var-direct', len(kept), [(json.dumps(c['env'], sort_keys=True), v) for c, v, _ in kept],
              samples=[{'env': kept[-1][0]['env'], 'values': kept[-1][0]['values']}])
    run.stream_info('var-direct', shapes=len(set(keys)), raised=sum(1 for _, _, it in kept if it['code']),
                    styles=len(cases),
                    rule='1..6 custom properties whose values refer to later ones, 12% in any direction (cycles); var() with '
                         'and without fallback (nested to depth 2), inside functions (calc/rgb/max/f, next to var()-free '
                         'functions), inside ( ) [ ] { } blocks, odd spellings, undefined names, names differing by - / _ ; '
                         '1..6 declaration values resolved in turn on ONE real ComputedStyle, half of the time with several '
                         'references to one property under different fallbacks; each also resolved on a style of its own; '
                         '23 fixed boundary cases')


# ================================================================================ 5. metamorphic renders

def plain(v):
    low = v.lower()
    if any(x in low for x in ('var(', 'attr(', 'inherit', 'initial', 'calc(', 'unset', 'revert', 'invert')):
        return False
    if re.search(r'\d{4,}|\de\d|e-\d', low):
        return False
    return True


def split_top(v):
    """split a value on the spaces that are outside ( ) [ ] and strings"""
    parts, depth, cur, quote = [], 0, '', None
    for ch in v:
        if quote:
            cur += ch
            if ch == quote:
                quote = None
            continue
        if ch in '"\'':
            quote = ch
        elif ch in '([':
            depth += 1
        elif ch in ')]':
            depth -= 1
        if ch == ' ' and depth == 0:
            if cur:
                parts.append(cur)
            cur = ''
        else:
            cur += ch
    if cur:
        parts.append(cur)
    return parts


class Pools:
    def __init__(self, gr):
        self.gr = gr
        self.cache = {}

    def get(self, name, single=False):
        key = (name, single)
        if key not in self.cache:
            vals = [v for v in self.gr.pools.get(name, []) if plain(v) and v.strip()]
            if single:
                vals = [v for v in vals if ' ' not in v.strip() and ',' not in v and '/' not in v]
            self.cache[key] = sorted(set(vals)) or ['0']
        return self.cache[key]

    def pick(self, rng, name, single=False):
        return rng.choice(self.get(name, single))


def four_map(vals):
    top = vals[0]
    right = vals[1] if len(vals) > 1 else top
    bottom = vals[2] if len(vals) > 2 else top
    left = vals[3] if len(vals) > 3 else right
    return [top, right, bottom, left]


def four_longs(name):
    i = name.rfind('-')
    return [name + s if i == -1 else name[:i] + s + name[i:] for s in ('-top', '-right', '-bottom', '-left')]


def decls(pairs):
    return ';'.join('%s:%s' % (n, v) for n, v in pairs)


def sh_case(rng, P):
    """(family, shorthand declaration text, equivalent longhand declarations [(name, value)], context)"""
    fam = rng.choice(['four', 'four', 'side', 'side', 'side', 'border', 'radius', 'radius', 'flex', 'flex', 'columns',
                      'gap', 'flex-flow', 'list-style', 'text-decoration', 'page-break', 'word-wrap', 'font',
                      'grid-line', 'background'])
    ctx = ''
    if fam == 'four':
        name = rng.choice(['margin', 'padding', 'border-width', 'border-style', 'border-color'])
        longs = four_longs(name)
        vals = [P.pick(rng, longs[0], True) for _ in range(rng.choice([1, 2, 3, 4]))]
        return fam, name, '%s:%s' % (name, ' '.join(vals)), list(zip(longs, four_map(vals))), 'border-style:solid'
    if fam in ('side', 'border'):
        name = rng.choice(['border-top', 'border-right', 'border-bottom', 'border-left', 'outline', 'column-rule']) \
            if fam == 'side' else 'border'
        base = 'border-top' if name == 'border' else name
        comp = {'-width': P.pick(rng, base + '-width', True), '-style': P.pick(rng, base + '-style', True),
                '-color': P.pick(rng, base + '-color', True)}
        keep = rng.sample(sorted(comp), rng.choice([1, 2, 3, 3]))
        rng.shuffle(keep)
        text = '%s:%s' % (name, ' '.join(comp[k] for k in keep))
        targets = [name] if name != 'border' else ['border-top', 'border-right', 'border-bottom', 'border-left']
        longs = [(t + k, comp[k] if k in keep else 'initial') for t in targets for k in ('-width', '-style', '-color')]
        return fam, name, text, longs, 'columns:2' if name == 'column-rule' else ''
    if fam == 'radius':
        h = [P.pick(rng, 'border-top-left-radius', True) for _ in range(rng.choice([1, 2, 3, 4]))]
        v = [P.pick(rng, 'border-top-left-radius', True) for _ in range(rng.choice([0, 0, 1, 2, 3, 4]))]
        text = 'border-radius:%s%s' % (' '.join(h), ' / ' + ' '.join(v) if v else '')
        hh, vv = four_map(h), four_map(v or h)
        names = ['border-top-left-radius', 'border-top-right-radius', 'border-bottom-right-radius',
                 'border-bottom-left-radius']
        return fam, 'border-radius', text, [(n, '%s %s' % (a, b)) for n, a, b in zip(names, hh, vv)], ''
    if fam == 'flex':
        g, sh_ = P.pick(rng, 'flex-grow', True), P.pick(rng, 'flex-shrink', True)
        g, sh_ = g.lstrip('-') or '1', sh_.lstrip('-') or '1'
        g0, s0 = ['0' if float(x) == 0 else x for x in (g, sh_)]
        b = rng.choice([x for x in P.get('flex-basis', True) if not re.match(r'^[-+.\d]+$', x)] or ['auto'])
        form = rng.choice(['none', 'g', 'gs', 'b', 'gb', 'bg', 'gsb', 'bgs', 'auto', 'g0', 'zero'])
        text, longs = {
            'none': ('none', ('0', '0', 'auto')), 'g': (g, (g, '1', '0px')), 'gs': ('%s %s' % (g, sh_), (g, sh_, '0px')),
            'b': (b, ('1', '1', b)), 'gb': ('%s %s' % (g, b), (g, '1', b)), 'bg': ('%s %s' % (b, g), (g, '1', b)),
            'gsb': ('%s %s %s' % (g, sh_, b), (g, sh_, b)), 'bgs': ('%s %s %s' % (b, g, sh_), (g, sh_, b)),
            'auto': ('auto', ('1', '1', 'auto')), 'g0': ('%s 0' % g, (g, '0', '0px')), 'zero': ('0', ('0', '1', '0px')),
        }[form]
        return fam, 'flex', 'flex:' + text, list(zip(['flex-grow', 'flex-shrink', 'flex-basis'], longs)), 'flexitem'
    if fam == 'columns':
        w = rng.choice([x for x in P.get('column-width', True) if x.lower() != 'auto'])
        c = rng.choice([x for x in P.get('column-count', True) if x.lower() != 'auto'])
        text, longs = rng.choice([('%s %s' % (w, c), (w, c)), ('%s %s' % (c, w), (w, c)), (w, (w, 'auto')),
                                  (c, ('auto', c)), ('auto', ('auto', 'auto')), ('auto %s' % c, ('auto', c)),
                                  ('%s auto' % w, (w, 'auto'))])
        return fam, 'columns', 'columns:' + text, [('column-width', longs[0]), ('column-count', longs[1])], ''
    if fam == 'gap':
        a, b = P.pick(rng, 'row-gap', True), P.pick(rng, 'column-gap', True)
        if rng.random() < 0.5:
            return fam, 'gap', 'gap:%s' % a, [('row-gap', a), ('column-gap', a)], 'flex'
        return fam, 'gap', 'gap:%s %s' % (a, b), [('row-gap', a), ('column-gap', b)], 'flex'
    if fam == 'flex-flow':
        d, w = P.pick(rng, 'flex-direction', True), P.pick(rng, 'flex-wrap', True)
        text, longs = rng.choice([(d, (d, 'initial')), (w, ('initial', w)), ('%s %s' % (d, w), (d, w)),
                                  ('%s %s' % (w, d), (d, w))])
        return fam, 'flex-flow', 'flex-flow:' + text, [('flex-direction', longs[0]), ('flex-wrap', longs[1])], 'flex'
    if fam == 'list-style':
        comp = {'list-style-type': rng.choice(['disc', 'decimal', 'square', 'upper-roman', 'lower-alpha', 'circle']),
                'list-style-position': P.pick(rng, 'list-style-position', True),
                'list-style-image': rng.choice(['url(pattern.png)', 'url(a.png)'])}
        keep = rng.sample(sorted(comp), rng.choice([1, 2, 3]))
        rng.shuffle(keep)
        return (fam, 'list-style', 'list-style:' + ' '.join(comp[k] for k in keep),
                [(k, comp[k] if k in keep else 'initial') for k in sorted(comp)], 'listitem')
    if fam == 'text-decoration':
        comp = {'text-decoration-line': rng.choice(['underline', 'overline', 'line-through', 'underline overline', 'none']),
                'text-decoration-style': P.pick(rng, 'text-decoration-style', True),
                'text-decoration-color': P.pick(rng, 'text-decoration-color', True),
                'text-decoration-thickness': rng.choice(['2px', '10%', 'from-font', '0.1em'])}
        keep = rng.sample(sorted(comp), rng.choice([1, 2, 3, 4]))
        rng.shuffle(keep)
        return (fam, 'text-decoration', 'text-decoration:' + ' '.join(comp[k] for k in keep),
                [(k, comp[k] if k in keep else 'initial') for k in sorted(comp)], '')
    if fam == 'page-break':
        which = rng.choice(['before', 'after', 'inside'])
        v = rng.choice(['auto', 'avoid'] if which == 'inside' else ['auto', 'left', 'right', 'avoid', 'always'])
        return fam, 'page-break-' + which, 'page-break-%s:%s' % (which, v), [('break-' + which, 'page' if v == 'always' else v)], ''
    if fam == 'word-wrap':
        v = P.pick(rng, 'overflow-wrap', True)
        return fam, 'word-wrap', 'word-wrap:' + v, [('overflow-wrap', v)], ''
    if fam == 'font':
        opt = {'font-style': rng.choice(['italic', 'oblique']), 'font-variant-caps': 'small-caps',
               'font-weight': rng.choice(['bold', '700', '100', 'lighter']),
               'font-stretch': rng.choice(['condensed', 'expanded', 'ultra-condensed'])}
        keep = rng.sample(sorted(opt), rng.choice([0, 1, 2, 3, 4]))
        rng.shuffle(keep)
        size = rng.choice(['12px', '1.5em', '80%', 'large', '9pt'])
        lh = rng.choice([None, None, '15px', '1.5', '120%', 'normal'])
        family = rng.choice(['weasyprint', 'weasyprint, serif', '"weasyprint"', 'a b, weasyprint'])
        text = 'font:%s %s%s %s' % (' '.join(opt[k] for k in keep), size, '/' + lh if lh else '', family)
        longs = [(k, opt[k] if k in keep else 'initial') for k in sorted(opt)]
        longs += [('font-size', size), ('line-height', lh or 'initial'), ('font-family', family)]
        return fam, 'font', text, longs, ''
    if fam == 'grid-line':
        name = rng.choice(['grid-column', 'grid-row'])
        a, b = rng.choice(['1', '2', 'span 2', 'auto', '-1']), rng.choice(['3', '4', 'span 2', 'auto', '-1'])
        if rng.random() < 0.4:
            return fam, name, '%s:%s' % (name, a), [(name + '-start', a), (name + '-end', 'auto')], 'grid'
        return fam, name, '%s:%s / %s' % (name, a, b), [(name + '-start', a), (name + '-end', b)], 'grid'
    c = P.pick(rng, 'background-color', True)
    return fam, 'background', 'background:' + c, [
        ('background-color', c), ('background-image', 'initial'), ('background-repeat', 'initial'),
        ('background-attachment', 'initial'), ('background-position', 'initial'), ('background-size', 'initial'),
        ('background-clip', 'initial'), ('background-origin', 'initial')], ''


CONTEXTS = {
    '': ('', ''), 'border-style:solid': ('', 'border-style:solid;'), 'columns:2': ('', 'columns:2;'),
    'flexitem': ('display:flex;width:150px;', ''), 'flex': ('', 'display:flex;flex-wrap:wrap;width:120px;'),
    'listitem': ('', 'display:list-item;margin-left:30px;'), 'grid': ('display:grid;grid-template-columns:repeat(4, 30px);', ''),
}


def doc(container, pre, rules, attr='', extra_css='', page=''):
    """rules: text of the rules under test (after the `pre` rule that gives #t non-initial values)"""
    return ('<style>@page{size:300px 400px;margin:10px;%s}html{font-family:weasyprint;font-size:10px;line-height:12px}'
            'body{margin:0}.c{%s}#t{%s}%s%s</style><body><div class=c><div id=t%s>abc de<span>fg</span> ab ab ab ab'
            '</div><div class=s>cd</div><div class=s>ef</div></div>'
            % (page, container, pre, rules, extra_css, (' style="%s"' % attr.replace('"', '&quot;')) if attr else ''))


def pre_rule(rng, P, names):
    """non-initial values for the longhands under test, so that a reset to initial is visible"""
    out = []
    for n in names:
        if rng.random() < 0.8:
            out.append((n, P.pick(rng, n)))
    return decls(out)


def place(rng, a_decl, b_decl, container, pre, where=None):
    """the same declarations in an author rule, in the style attribute, or !important in a rule"""
    where = where or rng.choice(['rule', 'rule', 'attr', 'important'])
    if where == 'attr' and '"' not in a_decl + b_decl and "'" not in a_decl + b_decl:
        return doc(container, pre, '', attr=a_decl), doc(container, pre, '', attr=b_decl)
    if where == 'important':
        imp = lambda d: ';'.join(x + ' !important' for x in d.split(';') if x.strip())
        return (doc(container, pre, '#t{%s}div{%s}' % (imp(a_decl), 'margin:3px')),
                doc(container, pre, '#t{%s}div{%s}' % (imp(b_decl), 'margin:3px')))
    return doc(container, pre, '#t{%s}' % a_decl), doc(container, pre, '#t{%s}' % b_decl)


LENGTH_PROPS = ['width', 'height', 'margin-left', 'margin-top', 'padding-left', 'padding-bottom', 'border-left-width',
                'font-size', 'line-height', 'text-indent', 'letter-spacing', 'word-spacing', 'left', 'top', 'min-width',
                'max-width', 'min-height', 'border-spacing', 'column-gap', 'outline-width', 'flex-basis',
                'border-top-left-radius', 'outline-offset', 'column-width', 'margin', 'padding', 'border-width',
                'text-decoration-thickness', 'tab-size', 'background-position', 'background-size', 'column-rule-width']
PER_INCH = {'in': Fraction(1), 'cm': Fraction(254, 100), 'mm': Fraction(254, 10), 'q': Fraction(1016, 10), 'pt': Fraction(72),
            'pc': Fraction(6), 'px': Fraction(96)}


def spell(px, unit):
    return dec(Fraction(px) / 96 * PER_INCH[unit]) + unit


def gen_pair(rng, P, gr, bad_pool):
    kind = rng.choice(['sh', 'sh', 'sh', 'perm', 'units', 'units', 'var', 'var', 'bad-decl', 'bad-decl', 'bad-rule',
                       'compute', 'compute'])
    if kind == 'compute':
        # every accepted value of every property reaches its computed value (the fingerprint reads them all);
        # the property name in another case, between two declarations that yield nothing
        prop = rng.choice(gr.reg['properties'] + gr.reg['expanders'])
        pool = [v for v in (gr.pools.get(prop) or []) if 'var(' not in v.lower() and v.strip()] or ['initial']
        v = rng.choice(pool)
        ctx = rng.choice(['', 'display:flex;', 'display:grid;', 'columns:2;', 'position:relative;'])
        da = '%s:%s' % (prop, v)
        db = 'foo:bar;%s:%s;%s:' % (prop.upper() if rng.random() < 0.5 else prop.capitalize(), v, prop)
        a, b = place(rng, da, db, ctx, 'border-style:solid;', where=rng.choice(['rule', 'attr']))
        return dict(kind='compute', sig='meta:compute:%s' % prop, a=a, b=b, note='%s == %s' % (da, db))
    if kind == 'sh':
        fam, name, text, longs, ctx, *ctl = sh_case(rng, P)
        cont, tctx = CONTEXTS[ctx]
        pre = tctx + pre_rule(rng, P, [n for n, _ in longs])
        where = rng.choice(['rule', 'rule', 'attr', 'important'])
        a, b = place(rng, text, decls(longs), cont, pre, where=where)
        case = dict(kind='sh', sig='meta:shorthand:%s' % name, a=a, b=b, note='%s == %s' % (text, decls(longs)))
        if ctl and ctl[0]:
            ca, cb = place(rng, ctl[0][1], decls(longs), cont, pre, where=where)
            case['control'] = dict(a=ca, b=cb, sig=ctl[0][0])
        return case
    if kind == 'perm':
        while True:
            fam, name, text, longs, ctx, *_ = sh_case(rng, P)
            if fam in ('side', 'border', 'list-style', 'text-decoration', 'flex-flow', 'columns') and ' ' in text:
                break
        cont, tctx = CONTEXTS[ctx]
        n, v = text.split(':', 1)
        parts = v.split(' ')
        if fam == 'text-decoration':          # "underline overline" is one component
            parts = [longs_v for k, longs_v in longs if longs_v != 'initial']
        perm = parts[:]
        rng.shuffle(perm)
        pre = tctx + pre_rule(rng, P, [k for k, _ in longs])
        a, b = place(rng, text if fam != 'text-decoration' else '%s:%s' % (n, ' '.join(parts)),
                     '%s:%s' % (n, ' '.join(perm)), cont, pre)
        return dict(kind='perm', sig='meta:order:%s' % name, a=a, b=b, note='%s == %s' % (' '.join(parts), ' '.join(perm)))
    if kind == 'units':
        prop = rng.choice(LENGTH_PROPS)
        u1, u2 = rng.sample(ABS_UNITS, 2)
        k = rng.choice([1, 2, 3])
        pxs = [Fraction(3 * rng.randint(1, 40), rng.choice([1, 1, 2, 4])) for _ in range(k)]
        if prop not in ('margin', 'padding', 'border-width', 'border-top-left-radius', 'background-position',
                        'background-size', 'border-spacing'):
            pxs = pxs[:1]
        elif prop in ('border-top-left-radius', 'background-position', 'background-size', 'border-spacing'):
            pxs = pxs[:2]
        if rng.random() < 0.12 and prop in ('margin-left', 'margin-top', 'text-indent', 'left', 'top', 'letter-spacing',
                                            'word-spacing', 'outline-offset', 'margin'):
            pxs = [-x for x in pxs]
        ctx = ('position:relative;border-style:solid;outline-style:solid;column-rule-style:solid;'
               'text-decoration-line:underline;background-image:url(pattern.png);background-repeat:no-repeat;'
               + ('display:table;' if prop == 'border-spacing' else ''))
        if rng.random() < 0.15:
            # the page box
            pa = 'size:%s %s;margin:%s' % (spell(pxs[0] + 201, u1), spell(300, u1), spell(pxs[0] / 4, u1))
            pb = 'size:%s %s;margin:%s' % (spell(pxs[0] + 201, u2), spell(300, u2), spell(pxs[0] / 4, u2))
            return dict(kind='units', sig='meta:units:@page', a=doc('', '', '', page=pa), b=doc('', '', '', page=pb),
                        note='%s == %s' % (pa, pb), tol=0.05)
        da = '%s:%s' % (prop, ' '.join(spell(x, u1) for x in pxs))
        db = '%s:%s' % (prop, ' '.join(spell(x, u2) for x in pxs))
        cont = 'display:flex;' if prop == 'flex-basis' else ''
        a, b = place(rng, da, db, cont, ctx)
        # the float product value * 96/2.54 is one ulp off; Pango then truncates spacings and font sizes to its
        # units and hints glyph positions, which turns the ulp into up to half a pixel per line (reported as a
        # numerical remark): text metrics get a pixel of tolerance, everything else a twentieth
        tol = 0.75 if prop in ('font-size', 'word-spacing', 'letter-spacing', 'tab-size', 'line-height') else 0.05
        return dict(kind='units', sig='meta:units:%s' % prop, a=a, b=b, note='%s == %s' % (da, db), tol=tol)
    if kind == 'var' and rng.random() < 0.3:
        # several references to ONE custom property, each with its own fallback: two longhands, two components of a
        # shorthand, fallbacks that are themselves var(); the property defined on the element, on an ancestor, nowhere
        L = lambda: '%dpx' % rng.choice([1, 2, 3, 5, 8, 13, 21, 34])
        shape = rng.choice(['two-longhands', 'two-components', 'nested', 'three'])
        if shape == 'two-longhands':
            pa, pb = rng.sample(['margin-left', 'padding-left', 'text-indent', 'border-left-width', 'min-height', 'width',
                                 'margin-top', 'padding-right', 'letter-spacing'], 2)
            tmpl = [(pa, 'var(--g, %s)' % L()), (pb, 'var(--g, %s)' % L())]
        elif shape == 'two-components':
            tmpl = [(rng.choice(['margin', 'padding', 'border-width']), '%s var(--g, %s) %s var(--g, %s)' % (L(), L(), L(), L()))]
        elif shape == 'nested':
            tmpl = [('text-indent', 'var(--g, var(--h, %s))' % L()), ('letter-spacing', 'var(--h, var(--g, %s))' % L()),
                    ('margin-left', 'var(--g, %s)' % L())]
        else:
            tmpl = [('padding', 'var(--g, %s) var(--h, %s) var(--g, %s)' % (L(), L(), L())), ('margin-left', 'var(--h, %s)' % L()),
                    ('width', 'var(--g, 70px)')]
        if rng.random() < 0.5:
            tmpl.reverse()
        own, anc = {}, {}
        for nm in ('--g', '--h'):
            r = rng.random()
            if r < 0.3:
                own[nm] = L()
            elif r < 0.5:
                anc[nm] = L()
        eff = dict(anc)
        eff.update(own)
        da = ';'.join(['%s:%s' % kv for kv in own.items()] + ['%s:%s' % d for d in tmpl])
        db = ';'.join('%s:%s' % (pp_, substitute(v, eff)) for pp_, v in tmpl)
        cont = ';'.join('%s:%s' % kv for kv in anc.items())
        a, b = place(rng, da, db, cont, 'border-style:solid;position:relative;', where=rng.choice(['rule', 'rule', 'attr']))
        return dict(kind='var', sig='meta:var:several-references', a=a, b=b, note='%s {.c: %s} == %s' % (da, cont, db))
    if kind == 'var':
        names = [n for n in gr.reg['properties'] if P.get(n) != ['0']]
        prop = rng.choice(names + ['margin', 'padding', 'border-top', 'border-radius', 'flex', 'columns', 'font',
                                   'text-decoration', 'list-style', 'background', 'outline', 'border-color'])
        pool = [v for v in (gr.pools.get(prop) or []) if plain(v) and v.strip()] or ['0']
        v = rng.choice(pool)
        form = rng.choice(['whole', 'whole', 'fallback', 'fallback', 'nested', 'inherited', 'part', 'two-step',
                           'defined-with-fallback', 'dash-underscore'])
        control = None
        has_comma = ',' in re.sub(r'\([^()]*\)', '', re.sub(r'\([^()]*\)', '', v))     # a comma outside functions
        ctx = 'border-style:solid;position:relative;'
        cont = ''
        if 'url(' in v.lower() and form in ('dash-underscore', 'fallback', 'two-step', 'defined-with-fallback'):
            form = 'whole'          # one mechanism per case: url() values go through the plain forms
        if form == 'whole':
            da = '--x:%s;%s:var(--x)' % (v, prop)
        elif form == 'fallback':
            da = '%s:var(--undefined, %s)' % (prop, v)
        elif form == 'nested':
            da = '--x:%s;--y:var(--x);%s:var(--y)' % (v, prop)
        elif form == 'inherited':
            da = '%s:var(--x)' % prop
            cont = '--x:%s;' % v
        elif form == 'two-step':
            da = '--y:var(--z, %s);%s:var(--y)' % (v, prop)
        elif form == 'dash-underscore':
            # F131: --a-b and --a_b are stored under one name - control: var(--a-b) reads the other one
            other = rng.choice([x for x in pool if 'url(' not in x.lower()] or [v])
            da = '--a-b:%s;--a_b:%s;%s:var(--a-b)' % (v, other, prop)
            # F131 fixed: distinct names are distinct properties, no control any more
        elif form == 'defined-with-fallback':
            # the fallback is only for an undefined property
            other = rng.choice(pool)
            da = '--x:%s;%s:var(--x, %s)' % (v, prop, other if ',' not in other else '0')
        else:
            parts = split_top(v)
            i = rng.randrange(len(parts))
            da = '--x:%s;%s:%s' % (parts[i], prop, ' '.join(parts[:i] + ['var(--x)'] + parts[i + 1:]))
        db = '%s:%s' % (prop, v)
        where = rng.choice(['rule', 'rule', 'attr'])
        a, b = place(rng, da, db, cont, ctx, where=where)
        case = dict(kind='var', sig='meta:var:%s' % form, a=a, b=b, note='%s == %s' % (da, db))
        # F130 fixed: a fallback keeps its commas, judged like any other pair
        return case
    if kind == 'bad-decl':
        good = []
        for _ in range(rng.choice([1, 2, 3, 4])):
            n = rng.choice(['color', 'margin', 'padding-left', 'border', 'width', 'font-size', 'text-align', 'display',
                            'background', 'line-height', 'float', 'text-decoration', 'border-radius', 'letter-spacing'])
            pool = [v for v in (gr.pools.get(n) or []) if plain(v) and v.strip()] or ['0']
            good.append('%s:%s' % (n, rng.choice(pool)))
        bad = rng.choice(bad_pool)
        i = rng.randrange(len(good) + 1)
        withbad = good[:i] + [bad] + good[i:]
        where = rng.choice(['rule', 'rule', 'attr', 'page', 'container'])
        ga, gb = ';'.join(good), ';'.join(withbad)
        if where == 'attr' and '"' not in gb and "'" not in gb and '<' not in gb:
            a, b = doc('', '', '', attr=ga), doc('', '', '', attr=gb)
        elif where == 'page':
            a = doc('', '', '', page='margin:20px;' + ga)
            b = doc('', '', '', page='margin:20px;' + gb)
        elif where == 'container':
            a, b = doc(ga, '', ''), doc(gb, '', '')
        else:
            a, b = doc('', '', '#t{%s}.s{color:red}' % ga), doc('', '', '#t{%s}.s{color:red}' % gb)
        return dict(kind='bad-decl', sig='meta:bad-declaration', a=a, b=b, note='inserted `%s` at %d in {%s}' % (bad, i, ga),
                    bad=bad)
    # malformed rule / at-rule between two good rules
    r1 = rng.choice(['#t{color:red;margin:5px}', '.c{padding:3px}', 'div{border:1px solid}', '@page{margin:30px}',
                     '@media print{#t{width:100px}}'])
    r2 = rng.choice(['.s{color:blue;margin-left:7px}', '#t{font-size:12px}', 'span{letter-spacing:2px}',
                     '@page{size:250px 300px}', 'div>div{padding-top:4px}'])
    bad = rng.choice(BAD_RULES) if rng.random() < 0.7 else rng.choice(bad_pool) + ';'
    if rng.random() < 0.3:
        bad = bad + rng.choice(BAD_RULES)
    return dict(kind='bad-rule', sig='meta:bad-rule', a=doc('', '', r1 + r2), b=doc('', '', r1 + bad + r2),
                note='inserted `%s` between `%s` and `%s`' % (bad, r1, r2), r1=r1, r2=r2, bad=bad)


BAD_RULES = ['@foo bar;', '@foo {a:b}', 'div{color:}', 'div{:red}', 'p[{color:red}', '@import;', '@import url();',
             '@font-face{src:}', '@font-face{}', '@page :bogus{margin:1px}', '@page foo bar{margin:1px}',
             '@counter-style x{system:bogus}', '@counter-style{}', '@counter-style none{system:cyclic;symbols:a}',
             '@media bogus and (x){div{color:red}}', '@media (min-width:){#t{color:green}}', '@supports (x:y){#t{x:y}}',
             '@namespace bad', '@namespace foo "x";', '<!-- -->', '-->', 'div:unknown-pseudo{color:red}',
             'div::before::after{color:red}', ':is({color:red}', '@charset "x";', '@layer a;', '@container x{#t{a:b}}',
             '@keyframes x{from{a:b}}', '@page{@top-left{content:}}', '@page{@bogus{}}', '@page{size:bogus}',
             '{}', '{color:red}', 'div{}', ';', '@;', '@{}', '#t{@media x{color:red}}', 'div,{color:red}',
             ',div{color:red}', 'div>{color:red}', '#t::first-line::x{color:red}', '#t:nth-child(){color:red}',
             '#t:nth-child(2n+){color:red}', '#t:not(){color:red}', '#{color:red}', '.{color:red}', '[=]{color:red}',
             '#t{color:}', '@page :first:bogus{margin:0}', '#t:nth-child(+){color:red}', '@page{margin:1px 2px 3px 4px 5px}',
             '@font-face{font-family:x}', '@font-face{font-family:x;src:local()}', '@import "nonexistent.css" bogus;',
             '#t{--:x}', 'html|div{color:red}', '*|*|*{color:red}', '#t{width:1px !important !important}',
             '@media{', '}', ')', ']', '#t{color:rgb(1,2}', '@page{@top-left{content:"x"', '#t{"unterminated}']


def self_contained_rule(case):
    """inserting `bad` must leave r1 and r2 standing as rules (CSS error recovery may swallow what follows an
    unbalanced construct: that is correct behaviour, not a finding)"""
    import tinycss2

    def rules(text):
        return [r for r in tinycss2.parse_stylesheet(text, skip_whitespace=True, skip_comments=True)]
    try:
        base = [r.serialize() for r in rules(case['r1'] + case['r2'])]
        full = [r.serialize() for r in rules(case['r1'] + case['bad'] + case['r2'])]
    except Exception:   # noqa
        return False
    return len(base) == 2 and len(full) >= 2 and full[0] == base[0] and full[-1] == base[-1]


def self_contained_decl(bad):
    import tinycss2
    items = [i for i in tinycss2.parse_blocks_contents(bad + ';zzz:1') if i.type not in ('whitespace', 'comment')]
    if not items or items[-1].type != 'declaration' or items[-1].name != 'zzz':
        return False
    items2 = [i for i in tinycss2.parse_blocks_contents('aaa:1;' + bad) if i.type not in ('whitespace', 'comment')]
    if not items2 or items2[0].type != 'declaration' or items2[0].name != 'aaa':
        return False
    return '}' not in bad and '<' not in bad and all(i.type in ('declaration', 'error') for i in items[:-1])


def make_bad_pool(rng, gr, n=160):
    pool = ['foo:bar', 'colour:red', 'color:12px', 'width:red', 'margin:1px 2px 3px 4px 5px', 'color', 'color:',
            ':red', 'width:1px 2px', 'border:solid solid', 'font:12px', 'display:bogus', 'margin-middle:1px',
            '-webkit-foo:bar', 'color:red blue', 'width:-1px', 'padding:-1px', 'line-height:-1', 'volume:3',
            'border-radius:1px/', 'flex:1 2 3 4', 'columns:1px 2px', 'color:rgb(1,2)', 'width:calc()',
            'content:bogus()', 'color:#12', 'background:red blue', 'margin:1px,2px', 'width:1px!', 'color:red !bogus',
            '!important', 'color:red!important!important', 'width:10 px', 'font-size:12', 'width:1e', 'x', '1:2',
            'width:[1px]', 'width:(1px)', 'color:"red"', 'font-family:', 'margin:', 'width: /**/ ', 'wid/**/th:1px']
    for _ in range(n):
        text, kind, name = gen_decl(rng, gr, kind=rng.choice(['cross', 'soup', 'soup', 'unknown', 'notprint', 'empty',
                                                               'unsupported']))
        pool.append(text)
    return [b for b in pool if self_contained_decl(b)]


def cases_render(rng, gr, n):
    P = Pools(gr)
    bad_pool = make_bad_pool(rng, gr)
    fixed = [c for c in corpus('render')]
    for da, db, sig, why, *more in RENDER_PROBES:
        cont = more[0] if more else ''
        case = dict(fn='render_pair', kind='probe', sig=sig or 'render-probe:%s' % da, a=doc(cont, '', '#t{%s}' % da),
                    b=doc(cont, '', '#t{%s}' % db), note='%s == %s (%s)' % (da, db, why))
        if len(more) > 1:
            case['control'] = dict(a=doc(cont, '', '#t{%s}' % more[1]), b=doc(cont, '', '#t{%s}' % more[2]), sig=more[3])
        fixed.append(case)
    # the witnesses of the open crash findings F126-F128 (a pair of identical documents)
    for rules in ('#t{font-language-override:""}', '#t:nth-child(2n+){color:red}', '#t:nth-child(+){color:red}',
                  'html{--v:inherit;width:var(--v)}', 'html{width:var(--v, inherit)}', '#t{background-image:url("//[::1")}',
                  '@import "//[::1";', '#t{--x:var(--x);width:var(--x)}', '#t{--a:5px;width:calc(var(--a) + max(1px, 2px))}',
                  '#t{grid-template:1px /;grid:/ 1px}'):
        d = doc('', '', rules)
        fixed.append(dict(fn='render_pair', kind='probe', sig='render-probe:%s' % rules, a=d, b=d, note='renders: ' + rules))
    for html in ('<a href="//[::1">a</a>', '<img src="//[::1">'):
        fixed.append(dict(fn='render_pair', kind='probe', sig='render-probe:%s' % html, a=html, b=html, note='renders: ' + html))
    cases = []
    tries = 0
    while len(cases) < n and tries < 20 * n:
        tries += 1
        c = gen_pair(rng, P, gr, bad_pool)
        if c is None:
            continue
        if c['kind'] == 'bad-rule' and not self_contained_rule(c):
            continue
        c['fn'] = 'render_pair'
        cases.append(c)
    return fixed + cases


def stream_render(run, cases, outs):
    by_kind, nboxes, skipped = {}, 0, 0
    seen = set()
    for c, (st, o) in zip(cases, outs):
        k = by_kind.setdefault(c['kind'], [0, 0])
        k[0] += 1
        if st == 'timeout':
            fail(run, 'render does not end: %s' % c['note'], {'stream': 'render', 'case': c}, signature='timeout:render')
            continue
        if st == 'exc':
            sig = crash_sig(o['site'], o)
            if sig not in seen:
                seen.add(sig)
                fail(run, 'rendering raised %s at %s (%s)' % (o['type'], o['site'], c['note'][:200]),
                     {'stream': 'render', 'case': c, 'exc': o}, signature=sig)
            continue
        if o.get('skipped'):
            skipped += 1
            continue
        nboxes += o['boxes']
        if not o['same']:
            k[1] += 1
            sig = o.get('mechanism') or c['sig']
            if sig not in seen:
                seen.add(sig)
                fail(run, 'metamorphic pair differs (%s): %s: %s' % (c['kind'], c['note'][:300], o['diff']),
                     {'stream': 'render', 'case': c, 'diff': o['diff'], 'mechanism': o.get('mechanism')}, signature=sig)
    run.count('render-metamorphic', len(cases), [(c['kind'], c['note']) for c in cases],
              samples=[{'kind': cases[-1]['kind'], 'note': cases[-1]['note'][:300]}] if cases else [])
    run.stream_info('render-metamorphic', pairs_and_differences_by_kind=by_kind, boxes=nboxes, skipped_not_bad=skipped,
                    rule='document pairs rendered with tests.testing_utils (test UA sheet, weasyprint font) and compared '
                         'box by box: type, geometry (1e-6 relative), text, and every computed style value. sh: a shorthand '
                         '(20 families incl. margin/padding/border-*, border, border-radius, flex, columns, gap, flex-flow, '
                         'list-style, text-decoration, page-break-*, word-wrap, font, grid-column/row, background) vs the '
                         'longhands CSS says it stands for (omitted = initial), after a rule giving the longhands other values; '
                         'perm: two orders of the components; units: the same lengths spelled in two absolute units (32 '
                         'properties and @page size/margin); var: var(--x) / fallback / nested / inherited / partial vs the '
                         'substituted text; bad-decl: a declaration that yields nothing inserted anywhere in a rule, a style '
                         'attribute, @page or a parent rule vs absent; bad-rule: one of 70 malformed rules/at-rules (or a stray '
                         'declaration) between two good rules vs absent; probe: the fixed witnesses of the open findings, each with its control pair (a deviation is filed under an open finding only when the pair differs AND the control pair - the same documents without the suspected cause - agrees); compute: any accepted value of any property, the name in another case between two void declarations (all computed values are read). Placement: author rule, style attribute, !important')


# ================================================================================ 5b. one rule with var(), several elements

# The Pending object of a declaration with var() is shared by all the elements its rule matches and by all the
# longhands of a shorthand: what it gives for one element must not depend on the others.
SHARED_DECLS = [
    ('margin-left', 'var(--m)'), ('margin-left', 'var(--m, 3px)'), ('padding', 'var(--p) 2px'), ('padding', '2px var(--p)'),
    ('padding', 'var(--p)'), ('margin', 'var(--m)'), ('margin', '1px var(--m) 3px'), ('border-width', '1px var(--w)'),
    ('border-style', 'var(--s)'), ('border-color', 'var(--c) blue'), ('border', 'var(--w) solid var(--c, black)'),
    ('border-top', 'var(--w) var(--s)'), ('border-left', 'var(--s) var(--c) var(--w)'), ('flex', 'var(--f) 10px'),
    ('flex', 'var(--f)'), ('columns', 'var(--n)'), ('columns', 'var(--n) 50px'), ('font', 'var(--fs) weasyprint'),
    ('font', 'italic var(--fs)/var(--lh) weasyprint'), ('color', 'var(--c)'), ('color', 'var(--c, blue)'),
    ('width', 'var(--u)'), ('width', 'var(--u, 70px)'), ('border-radius', 'var(--r) / 2px'),
    ('text-decoration', 'underline var(--t)'), ('list-style', 'var(--l) inside'), ('background', 'var(--c)'),
    ('outline', 'var(--w) solid'), ('line-height', 'var(--lh)'), ('text-indent', 'var(--m)'),
    ('letter-spacing', 'var(--m)'), ('display', 'var(--d)'), ('font-size', 'var(--fs)'), ('gap', 'var(--m)'),
    ('font-weight', 'var(--fw, bold)'), ('text-align', 'var(--ta)'), ('float', 'var(--fl)'),
    # several references to one property, each with its own fallback
    ('margin-left', 'var(--g, 10px)'), ('padding-left', 'var(--g, 20px)'), ('margin', '0 var(--g, 30px) 0 var(--g, 5px)'),
    ('border-left', 'var(--b, 4px solid)'), ('border-right', 'var(--b, 7px solid)'), ('text-indent', 'var(--g, var(--h, 6px))'),
    ('letter-spacing', 'var(--h, var(--g, 2px))'), ('padding', 'var(--g, 1px) var(--h, 4px) var(--g, 3px)'),
    ('border-width', 'var(--g, 1px) var(--g, 2px) var(--h, var(--g, 5px))'), ('width', 'var(--g, 70px)'),
    ('min-height', 'var(--g, 40px)'),
]
SHARED_VALUES = ['4px', '0', '1em', '10%', '4px 8px', '1px 2px 3px', '1px 2px 3px 4px', '1px 2px 3px 4px 5px', 'red', '#fff',
                 'solid', 'dotted', 'auto', 'none', 'bold', '2', '1.5', '12px', 'large', 'italic', 'thin', 'block',
                 'inline-block', 'foo', '"s"', '2 3', '50px 2', 'underline', 'wavy', 'square', '-1px', '1px solid',
                 'blue', '30px', '100', 'left', 'center', 'rgb(1, 2, 3)', '8px 4px', 'normal', '3', 'medium']
SHARED_PRE = ('padding:7px;margin:5px;border:2px dotted green;color:green;width:150px;flex:2 2 20px;columns:3;'
              'font:bold 14px/20px weasyprint;border-radius:3px;text-decoration:overline;list-style:square;'
              'background:yellow;outline:1px dashed;text-indent:2px;letter-spacing:1px;gap:2px;text-align:right')
# values that are likely valid where the custom property is used (the rest of the time: any of SHARED_VALUES)
SHARED_TYPED = {
    '--m': ['4px', '0', '1em', '30px', '10%', '-1px', 'auto'], '--p': ['4px', '0', '1em', '4px 8px', '1px 2px 3px', '10%'],
    '--w': ['4px', 'thin', 'medium', '0', '1em'], '--s': ['solid', 'dotted', 'none', 'double'],
    '--c': ['red', '#fff', 'blue', 'rgb(1, 2, 3)'], '--f': ['2', '1.5', '0', '3', 'none', 'auto', '2 3'],
    '--n': ['2', '3', '50px', 'auto', '50px 2'], '--fs': ['12px', 'large', '1.5em', '80%'], '--lh': ['1.5', '15px', 'normal'],
    '--u': ['30px', '50%', 'auto', '1em'], '--r': ['4px', '4px 8px', '10%'], '--t': ['wavy', 'red', 'dotted', '2px'],
    '--l': ['square', 'none', 'decimal'], '--d': ['block', 'inline-block', 'none', 'flex'], '--fw': ['bold', '100', 'normal'],
    '--ta': ['left', 'center', 'right', 'justify'], '--fl': ['left', 'right', 'none'],
    '--g': ['3px', '8px', '0', '1em'], '--h': ['9px', '2px', '0'], '--b': ['2px dotted', '5px solid', 'thin double'],
}


def shared_value(rng, name):
    if rng.random() < 0.6 and name in SHARED_TYPED:
        return rng.choice(SHARED_TYPED[name])
    return rng.choice(SHARED_VALUES)


VAR_RE = re.compile(r'var\(\s*(--[\w-]+)')


def _var_at(text, i):
    """text[i:] starts with `var(`: (name, fallback text or None, index after the closing parenthesis)"""
    depth, j, comma = 0, i + 3, None
    while j < len(text):
        ch = text[j]
        if ch == '(':
            depth += 1
        elif ch == ')':
            depth -= 1
            if depth == 0:
                break
        elif ch == ',' and depth == 1 and comma is None:
            comma = j
        j += 1
    inner = text[i + 4:j]
    if comma is None:
        return inner.strip(), None, j + 1
    return text[i + 4:comma].strip(), text[comma + 1:j].strip(), j + 1


def substitute(template, effective, erase_undefined=False):
    """the text of a declaration value after substitution, reference by reference: the property's value when it is
    defined, else that reference's own fallback (itself substituted); None = guaranteed-invalid (an undefined
    property without fallback).  erase_undefined: what finding var:undefined-dropped computes - the var() erased"""
    out, i = '', 0
    while i < len(template):
        if template.startswith('var(', i):
            name, fb, j = _var_at(template, i)
            if name in effective:
                out += effective[name]
            elif fb is not None:
                sub = substitute(fb, effective, erase_undefined)
                if sub is None:
                    return None
                out += sub
            elif not erase_undefined:
                return None
            i = j
        else:
            out += template[i]
            i += 1
    return out


def gen_shared_values(rng, names):
    """custom properties of one element: its own, its parent's"""
    own, parent = {}, {}
    for n in names:
        r = rng.random()
        if r < 0.62:
            own[n] = shared_value(rng, n)
        elif r < 0.80:
            parent[n] = shared_value(rng, n)
        elif r < 0.88:
            own[n] = shared_value(rng, n)
            parent[n] = shared_value(rng, n)
        # else undefined
    return own, parent


def shared_case(decl_list, elems):
    """elems: [(own, parent)] -> the case for impl_c07.shared_pair"""
    body, specs = [], []
    for i, (own, parent) in enumerate(elems):
        eid = 'e%d' % (i + 1)
        st = lambda d: ';'.join('%s:%s' % kv for kv in d.items()).replace('"', '&quot;')
        body.append('<div style="%s"><div class=x id=%s style="%s">ab cd<span>ef</span></div></div>' % (st(parent), eid, st(own)))
        eff = dict(parent)
        eff.update(own)
        specs.append(dict(id=eid, subst=[substitute(v, eff) for _, v in decl_list],
                          erased=[substitute(v, eff, True) for _, v in decl_list]))
    template = ('<style>@page{size:300px 400px;margin:10px}html{font-family:weasyprint;font-size:10px;line-height:12px}'
                'body{margin:0}.x{' + SHARED_PRE + '}@@RULES@@</style><body>' + ''.join(body))
    return dict(fn='shared_pair', template=template, selector='.x', decls=[dict(prop=p, value=v) for p, v in decl_list],
                elems=specs, note='.x{%s} on %s' % (';'.join('%s:%s' % d for d in decl_list),
                                                    [dict(p, **o) for o, p in elems]))


def cases_shared(rng, n):
    cases = [dict(c, fn='shared_pair') for c in corpus('shared')]
    # the same two declarations on every order of (invalid, valid, undefined, other valid)
    kinds = [{'--m': 'red', '--p': 'solid'}, {'--m': '30px', '--p': '4px 8px'}, {}, {'--m': '1em', '--p': '0'}]
    base = [('margin-left', 'var(--m)'), ('padding', 'var(--p) 2px')]
    for perm in itertools.permutations(range(4)):
        cases.append(shared_case(base, [(kinds[k], {}) for k in perm]))
    cases.append(shared_case([('margin-left', 'var(--m, 9px)'), ('padding', 'var(--p) 2px'), ('border', 'var(--w) solid')],
                             [({'--w': 'red'}, {'--m': 'red', '--p': 'solid'}), ({'--w': '3px'}, {'--m': 'red', '--p': '1px'}),
                              ({'--m': '2px'}, {'--w': 'thin'})]))
    while len(cases) < n:
        k = rng.choice([1, 1, 2, 2, 3, 4])
        decl_list = []
        for p, v in rng.sample(SHARED_DECLS, 8):
            if p not in [q for q, _ in decl_list]:
                decl_list.append((p, v))
            if len(decl_list) == k:
                break
        names = sorted({m.group(1) for _, v in decl_list for m in VAR_RE.finditer(v)})
        elems = [gen_shared_values(rng, names) for _ in range(rng.choice([2, 3, 3, 4, 5]))]
        if rng.random() < 0.5:
            # the same element twice around the others: before and after
            elems.append(elems[0])
        cases.append(shared_case(decl_list, elems))
    return cases


def stream_shared(run, cases, outs):
    seen = set()
    differ, nboxes, nelems, verdicts = 0, 0, 0, [0, 0]
    for c, (st, o) in zip(cases, outs):
        data = {'stream': 'shared', 'case': {k: v for k, v in c.items() if k != 'fn'}}
        if st == 'timeout':
            fail(run, 'render does not end: %s' % c['note'][:300], data, signature='timeout:render')
            continue
        if st == 'exc':
            sig = crash_sig(o['site'], o)
            if sig not in seen:
                seen.add(sig)
                fail(run, 'rendering raised %s at %s (%s)' % (o['type'], o['site'], c['note'][:200]), dict(data, exc=o),
                     signature=sig)
            continue
        nboxes += o['boxes']
        nelems += len(c['elems'])
        for v in o['valid']:
            verdicts[1 if v else 0] += 1
        if not o['same']:
            differ += 1
            for sig in (o.get('mechanism') or ['meta:var-shared']):
                if sig not in seen:
                    seen.add(sig)
                    fail(run, 'one rule with var() on several elements differs from the per-element substitution: %s: %s'
                         % (c['note'][:400], o['diff']), dict(data, diff=o['diff'], a=o['a'], b=o['b']), signature=sig)
    run.count('var-shared', len(cases), [c['note'] for c in cases], samples=[cases[-1]['note'][:300]] if cases else [])
    run.stream_info('var-shared', differing=differ, elements=nelems, boxes=nboxes,
                    substituted_declarations_invalid_valid=verdicts,
                    rule='ONE rule .x{...} with 1..4 declarations containing var() (37 templates: longhands, four-sides, '
                         'border, border-<side>, flex, columns, font, border-radius, text-decoration, list-style, background, '
                         'outline, gap) applies to 2..6 elements whose custom properties differ (42 values of all types: valid '
                         'for some, invalid for others; own, inherited from their own parent, overriding it, undefined with and '
                         'without fallback), in random order, the first element often repeated last; all 24 orders of '
                         '(invalid, valid, undefined, other valid) as fixed cases. Reference: the same document with one rule '
                         'per element, each declaration textually substituted when the implementation accepts the literal '
                         'declaration, else every longhand unset (initial/inherit); after a rule giving all longhands other '
                         'values. Whole-document fingerprint (geometry + every computed value of every box)')


def gen_pending_case(rng):
    prop, value = rng.choice(SHARED_DECLS)
    names = sorted({m.group(1) for m in VAR_RE.finditer(value)})
    calls = []
    for _ in range(rng.choice([2, 3, 4, 6, 8])):
        env = {}
        for nm in names:
            if rng.random() < 0.8:
                env[nm] = shared_value(rng, nm)
        calls.append({'env': env, 'key': rng.randrange(12)})
    if rng.random() < 0.4:
        calls.append(dict(calls[0]))          # the first call again, after the others
    return {'fn': 'pending_seq', 'name': prop, 'value': value, 'calls': calls}


def cases_pending(rng, n):
    fixed = [{'fn': 'pending_seq', 'name': 'padding', 'value': 'var(--p) 2px',
              'calls': [{'env': {'--p': 'solid'}, 'key': 0}, {'env': {'--p': '4px 8px'}, 'key': 0},
                        {'env': {'--p': '4px 8px'}, 'key': 3}, {'env': {'--p': 'solid'}, 'key': 1}]},
             {'fn': 'pending_seq', 'name': 'margin-left', 'value': 'var(--m)',
              'calls': [{'env': {'--m': 'red'}, 'key': 0}, {'env': {'--m': '30px'}, 'key': 0}, {'env': {}, 'key': 0},
                        {'env': {'--m': '30px'}, 'key': 0}]},
             {'fn': 'pending_seq', 'name': 'padding', 'value': '2px var(--p)',
              'calls': [{'env': {'--p': '4px'}, 'key': 1}, {'env': {'--p': 'solid'}, 'key': 0},
                        {'env': {'--p': 'solid'}, 'key': 1}]}]
    return ([dict(c, fn='pending_seq') for c in corpus('pending')] + fixed + [gen_pending_case(rng) for _ in range(n)])


PENDING_TYPE = ('bool * string * list (bool * (list (string * Z) * nat) * string) * list (nat * Z * bool) * '
                'list (nat * Z * bool)')


def stream_pending(run, cases, outs):
    IN.reset()
    coq, kept = [], []
    for c, (st, o) in zip(cases, outs):
        if st != 'ok':
            fail(run, 'sequence of Pending.solve calls: harness call failed: %s' % (o,),
                 {'stream': 'pending', 'case': c, 'outcome': o}, signature='crash:pending-harness')
            continue
        if o is None:
            continue
        calls = '[%s]' % '; '.join('(%s, ([%s], %s), %s)' % (
            blit(e), '; '.join('(%s, %d)' % (slit(k), v) for k, v in items), nlit(end), slit(key))
            for e, items, end, key in o['calls'])
        seq = lambda l: '[%s]' % '; '.join('(%s, %d, %s)' % (nlit(code), v, blit(w > 0)) for code, v, w in l)
        coq.append('(%s, %s, %s, %s, %s)' % (blit(o['is_property']), slit(o['shorthand']), calls, seq(o['shared']),
                                              seq(o['fresh'])))
        kept.append((c, o))
    try:
        masks = common.eval_cases('c07pend', HDR + 'Require Import WV.model.C07Pending.\n' + IN.preamble(), PENDING_TYPE,
                                  coq, 'pending_judge', per_file=max(60, len(coq) // 16 + 1))
    except RuntimeError as exc:
        run.oblige('corr:pending-direct', False, str(exc))
        return
    mism = [(c['name'], c['value'], c['calls'], o['shared']) for (c, o), m in zip(kept, masks) if m & 1]
    run.oblige('corr:pending-direct(model run of Pending.solve vs sequences of solve() on one real Pending object)', not mism,
               'first disagreements: %s' % json.dumps(mism[:2])[:3000])
    seen = set()
    for (c, o), m in zip(kept, masks):
        for bit, sig, what in ((2, 'pending:history-dependence',
                                'a solve() call on the shared Pending object gives another result than on a fresh object: '
                                'what one element gets depends on the elements before it'),
                               (4, 'pending:warned-twice', 'more than one warning for one declaration'),
                               (8, 'var:shorthand-partial',
                                'the expander refuses the substituted tokens, yet some longhand gets a value')):
            if m & bit and sig not in seen:
                seen.add(sig)
                k = next((i for i, (a, b) in enumerate(zip(o['shared'], o['fresh'])) if a[:2] != b[:2]), None)
                fail(run, '`%s: %s`: %s (calls %s; shared object: %s; fresh objects: %s%s)'
                     % (c['name'], c['value'], what, [(x['env'], o['keys'][x['key'] % len(o['keys'])]) for x in c['calls']],
                        [x[:1] + x[2:] for x in o['shared']], [x[:1] + x[2:] for x in o['fresh']],
                        '; first difference at call %d' % k if k is not None else ''),
                     {'stream': 'pending', 'case': {k_: v for k_, v in c.items() if k_ != 'fn'}, 'shared': o['shared'],
                      'fresh': o['fresh']}, signature=sig)
    run.count('pending-direct', len(kept), [(c['name'], c['value'], json.dumps(c['calls'], sort_keys=True)) for c, _ in kept],
              samples=[{'decl': '%s: %s' % (kept[-1][0]['name'], kept[-1][0]['value']), 'calls': kept[-1][0]['calls'][:3]}]
              if kept else [])
    ncalls = sum(len(o['shared']) for _, o in kept)
    ninv = sum(1 for _, o in kept for x in o['shared'] if x[0] == 0)
    run.stream_info('pending-direct', calls=ncalls, invalid_calls=ninv,
                    invalid_then_valid=sum(1 for _, o in kept if any(a[0] == 0 and b[0] == 2 for a, b in
                                                                     zip(o['fresh'], o['fresh'][1:]))),
                    rule='the Pending object that preprocess_declarations makes for one of 37 declarations with var(); 2..9 '
                         'calls of solve() on that ONE object, each with another set of custom properties (42 values, undefined '
                         'ones) and another longhand, the first call often repeated last; compared with the model\'s state '
                         'machine (validate() traced as a generator: items yielded, how it ends) and with the same calls on '
                         'fresh objects; warnings counted')


# ================================================================================ 5c. ranges

# the properties of coq/model/C07Ranges.v with a valid, non-initial value each (the previous declaration of the cascade)
RANGE_GOOD = {
    'orphans': '3', 'widows': '3', 'column-count': '2', 'bookmark-level': '2', 'max-lines': '2', 'z-index': '3', 'order': '2',
    'flex-grow': '2', 'flex-shrink': '2', 'padding-top': '3px', 'padding-right': '3px', 'padding-bottom': '3px',
    'padding-left': '3px', 'width': '80px', 'height': '30px', 'min-width': '10px', 'min-height': '10px', 'max-width': '90px',
    'max-height': '90px', 'font-size': '12px', 'flex-basis': '20px', 'column-gap': '4px', 'row-gap': '4px',
    'border-top-width': '4px', 'border-right-width': '4px', 'border-bottom-width': '4px', 'border-left-width': '4px',
    'outline-width': '4px', 'column-width': '50px', 'column-rule-width': '4px', 'margin-top': '6px', 'margin-right': '6px',
    'margin-bottom': '6px', 'margin-left': '6px', 'text-indent': '6px', 'top': '6px', 'right': '6px', 'bottom': '6px',
    'left': '6px', 'letter-spacing': '2px', 'word-spacing': '2px', 'outline-offset': '2px', 'tab-size': '4',
    'font-weight': '700', 'opacity': '0.5', 'line-height': '2',
}
RANGE_TOKENS = ['0', '1', '2', '3', '-1', '-2', '100', '400', '401', '900', '950', '1000', '1001', '99999999999', '0.5', '1.5',
                '1.0', '1e0', '+1', '01', '-0', '+0', '0.0', '1e3', '-0.5', '1e-1', '-100', '999.9', '1000.5', '0.9', '0.99',
                '0px', '1px', '-1px', '-0.5em', '1.5em', '-0px', '10pt', '-1cm', '0%', '50%', '-1%', '150%', '-0%']


def token_desc(text):
    """(kind, value, written as an integer?) of a one-token value, None when it is none of number/length/percentage"""
    import tinycss2
    t = tinycss2.parse_one_component_value(text)
    if t.type == 'number':
        return 0, Fraction(t.representation) if 'e' not in t.representation.lower() else Fraction(t.value), t.int_value is not None
    if t.type == 'percentage':
        return 2, Fraction(t.value), False
    if t.type == 'dimension' and t.lower_unit in ('px', 'pt', 'pc', 'in', 'cm', 'mm', 'q', 'em', 'ex', 'ch', 'rem'):
        return 1, Fraction(t.value), False
    return None


def range_spec(run):
    """the verdicts of the Coq tables for every (property, token): [(prop, text, desc, css?, impl model?)]"""
    items = [(p, t, token_desc(t)) for p in RANGE_GOOD for t in RANGE_TOKENS]
    items = [x for x in items if x[2] is not None]
    coq = ['(%s, %s, %s, %s)' % (common.slit(p), nlit(d[0]), qmk(d[1]), blit(d[2])) for p, _, d in items]
    masks = common.eval_cases('c07rng', HDR + 'Require Import WV.model.C07Ranges.\n', 'string * nat * Q * bool', coq,
                              'range_verdict', per_file=max(100, len(coq) // 16 + 1))
    missing = sorted({p for (p, _, _), m in zip(items, masks) if not m & 4})
    run.oblige('tie:ranges(every probed property is in the Coq table)', not missing, str(missing))
    return [(p, t, d, bool(m & 1), bool(m & 2)) for (p, t, d), m in zip(items, masks)]


def paged_doc(decls):
    lines = '<br>'.join('abcdefgh'[:1 + i % 8] for i in range(12))
    return ('<style>@page{size:100px 50px;margin:0}body{margin:0}p{margin:0;font:10px/10px weasyprint;border-style:solid;'
            'border-width:0;outline-style:solid;position:relative;column-rule-style:solid;%s}</style><p id=t>%s</p>'
            % (decls, lines))


def cases_ranges(rng, spec, thorough):
    direct = [{'fn': 'probe_decl', 'css': '%s:%s' % (p, t)} for p, t, d, css, impl in spec]
    invalid = [(p, t) for p, t, d, css, impl in spec if not css]
    if not thorough:
        by_prop = {}
        for p, t in invalid:
            by_prop.setdefault(p, []).append(t)
        invalid = [(p, t) for p, ts in by_prop.items() for t in rng.sample(ts, min(3, len(ts)))]
        # the lower bounds themselves, always
        invalid += [(p, '0') for p in ('orphans', 'widows', 'column-count', 'bookmark-level', 'max-lines', 'font-weight')]
        invalid += [(p, '-1') for p in ('tab-size', 'line-height', 'flex-grow', 'orphans', 'widows')]
        invalid = sorted(set(invalid))
    pairs = []
    for p, t in invalid:
        good = RANGE_GOOD[p]
        pairs.append(dict(fn='render_pair', kind='range', prop=p, token=t, sig='meta:range:%s' % p,
                          a=paged_doc('%s:%s;%s:%s' % (p, good, p, t)), b=paged_doc('%s:%s' % (p, good)),
                          note='%s:%s;%s:%s == %s:%s' % (p, good, p, t, p, good)))
    return direct, pairs


def stream_ranges(run, spec, direct, douts, pairs, pouts):
    mism, seen = [], set()
    accepted_n = 0
    for (p, t, d, css, impl), (st, o) in zip(spec, douts):
        data = {'stream': 'ranges', 'css': '%s:%s' % (p, t)}
        if st != 'ok':
            fail(run, '`%s:%s` raised %s' % (p, t, o.get('msg') if isinstance(o, dict) else o), dict(data, outcome=o),
                 signature='crash:range:%s' % p)
            continue
        accepted = o['yields'] > 0
        accepted_n += accepted
        if accepted != impl:
            mism.append((p, t, accepted))
        if accepted and not css:
            sig = 'range:%s' % p
            if sig not in seen:
                seen.add(sig)
                fail(run, '`%s: %s` is outside the grammar of %s and is accepted (as %s) instead of dropped with a warning'
                     % (p, t, p, o['names']), data, signature=sig)
        if not accepted and not o['warned'] and 'silent' not in seen:
            seen.add('silent')
            fail(run, '`%s: %s` is dropped without a warning' % (p, t), data, signature='range:dropped-silently')
    run.oblige('corr:ranges(model impl_accepts vs preprocess_declarations, %d tokens x %d properties)'
               % (len(RANGE_TOKENS), len(RANGE_GOOD)), not mism, 'first disagreements (property, token, accepted): %s' % mism[:8])
    differ = 0
    for c, (st, o) in zip(pairs, pouts):
        data = {'stream': 'render', 'case': c}
        if st != 'ok':
            sig = crash_sig(o['site'], o) if st == 'exc' else 'timeout:render'
            if sig not in seen:
                seen.add(sig)
                fail(run, 'rendering %s: %s' % (c['note'], o if st != 'exc' else o['type']), dict(data, exc=o), signature=sig)
            continue
        if not o['same']:
            differ += 1
            sig = c['sig']
            if sig not in seen:
                seen.add(sig)
                fail(run, 'an out-of-range declaration does not vanish: %s: %s' % (c['note'], o['diff']),
                     dict(data, diff=o['diff']), signature=sig)
    run.count('ranges', len(spec) + len(pairs), [(p, t) for p, t, _, _, _ in spec],
              samples=[{'decl': '%s:%s' % (spec[0][0], spec[0][1])}] if spec else [])
    run.stream_info('ranges', declarations=len(spec), accepted=accepted_n,
                    outside_grammar=sum(1 for x in spec if not x[3]), render_pairs=len(pairs), render_differences=differ,
                    rule='%d properties whose value is one number/length/percentage x %d tokens (each bound -1, at, +1, huge, '
                         'negative, non-integer spellings 1.0 1e0 +1 01 -0, lengths and percentages of both signs); the verdict '
                         'of the grammar (css_accepts) and of the validators\' model (impl_accepts) computed in Coq first; '
                         'accepted iff the model says so (correspondence), never accepted outside the grammar (spec), dropped '
                         'with a warning; and for tokens outside the grammar the paginated document `p{prop:good;prop:bad}` '
                         'must render as `p{prop:good}` (12 lines on 50px pages: orphans/widows/columns matter)'
                         % (len(RANGE_GOOD), len(RANGE_TOKENS)))


# ================================================================================ 6. spec probes

# (declaration, is it valid CSS for a property WeasyPrint supports?, signature of the open finding it is the witness
#  of, or None).  The signatures apply to these exact declarations only: any other deviation is a violation.
SPEC_PROBES = [
    # valid
    ('margin: 1px 2px', True, None), ('margin: auto', True, None), ('width: 1in', True, None), ('width: 0', True, None),
    ('width: 1IN', True, None), ('width: 5PX', True, None), ('margin: 1Em 2PT', True, None),
    ('outline: invert solid 2px', True, None), ('outline: red solid 2px', True, None),
    ('flex: 1 0', True, None), ('flex: 2 3 10px', True, None), ('flex: 10px 2 3', True, None), ('flex: none', True, None),
    ('flex-grow: 0', True, None), ('flex-grow: 1.5', True, None), ('color: RED', True, None), ('COLOR: red', True, None),
    ('border-radius: 1px / 2px', True, None), ('border-radius: 1px 2px 3px 4px / 5px', True, None),
    ('columns: 2 10em', True, None), ('columns: auto', True, None), ('columns: auto 40px', True, None),
    ('columns: 40px auto', True, None), ('columns: auto 2', True, None), ('columns: auto auto', True, None), ('font: 12px serif', True, None),
    ('font: italic bold 12px/1.5 a, b', True, None), ('font: normal 12px serif', True, None),
    ('margin: inherit', True, None), ('margin: initial', True, None), ('z-index: -1', True, None),
    ('line-height: 1.5', True, None), ('padding: 0', True, None), ('text-decoration: underline dotted red', True, None),
    ('list-style: square inside', True, None), ('page-break-before: always', True, None),
    ('word-wrap: break-word', True, None), ('border-top: thin', True, None), ('border: solid', True, None),
    ('text-decoration-thickness: from-font', True, None), ('text-decoration-thickness: auto', True, None),
    ('--x: anything [goes] (here)', True, None), ('--x:', False, None), ('width: var(--x)', True, None),
    # invalid
    ('margin: 1px 2px 3px 4px 5px', False, None), ('margin: inherit 1px', False, None),
    ('margin: 1px initial', False, None), ('padding: -1px', False, None), ('width: -1px', False, None),
    ('flex: 2 10px 3', False, None), ('flex-grow: -1', False, None),
    ('flex-shrink: -1', False, None), ('flex: 1 2 3 4', False, None), ('border-radius: 1px /', False, None),
    ('border-radius: / 1px', False, None), ('border-radius: 1px / 2px / 3px', False, None),
    ('border-radius: 1px 2px 3px 4px 5px', False, None), ('border-top: red red', False, None),
    ('border-top: 1px 2px', False, None), ('columns: 1px 2px', False, None), ('columns: 2 3', False, None),
    ('color: 12px', False, None), ('width: red', False, None), ('font: 12px', False, None), ('font: serif', False, None),
    ('font: normal', False, None), ('line-height: -1', False, None), ('column-count: 0', False, None),
    ('column-count: 1.5', False, None), ('z-index: 1.5', False, None), ('margin: 1px,2px', False, None),
    ('width: 10 px', False, None), ('width: 1px 2px', False, None), ('font-size: -1px', False, None),
    ('border-width: -1px', False, None), ('outline-width: -1px', False, None), ('flex-basis: -1px', False, None),
    ('border-style: solid solid solid solid solid', False, None), ('margin:', False, None), ('width: auto auto', False, None),
    ('foo: bar', False, None), ('volume: 3', False, None), ('-webkit-foo: bar', False, None),
]

# pairs that must render alike; the signature applies to these exact pairs only
RENDER_PROBES = [
    # F198 (open): the signature applies to this exact pair
    ('--a:initial;width:var(--a, 7px)', 'width:7px', 'var:initial-custom-property-fallback',
     'a custom property set to `initial` is the guaranteed-invalid value: var() takes the fallback'),
    ('width:3px;width:var(--x,)', 'width:auto', None,
     'var(--x,) has an empty fallback: the declaration is valid, and invalid at computed-value time (= unset)'),
    ('width:3px;width:var(--x 7px)', 'width:3px', None, 'var() without a comma before the fallback is not var(): dropped'),
    # (a, b, signature, why[, container, control a, control b, control signature])
    ('--x:url(pattern.png);background-image:var(--x)', 'background-image:url(pattern.png)', None,
     'a relative url() through var() in a longhand'),
    ('--x:url(pattern.png);list-style-image:var(--x)', 'list-style-image:url(pattern.png)', None,
     'a relative url() through var() in a longhand'),
    ('font-family:var(--u, weasyprint, serif)', 'font-family:weasyprint, serif', None, 'a fallback with commas'),
    ('--a-b:1px;--a_b:2px;width:var(--a-b)', 'width:1px', None, '--a-b is not --a_b'),
    ('--a-b:1px;--a_b:2px;width:var(--a_b)', 'width:2px', None, '--a_b is not --a-b'),
    ('flex:1 0.0', 'flex-grow:1;flex-shrink:0;flex-basis:0px', None, 'a unitless zero is a flex factor', 'display:flex;'),
    ('flex:0e0 1', 'flex-grow:0;flex-shrink:1;flex-basis:0px', None, 'a unitless zero is a flex factor', 'display:flex;'),
    ('--x:1px var(--x);width:var(--x, 7px)', 'width:7px', None, 'a property of a cycle is invalid: the fallback'),
    ('--x:var(--y);--y:var(--x);width:var(--x, 7px)', 'width:7px', None, 'a cycle of two: the fallback'),
    ('width:9px;--x:var(--x);width:var(--x)', 'width:auto', None, 'a cycle without fallback: unset'),
    ('padding:7px;--p:solid;padding:2px var(--p)', 'padding:0', None, 'invalid after substitution: all four sides unset'),
    ('margin:3px;margin:inherit 1px', 'margin:3px', None, 'inherit among several components is invalid'),
    ('flex:3 3 3px;flex:2 10px 3', 'flex:3 3 3px', None, 'a basis between the flex factors is invalid', 'display:flex;'),
    ('width:9px;width:1IN', 'width:96px', None, 'units are case-insensitive'),
    ('outline:invert solid 2px', 'outline-color:invert;outline-style:solid;outline-width:2px', None, 'outline: invert'),
    ('margin-left:var(--gap, 10px);padding-left:var(--gap, 20px)', 'margin-left:10px;padding-left:20px', None,
     'each reference its own fallback'),
    ('margin:0 var(--gap, 30px) 0 var(--gap, 5px)', 'margin:0 30px 0 5px', None, 'each reference its own fallback'),
    ('columns:auto 40px', 'column-width:40px;column-count:auto', None, 'auto stands for the component that is not given'),
    ('columns:40px auto', 'column-width:40px;column-count:auto', None, 'auto stands for the component that is not given'),
    ('columns:auto 2', 'column-width:auto;column-count:2', None, 'auto stands for the component that is not given'),
    ('--x:5px;width:var(--x)', 'width:5px', None, 'plain substitution'),
    ('--x:5px;width:var(--X, 9px)', 'width:9px', None, 'custom property names are case-sensitive'),
]


def cases_probes():
    return [{'fn': 'probe_decl', 'css': css} for css, _, _ in SPEC_PROBES]


def stream_probes(run, cases, outs):
    bad = 0
    for (css, valid, sig), (st, o) in zip(SPEC_PROBES, outs):
        if st != 'ok':
            fail(run, '`%s` raised %s' % (css, o.get('msg') if isinstance(o, dict) else o),
                 {'stream': 'probes', 'css': css, 'outcome': o}, signature='crash:probe:%s' % css)
            continue
        accepted = o['yields'] > 0
        if accepted != valid:
            bad += 1
            fail(run, '`%s` is %s CSS and is %s' % (css, 'valid' if valid else 'invalid',
                                                     'accepted as %s' % o['names'] if accepted else 'dropped'),
                 {'stream': 'probes', 'css': css, 'valid': valid, 'yields': o['names']},
                 signature=sig or 'spec-probe:%s' % css)
        elif sig:
            # the witness of an open finding no longer shows it
            run.stream_info('spec-probes', **{'no_longer_deviating:' + css: sig})
    run.count('spec-probes', len(cases), [c['css'] for c in cases], samples=[cases[0]['css']])
    run.stream_info('spec-probes', deviations=bad,
                    rule='%d hand-written declarations whose validity follows from the CSS specifications (boundaries of '
                         'the modelled shorthands, signs, units, counts); accepted iff valid. The witnesses of the open '
                         'findings are matched by their exact text' % len(SPEC_PROBES))


# ================================================================================ check

def check(run):
    rng = random.Random(run.seed * 7919 + 7)
    thorough = run.tier == 'thorough'
    common.prove(run, 'C07', ['model/C07Full.vo', 'model/C07Var.vo', 'model/C07Units.vo', 'model/C07Pending.vo', 'model/C07Ranges.vo'])
    run.trusted += ['Coq 8.16.1 kernel (coqc); vm_compute for the cases.v evaluation',
                    'tinycss2 (tokeniser/parser) is taken as given: the models start from its nodes',
                    'harness/impl_c07.py: conversion of tinycss2 nodes and validated values (canonical text, sha1) '
                    'and the render fingerprint (Python)']
    run.assumptions += ['the ~200 individual property validators and the shorthands background, font, font-variant, '
                        'grid*, list-style, text-decoration, border-image, mask-border, line-clamp, text-align, gap, '
                        'flex-flow are exercised (oracle + metamorphic streams), not modelled',
                        'nested rules (prelude is not None) belong to C06 and are only covered by the render stream']
    (st, reg), = common.run_impl('impl_c07', 'registry', [None])
    if st != 'ok':
        run.oblige('harness:registry', False, str(reg))
        return
    gr, crashes = build_grammar(run, reg)
    run.oblige('harness:grammar-discovery', not crashes, 'failed for %s' % (crashes[:3],))
    sizes = sorted(len(v) for v in gr.pools.values())
    run.stream_info('grammar-discovery', names=len(gr.names), empty_pools=[n for n in gr.names if not gr.pools[n]],
                    median_pool=sizes[len(sizes) // 2], total_accepted=sum(sizes),
                    rule='for each of the %d names of PROPERTIES and EXPANDERS: which of ~1300 candidate values (generic '
                         'single tokens, idents quoted in its validator, the strings of tests/css/test_validation.py and '
                         'test_expanders.py) the implementation accepts' % len(gr.names))
    try:
        spec = range_spec(run)
    except RuntimeError as exc:
        run.oblige('spec:ranges', False, str(exc))
        spec = []
    rdirect, rpairs = cases_ranges(rng, spec, thorough)
    streams = [('rdirect', rdirect), ('rpairs', rpairs),
               ('pp', cases_pp(rng, gr, 24000 if thorough else 2000)),
               ('dispatch', cases_dispatch(rng, gr, 40000 if thorough else 3000)),
               ('units', cases_units(rng, 4000 if thorough else 300)),
               ('var', cases_var(run, rng, 8000 if thorough else 600)),
               ('render', cases_render(rng, gr, 6000 if thorough else 400)),
               ('probes', cases_probes()),
               ('pending', cases_pending(rng, 6000 if thorough else 700)),
               ('shared', cases_shared(rng, 1000 if thorough else 130))]
    allc = [c for _, cs in streams for c in cs]
    outs = run_multi(allc, limit=240)
    res, k = {}, 0
    for name, cs in streams:
        res[name] = (cs, outs[k:k + len(cs)])
        k += len(cs)
    stream_pp(run, gr, *res['pp'])
    stream_dispatch(run, gr, *res['dispatch'])
    stream_units(run, reg, *res['units'])
    stream_var(run, *res['var'])
    stream_render(run, *res['render'])
    stream_probes(run, *res['probes'])
    stream_pending(run, *res['pending'])
    stream_shared(run, *res['shared'])
    stream_ranges(run, spec, res['rdirect'][0], res['rdirect'][1], res['rpairs'][0], res['rpairs'][1])


def replay(data):
    """re-run the one case of a violation file through the same judge; 1 = it still fails"""
    d = data.get('data', {})
    stream = d.get('stream')
    run = common.Run('C07', 'quick', 0)
    run.known = []
    (st, reg), = common.run_impl('impl_c07', 'registry', [None])
    if st != 'ok':
        print('replay: registry failed', reg)
        return 1

    class G:
        pass
    gr = G()
    gr.reg = reg
    if stream == 'pp':
        cases = [{'fn': 'pp_block', 'css': d['css']}]
        stream_pp(run, gr, cases, run_multi(cases))
    elif stream == 'dispatch':
        cases = [{'fn': 'dispatch_case', 'name': d['name'], 'value': d['value']}]
        stream_dispatch(run, gr, cases, run_multi(cases))
    elif stream == 'var':
        c = d.get('case') or {'env': d['env'], 'value': d['value']}
        cases = [{'fn': 'var_case', 'env': c['env'], 'values': c.get('values') or [c['value']]}]
        stream_var(run, cases, run_multi(cases))
    elif stream == 'units':
        cases = [dict(d['case'], fn='length_case')]
        stream_units(run, reg, cases, run_multi(cases))
    elif stream == 'ranges':
        spec = [x for x in range_spec(run) if '%s:%s' % (x[0], x[1]) == d['css']]
        direct = [{'fn': 'probe_decl', 'css': d['css']}]
        stream_ranges(run, spec, direct, run_multi(direct), [], [])
    elif stream == 'pending':
        cases = [dict(d['case'], fn='pending_seq')]
        stream_pending(run, cases, run_multi(cases))
    elif stream == 'shared':
        cases = [dict(d['case'], fn='shared_pair')]
        stream_shared(run, cases, run_multi(cases, limit=240))
    elif stream == 'render':
        cases = [dict(d['case'], fn='render_pair')]
        stream_render(run, cases, run_multi(cases, limit=240))
    else:
        print('nothing to replay for', stream)
        return 0
    bad = [(n, det[:500]) for n, ok, det in run.obligations if not ok]
    for v in run.violations:
        print('replay: still fails:', v['what'][:500])
    for n, det in bad:
        print('replay: obligation broken:', n, det)
    if not run.violations and not bad:
        print('replay: the case passes now')
    return 1 if (run.violations or bad) else 0
