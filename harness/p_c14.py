"""C14 - paged-media furniture: page boxes, margin boxes, page counters, running strings."""
import random, itertools, math, json, time, os, sys
from fractions import Fraction
import common
from common import qlit, zlit, slit

PRE = ('From Coq Require Import ZArith QArith List String Bool.\n'
       'Require Import WV.model.C14Page WV.model.C14Box WV.model.C14Pages WV.model.C14Pdf WV.model.C14Doc WV.model.C14Margin.\n'
       'Import ListNotations.\nOpen Scope string_scope.\nOpen Scope list_scope.\nOpen Scope Z_scope.\n')
PREQ = PRE + 'Open Scope Q_scope.\n'

NAMES = ['chap', 'app', 'x']


# ------------------------------------------------------------------------------------------ Coq printers

def opt(x, f):
    return 'None' if x is None else '(Some %s)' % f(x)


def blit(b):
    return 'true' if b else 'false'


def sidelit(s):
    return {'left': 'SLeft', 'right': 'SRight'}[s]


def lst(xs, f=lambda x: x):
    return '[%s]' % '; '.join(f(x) for x in xs)


def sel_lit(s):
    side, blank, first, index, name = s
    idx = opt(index, lambda i: '(%s, %s, %s)' % (zlit(i[0]), zlit(i[1]), opt(i[2], slit)))
    return '(mkSel %s %s %s %s %s)' % (opt(side, sidelit), opt(blank, blit), opt(first, blit), idx, opt(name, slit))


def pt_lit(p):
    side, blank, name, index, groups = p
    return '(mkPT %s %s %s %s %s)' % (sidelit(side), blit(blank), slit(name), zlit(index),
                                     lst(groups, lambda g: '(%s, %s)' % (slit(g[0]), zlit(g[1]))))


def spec_lit(sp):
    return '(%s, %s, %s)' % tuple(zlit(x) for x in sp)


def pseudo_lit(p):
    if p[0] == 'nth':
        return '(PNth %s %s %s)' % (zlit(p[1]), zlit(p[2]), opt(p[3], slit))
    return {'left': 'PLeft', 'right': 'PRight', 'blank': 'PBlank', 'first': 'PFirst'}[p[0]]


def oq(x):
    return 'None' if x == 'auto' else '(Some %s)' % qlit(Fraction(x))


# ------------------------------------------------------------------------------------- selector generators

def gen_pseudo(rng):
    r = rng.random()
    if r < 0.2:
        return ('left',)
    if r < 0.4:
        return ('right',)
    if r < 0.55:
        return ('first',)
    if r < 0.7:
        return ('blank',)
    a = rng.choice([0, 0, 1, 1, 2, 2, 3, -1, -2, 5])
    b = rng.choice([0, 1, 1, 2, 3, 4, -1, -3, 7])
    g = rng.choice(NAMES) if rng.random() < 0.35 else None
    return ('nth', a, b, g)


def nth_text(a, b, rng):
    if (a, b) == (2, 0) and rng.random() < 0.3:
        return 'even'
    if (a, b) == (2, 1) and rng.random() < 0.3:
        return 'odd'
    if a == 0 and rng.random() < 0.5:
        return '%d' % b
    sa = {1: 'n', -1: '-n'}.get(a, '%dn' % a) if rng.random() < 0.7 else '%dn' % a
    if b == 0 and rng.random() < 0.5:
        return sa
    return '%s%s%d' % (sa, '+' if b >= 0 else '-', abs(b))


def selector_text(name, pseudos, rng):
    t = name or ''
    for p in pseudos:
        if p[0] == 'nth':
            t += ':nth(%s%s)' % (nth_text(p[1], p[2], rng), ' of %s' % p[3] if p[3] else '')
        else:
            t += ':' + (p[0].upper() if rng.random() < 0.1 else p[0])
    return t


def gen_abstract_selector(rng, nonempty=False):
    name = rng.choice(NAMES) if rng.random() < 0.35 else None
    n = rng.choice([0, 1, 1, 1, 2, 2, 3])
    ps = [gen_pseudo(rng) for _ in range(n)]
    if nonempty and name is None and not ps:
        ps = [gen_pseudo(rng)]
    return name, ps


def py_parse(name, ps):
    """reference of what the abstract selector means (used only to build direct-call inputs)"""
    side = blank = first = index = None
    f, g, h = (1 if name else 0), 0, 0
    for p in ps:
        if p[0] in ('left', 'right'):
            if side and side != p[0]:
                return None
            side = p[0]; h += 1
        elif p[0] == 'blank':
            blank = True; g += 1
        elif p[0] == 'first':
            first = True; g += 1
        else:
            index = [p[1], p[2], p[3]]; g += 1
            if p[3]:
                f += 1
    return [side, blank, first, index, name], [f, g, h]


def gen_page_type(rng, maxindex=12):
    name = rng.choice(['', '', 'chap', 'app', 'x'])
    blank = rng.random() < 0.2
    index = rng.choice([0, 0, 1, 2, 3, 4, 5, rng.randint(0, maxindex)])
    groups = []
    if name and rng.random() < 0.8:
        groups.append([name, rng.randint(0, min(index, 6))])
    if rng.random() < 0.2:
        groups.insert(0, [rng.choice(NAMES), rng.randint(0, 6)])
    return [rng.choice(['left', 'right']), blank, '' if blank and rng.random() < 0.7 else name, index, groups]


# --------------------------------------------------------------------------------------------- box cases

def qs(rng, lo, hi, dens=(1, 1, 1, 2, 3, 4)):
    return str(Fraction(rng.randint(lo, hi), rng.choice(dens)))


def gen_len(rng, auto=0.4, neg=0.1, hi=60):
    r = rng.random()
    if r < auto:
        return 'auto'
    if r < auto + 0.15:
        return '0'
    v = Fraction(rng.randint(0, hi), rng.choice([1, 1, 1, 2, 3]))
    if rng.random() < neg:
        v = -v
    return str(v)


def gen_mbox(rng, kind=None):
    kind = kind or rng.choice(['auto', 'auto', 'auto', 'fixed', 'zero'])
    if kind == 'zero':
        return dict(ma='0', mb='0', inner='0', pb='0', minc='0', maxc='0')
    minc = Fraction(rng.choice([0, 10, 20, 30, 50, 80]), rng.choice([1, 1, 3]))
    maxc = minc + Fraction(rng.choice([0, 0, 10, 40, 70, 150]), rng.choice([1, 1, 7]))
    return dict(ma=gen_len(rng, 0.3, 0.08, 15), mb=gen_len(rng, 0.3, 0.08, 15),
                inner=('auto' if kind == 'auto' else str(Fraction(rng.choice([0, 20, 45, 100, 130, 260]), rng.choice([1, 1, 3])))),
                pb=str(Fraction(rng.choice([0, 0, 4, 10, 21]), rng.choice([1, 1, 2]))), minc=str(minc), maxc=str(maxc))


def mbox_lit(b):
    return '(mkB %s %s %s %s %s %s)' % (oq(b['ma']), oq(b['mb']), oq(b['inner']), qlit(Fraction(b['pb'])),
                                       qlit(Fraction(b['minc'])), qlit(Fraction(b['maxc'])))


def trip_out(o):
    return '(%s, %s, %s)' % tuple(qlit(Fraction(x)) for x in o)


# ----------------------------------------------------------------------------------------- the check proper

_T = [time.time()]


def tick(label):
    if os.environ.get('C14_TIMING'):
        now = time.time()
        sys.stderr.write('[c14 %6.1fs] %s\n' % (now - _T[0], label))
        _T[0] = now


def impl(fn, cases):
    """request: run impl_c14.<fn> on every case (batched with the other streams' requests)"""
    return ('impl', fn, cases)


def coq(tag, pre, ctype, cases, judge, per_file=300):
    """request: evaluate the judge on the cases inside Coq (run concurrently with the other streams' requests);
    the answer is the list of masks or the RuntimeError"""
    return ('eval', tag, pre, ctype, cases, judge, per_file)


def run_stream(run, name, fn, cases, to_coq, ctype, judge, pre=PRE, key=lambda c: json.dumps(c, sort_keys=True, default=str),
               spec_bits=None, rule='', per_file=300, expect_exc=None):
    """generic direct-call correspondence stream (a generator, see drive()): returns list of (case, outcome, mask)"""
    outs = yield impl(fn, cases)
    coq_cases, kept = [], []
    for c, (st, o) in zip(cases, outs):
        if st != 'ok':
            if expect_exc is not None and st == 'exc' and expect_exc(c, o):
                o = None
            else:
                run.fail('%s: %s raised/timeout: %s' % (name, fn, (o or {}).get('type') if isinstance(o, dict) else st),
                         {'stream': name, 'case': c, 'outcome': o}, signature='crash:%s:%s' % (name, (o or {}).get('site') if isinstance(o, dict) else st))
                continue
        coq_cases.append(to_coq(c, o)); kept.append((c, o))
    res = []
    masks = yield coq('c14' + name.replace('-', ''), pre, ctype, coq_cases, judge, per_file)
    if isinstance(masks, Exception):
        run.oblige('corr:' + name, False, str(masks))
        return res
    mism = [(c, o) for (c, o), m in zip(kept, masks) if m & 1]
    run.oblige('corr:%s(model vs implementation)' % name, not mism, 'first disagreements: %s' % (mism[:3],))
    for (c, o), m in zip(kept, masks):
        res.append((c, o, m))
    for bit, what, sig in (spec_bits or []):
        bad = [(c, o) for (c, o), m in zip(kept, masks) if m & bit]
        for c, o in bad[:2]:
            run.fail('%s: %s' % (name, what), {'stream': name, 'case': c, 'impl_output': o, 'bit': bit}, signature=sig)
    run.count(name, len(kept), [key(c) for c, _ in kept],
              samples=[{'case': kept[0][0], 'impl': kept[0][1]}] if kept else [])
    run.stream_info(name, rule=rule)
    return res


def drive(run, tasks):
    """run the stream generators in lockstep: all their implementation requests go through ONE worker pool, all their
    Coq evaluations run concurrently"""
    from concurrent.futures import ThreadPoolExecutor
    pending = {}
    for i, t in enumerate(tasks):
        try:
            pending[i] = (t, next(t))
        except StopIteration:
            pass
    while pending:
        answers = {}
        impl_reqs = [(i, req) for i, (t, req) in pending.items() if req[0] == 'impl']
        if impl_reqs:
            allc, spans = [], []
            for i, req in impl_reqs:
                spans.append((i, len(allc), len(allc) + len(req[2])))
                allc += [{'fn': req[1], 'case': c} for c in req[2]]
            outs = common.run_impl('impl_c14', 'multi', allc, limit=40, chunksize=6)
            for i, a, b in spans:
                answers[i] = outs[a:b]
            tick('implementation calls: %d' % len(allc))
        else:
            def ev(req):
                try:
                    return common.eval_cases(*req[1:6], per_file=req[6]) if req[4] else []
                except RuntimeError as exc:
                    return exc
            jobs = []
            for i, (t, req) in pending.items():
                for k, r in enumerate(req[1] if req[0] == 'evals' else [req]):
                    jobs.append((i, k, r))
            with ThreadPoolExecutor(max_workers=8) as ex:
                results = list(ex.map(lambda j: ev(j[2]), jobs))
            for (i, k, _), r in zip(jobs, results):
                if pending[i][1][0] == 'evals':
                    answers.setdefault(i, []).append(r)
                else:
                    answers[i] = r
            tick('coq evaluations: %d jobs' % len(jobs))
        for i, ans in answers.items():
            t = pending[i][0]
            try:
                pending[i] = (t, t.send(ans))
            except StopIteration:
                del pending[i]


def check(run):
    rng = random.Random(run.seed * 7919 + 14)
    T = run.tier == 'thorough'
    common.prove(run, 'C14', ['model/C14Page.vo', 'model/C14Box.vo', 'model/C14Pages.vo', 'model/C14Pdf.vo',
                              'model/C14Doc.vo', 'model/C14Margin.vo'])
    run.trusted += ['Coq 8.16.1 kernel (coqc); vm_compute for the cases.v evaluation',
                    'hand-written Gallina models coq/model/C14*.v (tied to /repo only by the correspondence streams of this check)',
                    'harness stubs (SimpleNamespace/Fraction), test doubles for min/max_content_width in cvd-direct, '
                    'document generators and the Python part of the render monitors',
                    'translator tie of compute_variable_dimension (gen/GenPage.v, proofs/C14_gen_variable*.v): the slice '
                    'starts after `box_a, box_b, box_c = side_boxes`; trusted: the adapters built before it are three '
                    'distinct objects of a plain subclass of OrientedBox (py2coq checks the shape of the two statements '
                    'and of the classes), so the loops over side_boxes are the same statements on box_a, box_b, box_c; '
                    'reads of sugar / outer / outer_min_content_size / outer_max_content_size are calls of the regenerated '
                    'getters (resolved by name) and `x.outer = e` is the regenerated setter body; min_content_size / '
                    'max_content_size (properties of the subclasses calling the preferred-width code) are inputs; '
                    'restore_box_attributes is an oracle returning None',
                    'translator tie of StyleFor._page_type_match (gen/GenPageSel.v, proofs/C14_gen_match.v): the whole function; '
                    'trusted: PageSelectorType / PageType are attribute bags (namedtuples) holding what model/C14Page.v says '
                    '(side strings, booleans, integers, None, the :nth triple, the groups as pairs); integers are exact '
                    'rationals n/1, so `offset / a >= 0` is decided on the exact quotient (CPython: a correctly rounded float of '
                    'the same sign, OverflowError beyond 1e308) and `%` is the primitive PMod of base/Py.v (floor-mod)',
                    'translator tie of _standardize_page_based_counters (gen/GenPageCounters.v, proofs/C14_gen_counters.v): '
                    'the whole function; trusted: the style dictionary is an attribute bag with string keys mutated in '
                    'place (read back from the final environment), counter properties are \'auto\' or sequences of '
                    '(name, value) pairs; the loop over the three property names is unrolled by py2coq (constant keys)']
    run.assumptions += ['margin-box content layout is ordinary block layout (C05); the min/max-content widths of margin boxes are '
                        'inputs of the model (computed by the harness from the words in the render streams)',
                        'counter(pages) needs the relayout loop (C15): only its displayed value is monitored here',
                        'page groups (:nth(.. of name)) : the group index bookkeeping of _update_page_groups is monitored on simple documents, not modelled']
    tick('prove')
    tasks = [t(run, random.Random(run.seed * 7919 + 14 + 1000 * k), T) for t, k in TASKS]
    drive(run, tasks)


def t_nth(run, rng, T):
    # ---- 1a. :nth(an+b) exhaustively on a small domain, real _page_type_match
    R = 9 if T else 6
    N = 60 if T else 41
    blocks = [dict(a=a, b=b, n=N) for a in range(-R, R + 1) for b in range(-R, R + 1)]
    outs = yield impl('nth_block', blocks)
    cases = []
    for blk, (st, o) in zip(blocks, outs):
        if st != 'ok':
            run.fail('nth-direct: _page_type_match raised', {'stream': 'nth-direct', 'case': blk, 'outcome': o},
                     signature='crash:nth')
            continue
        for i, v in enumerate(o):
            cases.append((blk['a'], blk['b'], i, v))
    masks = yield coq('c14nth', PRE, 'Z * Z * Z * bool',
                              ['(%s, %s, %s, %s)' % (zlit(a), zlit(b), zlit(i), blit(v)) for a, b, i, v in cases],
                              'nth_judge2', per_file=1500)
    if isinstance(masks, Exception):
        run.oblige('corr:nth-direct', False, str(masks))
    else:
        run.oblige('corr:nth-direct(model vs _page_type_match)', not any(m & 1 for m in masks),
                   str([c for c, m in zip(cases, masks) if m & 1][:5]))
        for c, m in zip(cases, masks):
            if m & 2:
                run.fail('nth-direct: :nth(%dn+%d) on page index %d answered %s, css says otherwise' % c,
                         {'stream': 'nth-direct', 'case': {'a': c[0], 'b': c[1], 'index': c[2]}, 'impl_output': c[3]},
                         signature='nth-semantics')
                break
        run.count('nth-direct', len(cases), [(a, b, i) for a, b, i, _ in cases],
                  samples=[{'a': 2, 'b': 1, 'index': 4, 'impl': True}])
        run.stream_info('nth-direct', rule='exhaustive a,b in -%d..%d, index 0..%d; true answers: %d' % (
            R, R, N - 1, sum(1 for c in cases if c[3])))


def t_match(run, rng, T):
    # ---- 1b. whole selectors against page types
    cases = []
    while len(cases) < (6000 if T else 1500):
        name, ps = gen_abstract_selector(rng)
        parsed = py_parse(name, ps)
        if parsed is None:
            continue
        sel = parsed[0]
        if rng.random() < 0.15:         # values the parser never produces but the function accepts
            sel = list(sel); sel[1] = rng.choice([None, True, False]); sel[2] = rng.choice([None, True, False])
        pt = gen_page_type(rng)
        if rng.random() < 0.5:          # make the page likely to match
            if sel[0]: pt[0] = sel[0]
            if sel[4]: pt[2] = sel[4]
            if sel[3] is not None and sel[3][2]:
                pt[2] = sel[3][2]; pt[4] = [[sel[3][2], rng.randint(0, 6)]]
            if sel[1]: pt[1] = True
            if sel[2]: pt[3] = 0
        cases.append(dict(sel=sel, pt=pt))
    res = yield from run_stream(run, 'match-direct', 'page_match', cases,
                     lambda c, o: '(%s, %s, %s)' % (sel_lit(c['sel']), pt_lit(c['pt']), blit(o)),
                     'selector * page_type * bool', 'match_judge',
                     spec_bits=[(2, '_page_type_match answers against the meaning of the page selector (side, :blank, :first, name, '
                                    ':nth(an+b [of group]))', 'page-selector-match')],
                     rule='random selectors (side/blank/first/name/:nth/:nth of) x page types biased to match')
    run.stream_info('match-direct', matched=sum(1 for c, o, m in res if o))


def t_parse(run, rng, T):
    # ---- 1c. parse_page_selectors: text -> (selector, specificity)
    cases = []
    while len(cases) < (2500 if T else 700):
        name, ps = gen_abstract_selector(rng)
        cases.append(dict(name=name, ps=[list(p) for p in ps], prelude=selector_text(name, ps, rng)))
    outs = yield impl('parse_selectors', cases)
    coqc_, kept = [], []
    for c, (st, o) in zip(cases, outs):
        if st != 'ok':
            run.fail('parse-direct: parse_page_selectors raised', {'stream': 'parse-direct', 'case': c, 'outcome': o},
                     signature='crash:parse')
            continue
        if o is not None and len(o) != 1:
            run.oblige('corr:parse-direct(one selector in, one out)', False, str((c, o)))
            continue
        if o is None:
            out = 'None'
        else:
            d = o[0]
            out = '(Some (%s, %s))' % (sel_lit([d['side'], d['blank'], d['first'], d['index'], d['name']]),
                                      spec_lit(d['specificity']))
        coqc_.append('(%s, %s, %s)' % (opt(c['name'], slit), lst(c['ps'], pseudo_lit), out)); kept.append((c, o))
    masks = yield coq('c14parse', PRE, 'option string * list pseudo * option (selector * spec3)', coqc_,
                              'parse_judge')
    if isinstance(masks, Exception):
        run.oblige('corr:parse-direct', False, str(masks))
    else:
        mism = [(c, o) for (c, o), m in zip(kept, masks) if m & 1]
        run.oblige('corr:parse-direct(model vs parse_page_selectors)', not mism, str(mism[:3]))
        for (c, o), m in zip(kept, masks):
            if m & 2:
                run.fail('parse-direct: specificity of "@page %s" is not (named, first/blank/nth, left/right) counts' % c['prelude'],
                         {'stream': 'parse-direct', 'case': c, 'impl_output': o}, signature='page-specificity')
                break
        run.count('parse-direct', len(kept), [c['prelude'] for c, _ in kept], samples=[kept[0][0]['prelude'], kept[-1][0]['prelude']])
        run.stream_info('parse-direct', rule='abstract selector -> CSS text (several spellings of an+b) -> tinycss2 -> parse_page_selectors',
                        rejected=sum(1 for c, o in kept if o is None))


def t_cascade(run, rng, T):
    # ---- 1d. add_page_declarations on a stub StyleFor
    def gen_sheets():
        sheets = []
        for _ in range(rng.choice([1, 1, 2, 3])):
            rules = []
            for _ in range(rng.choice([1, 2, 3, 5])):
                sels = []
                for _ in range(rng.choice([1, 1, 2])):
                    while True:
                        parsed = py_parse(*gen_abstract_selector(rng))
                        if parsed is not None:
                            break
                    if rng.random() < 0.5:
                        parsed = ([None, None, None, None, None], [0, 0, 0]) if rng.random() < 0.5 else parsed
                    sels.append([parsed[1], rng.choice([None, None, '@top-left', '@bottom-center']), parsed[0]])
                decls = [[rng.choice(['margin_top', 'margin_left', 'content', 'size']), rng.randint(1, 999),
                          rng.random() < 0.25] for _ in range(rng.choice([1, 1, 2, 3]))]
                rules.append(dict(selectors=sels, decls=decls))
            sheets.append(dict(origin=rng.choice(['author', 'author', 'user', 'user agent']),
                               ss=(None if rng.random() < 0.85 else [0, 0, 0]), rules=rules))
        return sheets
    cases = []
    while len(cases) < (1500 if T else 400):
        pt = gen_page_type(rng, 6)
        cases.append(dict(sheets=gen_sheets(), pt=pt, times=rng.choice([1, 1, 2])))
    OR = {'author': 'Author', 'user': 'User', 'user agent': 'UA'}

    def cascade_coq(c, o):
        sh = lst(c['sheets'], lambda s: '(%s, %s, %s)' % (
            lst(s['rules'], lambda r: '(%s, %s)' % (
                lst(r['selectors'], lambda x: '(%s, %s, %s)' % (spec_lit(x[0]), opt(x[1], slit), sel_lit(x[2]))),
                lst(r['decls'], lambda d: '(%s, %s, %s)' % (slit(d[0]), zlit(d[1]), blit(d[2]))))),
            OR[s['origin']], opt(s['ss'], spec_lit)))
        out = lst(o, lambda e: '((%s, %s), (%s, (%s, %s)))' % (opt(e[0], slit), slit(e[1]), zlit(e[2]), zlit(e[3]), spec_lit(e[4])))
        return '(%s, %s, %s)' % (sh, pt_lit(c['pt']), out)
    res = yield from run_stream(run, 'cascade-direct', 'cascade', cases, cascade_coq,
                     'list sheet * page_type * list (key * (Z * weight))', 'cascade_judge',
                     spec_bits=[(2, 'the entry kept for some (margin box, property) is not the last declaration of maximal '
                                    '(origin/importance, specificity) among matching rules', 'page-cascade-winner')],
                     rule='1-3 sheets (origins author/user/UA, !important, sheet specificity) x 1-5 rules x selectors; '
                          'real add_page_declarations on a stub StyleFor, applied once or twice', per_file=100)
    run.stream_info('cascade-direct', entries=sum(len(o) for c, o, m in res))


def t_pwh(run, rng, T):
    # ---- 2a. page_width / page_height (page_width_or_height + min/max wrapper)
    cases = []
    for ma, inner, mb in itertools.product(['auto', '7', '-3'], ['auto', '40', '130'], ['auto', '0', '12']):
        for vertical in (False, True):
            cases.append(dict(cb='100', pb='6', ma=ma, inner=inner, mb=mb, minw='0', maxw='inf', vertical=vertical))
    while len(cases) < (3000 if T else 700):
        mn = rng.choice(['0', '0', '0', qs(rng, 0, 120)])
        mx = rng.choice(['inf', 'inf', 'inf', qs(rng, 0, 200)])
        cases.append(dict(cb=qs(rng, 0, 300), pb=qs(rng, 0, 40), ma=gen_len(rng, 0.35, 0.15), inner=gen_len(rng, 0.4, 0, 250),
                          mb=gen_len(rng, 0.35, 0.15), minw=mn, maxw=mx, vertical=rng.random() < 0.5))
    yield from run_stream(run, 'pwh-direct', 'pwh', cases,
               lambda c, o: '((%s, %s), (%s, %s, %s), (%s, %s), (%s, %s, %s))' % (
                   qlit(Fraction(c['cb'])), qlit(Fraction(c['pb'])), oq(c['ma']), oq(c['inner']), oq(c['mb']),
                   qlit(Fraction(c['minw'])), ('None' if c['maxw'] == 'inf' else '(Some %s)' % qlit(Fraction(c['maxw']))),
                   oq(o[0]), oq(o[1]), oq(o[2])),
               '(Q * Q) * (oq * oq * oq) * (Q * oq) * (oq * oq * oq)', 'pwh_judge', pre=PREQ,
               key=lambda c: (c['ma'] == 'auto', c['inner'] == 'auto', c['mb'] == 'auto', c['minw'] != '0', c['maxw'] != 'inf', c['vertical'], c['cb']),
               spec_bits=[(2, 'page box: margins + padding/border + content size do not add up to the page size '
                              '(or a specified margin was changed)', 'page-content-area')],
               rule='27 auto patterns x horizontal/vertical + random rationals incl. negative margins, min/max sizes')


def t_cfd(run, rng, T):
    # ---- 2b. compute_fixed_dimension
    cases = []
    for ma, inner, mb in itertools.product(['auto', '10', '-4'], ['auto', '30', '140'], ['auto', '0', '25']):
        for tol in (True, False):
            for outer in ('100', '20'):
                cases.append(dict(outer=outer, pb='8', ma=ma, inner=inner, mb=mb, tol=tol, vertical=(tol and outer == '20')))
    while len(cases) < (5000 if T else 1200):
        cases.append(dict(outer=qs(rng, 0, 200), pb=qs(rng, 0, 40), ma=gen_len(rng, 0.35, 0.15), inner=gen_len(rng, 0.4, 0, 250),
                          mb=gen_len(rng, 0.35, 0.15), tol=rng.random() < 0.5, vertical=rng.random() < 0.5))
    yield from run_stream(run, 'cfd-direct', 'cfd', cases,
               lambda c, o: '((%s, %s), (%s, %s, %s), %s, %s)' % (
                   qlit(Fraction(c['outer'])), qlit(Fraction(c['pb'])), oq(c['ma']), oq(c['inner']), oq(c['mb']), blit(c['tol']),
                   'None' if o is None else '(Some %s)' % trip_out(o)),
               '(Q * Q) * (oq * oq * oq) * bool * option (Q * Q * Q)', 'cfd_judge', pre=PREQ,
               key=lambda c: (c['ma'] == 'auto', c['inner'] == 'auto', c['mb'] == 'auto', c['tol'], c['vertical'],
                              c['outer'], c['pb']),
               spec_bits=[(2, 'margin box fixed dimension: margins + padding/border + inner size != outer size, a '
                              'specified inner size was changed, or an auto inner size is negative', 'margin-box-fixed-sum')],
               expect_exc=lambda c, o: False,
               rule='27 auto patterns x top_or_left x over/under-constrained + random rationals incl. negative margins')


def t_cvd(run, rng, T):
    # ---- 2c. compute_variable_dimension, horizontal exact
    cases = []
    kinds = ['auto', 'fixed', 'zero']
    for ka, kb, kc in itertools.product(kinds, kinds, kinds):
        for avail in ('60', '150', '400', '1000'):
            for gen_b in (True, False):
                b = gen_mbox(rng, kb if gen_b else 'zero')
                cases.append(dict(avail=avail, boxes=[gen_mbox(rng, ka), b, gen_mbox(rng, kc)], gen_b=gen_b))
    while len(cases) < (8000 if T else 2200):
        gen_b = rng.random() < 0.6
        a, c = gen_mbox(rng), gen_mbox(rng)
        b = gen_mbox(rng) if gen_b else gen_mbox(rng, 'zero')
        if rng.random() < 0.3:     # exactly at a branch boundary
            def omin(x): return Fraction(x['pb']) + sum(Fraction(x[k]) for k in ('ma', 'mb') if x[k] != 'auto') + Fraction(x['minc'] if x['inner'] == 'auto' else x['inner'])
            def omax(x): return Fraction(x['pb']) + sum(Fraction(x[k]) for k in ('ma', 'mb') if x[k] != 'auto') + Fraction(x['maxc'] if x['inner'] == 'auto' else x['inner'])
            f = rng.choice([omin, omax])
            avail = str(f(b) + 2 * max(f(a), f(c)) if gen_b else f(a) + f(c))
        else:
            avail = qs(rng, 0, 700)
        cases.append(dict(avail=avail, boxes=[a, b, c], gen_b=gen_b))
    CVT = 'Q * (mbox * mbox * mbox) * bool * option ((Q * Q * Q) * (Q * Q * Q) * (Q * Q * Q))'

    def cvd_coq(c, o):
        return '(%s, (%s, %s, %s), %s, %s)' % (
            qlit(Fraction(c['avail'])), mbox_lit(c['boxes'][0]), mbox_lit(c['boxes'][1]), mbox_lit(c['boxes'][2]), blit(c['gen_b']),
            'None' if o is None else '(Some (%s, %s, %s))' % tuple(trip_out(x) for x in o))
    res = yield from run_stream(run, 'cvd-direct', 'cvd', cases, cvd_coq, CVT, 'cvd_judge', pre=PREQ,
                     key=lambda c: (tuple(b['inner'] == 'auto' for b in c['boxes']), c['gen_b'], c['avail'],
                                    tuple(b['minc'] for b in c['boxes'])),
                     spec_bits=[(2, 'margin boxes of one side: the outer min-content/explicit sizes fit in the side but the '
                                    'computed boxes do not (A or C reaches into the centred B, or A+C exceed the side)',
                                 'margin-box-variable-fit')],
                     rule='27 auto/fixed/absent patterns x 4 available sizes x centre generated or not + random rationals '
                          '(negative margins, min=max, sizes exactly on the branch boundaries); test doubles for min/max_content_width')
    run.stream_info('cvd-direct', fit_premise_true=sum(1 for c, o, m in res if fits_py(c)))


def t_cvd_vertical(run, rng, T):
    CVT = 'Q * (mbox * mbox * mbox) * bool * option ((Q * Q * Q) * (Q * Q * Q) * (Q * Q * Q))'

    def cvd_coq(c, o):
        return '(%s, (%s, %s, %s), %s, %s)' % (
            qlit(Fraction(c['avail'])), mbox_lit(c['boxes'][0]), mbox_lit(c['boxes'][1]), mbox_lit(c['boxes'][2]), blit(c['gen_b']),
            'None' if o is None else '(Some (%s, %s, %s))' % tuple(trip_out(x) for x in o))
    # vertical adapter (min 0, max 1e6 as floats): approximate comparison
    vcases = []
    while len(vcases) < (1200 if T else 300):
        gen_b = rng.random() < 0.6
        def vb(kind=None):
            x = gen_mbox(rng, kind)
            if x['inner'] != '0' or x['pb'] != '0':
                x['minc'], x['maxc'] = '0', '1000000'
            for k in ('ma', 'mb', 'pb', 'inner'):
                if x[k] != 'auto':
                    x[k] = str(Fraction(int(Fraction(x[k]) * 4), 4))
            return x
        vcases.append(dict(avail=str(Fraction(rng.randint(0, 2800), 4)), boxes=[vb(), vb() if gen_b else vb('zero'), vb()],
                           gen_b=gen_b, vertical=True))
    yield from run_stream(run, 'cvd-vertical-direct', 'cvd', vcases, cvd_coq, CVT, 'cvd_judge_approx', pre=PREQ + CVD_APPROX,
               key=lambda c: (tuple(b['inner'] == 'auto' for b in c['boxes']), c['gen_b'], c['avail']),
               rule='VerticalBox adapter (min-content 0, max-content 1e6 as floats): dyadic inputs, tolerance 1/1000')


def t_counters(run, rng, T):
    # ---- 3a. page counter
    def gen_cstyle(p_touch):
        st = {}
        for k in ('counter_set', 'counter_reset', 'counter_increment'):
            if rng.random() > p_touch:
                st[k] = 'auto'
            else:
                st[k] = [[rng.choice(['page', 'page', 'pages', 'foo']), rng.randint(-3, 12)] for _ in range(rng.choice([0, 1, 1, 2]))]
        return st
    cases = []
    while len(cases) < (2000 if T else 500):
        n = rng.choice([1, 2, 3, 5, 8, 15])
        p = rng.choice([0.0, 0.1, 0.3])
        cases.append(dict(styles=[gen_cstyle(p) for _ in range(n)], margin=gen_cstyle(rng.choice([0, 0.3]))))

    def cs_lit(st):
        def o(x):
            return 'None' if x == 'auto' else '(Some %s)' % lst(x, lambda nv: '(%s, %s)' % (slit(nv[0]), zlit(nv[1])))
        return '(mkCS %s %s %s)' % (o(st['counter_set']), o(st['counter_reset']), o(st['counter_increment']))
    yield from run_stream(run, 'counters-direct', 'counters', cases,
               lambda c, o: '(%s, %s, (%s, %s))' % (lst(c['styles'], cs_lit), cs_lit(c['margin']),
                                                    lst(o[0], lambda v: opt(v, zlit)), opt(o[1], zlit)),
               'list cstyle * cstyle * (list (option Z) * option Z)', 'counters_judge',
               rule='1..15 pages; counter-set/reset/increment on page/pages/foo with probability 0/0.1/0.3 per page; real '
                    '_standardize_page_based_counters + build.update_counters on the page state, then a margin box')


def t_strings(run, rng, T):
    # ---- 3b. get_string_or_element_for
    KW = {'first': 'KFirst', 'start': 'KStart', 'last': 'KLast', 'first-except': 'KFirstExcept'}
    cases = []
    nid = [0]
    while len(cases) < (6000 if T else 1500):
        npages = rng.choice([1, 2, 3, 5, 8])
        store = []
        for _ in range(npages):
            k = rng.choice([0, 0, 0, 1, 1, 2, 3])
            l = []
            for _ in range(k):
                nid[0] += 1
                l.append(nid[0] % 97)
            store.append(l)
        chain = [rng.choice([[], [], ['x'], ['s'], ['x', 's']]) for _ in range(rng.choice([1, 2, 3, 4]))]
        cases.append(dict(store=store, cur=rng.randint(1, npages + 1), kw=rng.choice(list(KW)), chain=chain))
    yield from run_stream(run, 'strings-direct', 'strings', cases,
               lambda c, o: '(%s, %d%%nat, %s, %s, %s)' % (lst(c['store'], lambda l: lst(l, zlit)), c['cur'], KW[c['kw']],
                                                           blit(any('s' in n for n in c['chain'])), opt(o, zlit)),
               'sstore * nat * keyword * bool * option Z', 'strings_judge',
               spec_bits=[(2, 'string()/element(): value differs from css-gcpm (first/start/last/first-except, entry value)',
                           'gcpm-string-keyword')],
               rule='stores of 1..8 pages with 0..3 assignments each, every keyword, first-child chains with/without the name; '
                    'real LayoutContext.get_string_or_element_for on stubs', per_file=400)


CVD_APPROX = '''
Definition cvd_judge_approx (c : Q * (mbox * mbox * mbox) * bool * option ((Q * Q * Q) * (Q * Q * Q) * (Q * Q * Q))) : nat :=
  let '(avail, (a, b, c0), gen_b, out) := c in
  match compute_variable_dimension avail a b c0 gen_b, out with
  | Ok (a', b', c'), Some (oa, ob, oc) =>
      if mbox_out_near a' oa && mbox_out_near b' ob && mbox_out_near c' oc then 0%nat else 1%nat
  | Ok _, None => 1%nat
  | _, Some _ => 1%nat
  | _, None => 0%nat
  end.
'''


def cs_lit(st):
    def o(x):
        return 'None' if x == 'auto' else '(Some %s)' % lst(x, lambda nv: '(%s, %s)' % (slit(nv[0]), zlit(nv[1])))
    return '(mkCS %s %s %s)' % (o(st['counter_set']), o(st['counter_reset']), o(st['counter_increment']))


def fits_py(c):
    def omin(x):
        return Fraction(x['pb']) + sum(Fraction(x[k]) for k in ('ma', 'mb') if x[k] != 'auto') + \
            Fraction(x['minc'] if x['inner'] == 'auto' else x['inner'])
    a, b, cc = c['boxes']
    av = Fraction(c['avail'])
    if not all(Fraction(x['minc']) <= Fraction(x['maxc']) for x in c['boxes']):
        return False
    return (omin(b) + 2 * max(omin(a), omin(cc)) <= av) if c['gen_b'] else (omin(a) + omin(cc) <= av)


# ============================================================================================ render streams

BASE = ('html{font-family:weasyprint;font-size:10px;line-height:10px;%s}'
        'body{margin:0}.l{height:10px}h1{font-size:10px;margin:0;font-weight:normal}p{margin:0}')
BRK = {'page': 'BPage', 'left': 'BLeft', 'right': 'BRight', 'recto': 'BRecto', 'verso': 'BVerso', 'any': 'BAny', None: 'BAny'}
LET = 'abcdefgh'


def code(k):
    return LET[(k // 8) % 8] + LET[k % 8] + LET[(k // 64) % 8]


def gen_pages_doc(rng, maxpages):
    ltr = rng.random() < 0.65
    root_break = rng.choice([None, None, None, 'left', 'right', 'recto', 'verso'])
    m = rng.choice([3, 4, 5])
    nsec = rng.choice([1, 2, 3, 4, 5, 6])
    sections = []
    budget = maxpages
    for i in range(nsec):
        k = None if i == 0 else rng.choice(['page', 'left', 'right', 'left', 'right', 'recto', 'verso'])
        name = rng.choice(['', '', 'chap', 'app'])
        n = rng.choice([1, 2, m, m + 1, 2 * m, 2 * m + 1])
        pages = -(-n // m)
        if pages + 1 > budget:
            break
        budget -= pages + 1
        sections.append((k, name, n))
    # rules
    rules = [dict(sels=[(None, [])], decls=[('margin_left', 20, False), ('margin_right', 20, False)], mdecls=[])]
    for r in range(rng.choice([0, 1, 2, 3, 4, 6])):
        nsel = rng.choice([1, 1, 2, 2, 3])
        sels = []
        for _ in range(nsel):
            name, ps = gen_abstract_selector(rng, nonempty=(nsel > 1))
            if name == 'x':
                name = 'chap'
            ps = [(p[0], p[1], p[2], ('chap' if p[3] == 'x' else p[3])) if p[0] == 'nth' else p for p in ps]
            sels.append((name, ps))
        decls = []
        if rng.random() < 0.7:
            decls.append(('margin_left', rng.choice([10, 15, 25, 30, 35, 40, 45]), rng.random() < 0.2))
        if rng.random() < 0.4:
            decls.append(('margin_right', rng.choice([10, 15, 25, 30, 35, 40, 45]), rng.random() < 0.2))
        if rng.random() < 0.25:
            prop = rng.choice(['counter_increment', 'counter_increment', 'counter_reset', 'counter_set'])
            v = rng.randint(0, 9) + (1000 if rng.random() < 0.2 else 0)
            decls.append((prop, v, rng.random() < 0.15))
        mdecls = [('content', r + 1, rng.random() < 0.15)] if rng.random() < (0.8 if nsel > 1 else 0.5) else []
        if not decls and not mdecls:
            decls.append(('margin_left', 30, False))
        rules.append(dict(sels=sels, decls=decls, mdecls=mdecls))
    return pages_doc(ltr, root_break, m, sections, rules, rng)


def pages_doc(ltr, root_break, m, sections, rules, rng):
    H = m * 10 + 30
    css = ''
    for r in rules:
        def dtext(d):
            name, v, imp = d
            if name.startswith('margin'):
                t = '%s:%dpx' % (name.replace('_', '-'), v)
            elif name == 'content':
                t = 'content:"%s"' % code(v)
            else:
                t = '%s:%s %d' % (name.replace('_', '-'), 'other' if v >= 1000 else 'page', v % 1000)
            return t + (' !important' if imp else '')
        body = ';'.join(dtext(d) for d in r['decls'])
        if r['mdecls']:
            body += ';@top-left{%s}' % ';'.join(dtext(d) for d in r['mdecls'])
        if r is rules[0]:
            body = ('size:200px %dpx;margin-top:10px;margin-bottom:20px;' % H) + body + \
                ';@bottom-center{content:counter(page) "/" counter(pages)}'
        css += '@page %s{%s}\n' % (', '.join(selector_text(n, ps, rng) for n, ps in r['sels']), body)
    css += BASE % ('direction:%s;%s' % ('ltr' if ltr else 'rtl', 'break-before:%s' % root_break if root_break else ''))
    body = ''
    for i, (k, name, n) in enumerate(sections):
        st = []
        if k:
            st.append('break-before:%s' % k)
        if name:
            st.append('page:%s' % name)
        body += '<section id="s%d" style="%s">%s</section>' % (i, ';'.join(st), '<div class="l">aa</div>' * n)
    return dict(html='<style>%s</style>%s' % (css, body), ltr=ltr, root_break=root_break, m=m, sections=sections, rules=rules)


def drule_lit(r):
    return '(%s, %s, %s)' % (
        lst(r['sels'], lambda s: '(%s, %s)' % (opt(s[0], slit), lst(s[1], pseudo_lit))),
        lst(r['decls'], lambda d: '(%s, %s, %s)' % (slit(d[0]), zlit(d[1]), blit(d[2]))),
        lst(r['mdecls'], lambda d: '(%s, %s, %s)' % (slit(d[0]), zlit(d[1]), blit(d[2]))))


def doc_case(d, o):
    """Coq case of doc_judge for one rendered document"""
    def obs(p):
        tl = p['texts'].get('@top-left', '')
        ids = [r + 1 for r in range(len(d['rules']) - 1) if code(r + 1) == tl]
        cnt = p['texts'].get('@bottom-center', '/').split('/')[0]
        return '(%s, %s, %s, %s)' % (zlit(int(round(p['ml']))), zlit(int(round(p['mr']))), zlit(ids[0] if ids else (0 if tl == '' else -1)),
                                     opt(int(cnt) if cnt.lstrip('-').isdigit() else None, zlit))
    return '(%s, (20, 20), %s, %s)' % (
        lst(d['rules'], drule_lit),
        lst(o, lambda p: pt_lit([p['side'], p['blank'], p['name'], p['index'], p['groups']])), lst(o, obs))


DOC_T = 'list drule * (Z * Z) * list page_type * list page_obs'


def judge_pages_doc(doc, pages):
    """Python part of the monitor; returns list of (signature, message)"""
    bad = []
    # predicted content pages: (section index, page within section)
    content = []
    for i, (k, name, n) in enumerate(doc['sections']):
        for j in range(-(-n // doc['m'])):
            content.append((i, j))
    cpages = [p for p in pages if not p['blank']]
    if len(cpages) != len(content):
        return [('harness:pagination-prediction', 'predicted %d pages with content, got %d' % (len(content), len(cpages)))]
    N = len(pages)
    ci = 0
    prev_blank = False
    for idx, p in enumerate(pages):
        if p['index'] != idx:
            bad.append(('page-index', 'page %d has index %r' % (idx, p['index'])))
        tot = p['texts'].get('@bottom-center', '')
        if '/' not in tot or tot.split('/')[1] != str(N):
            bad.append(('counter-pages', 'page %d shows %r, document has %d pages' % (idx, tot, N)))
        if abs(p['width'] - (200 - p['ml'] - p['mr'])) > 1e-6 or abs(p['root_x'] - p['ml']) > 1e-6 or abs(p['root_y'] - p['mt']) > 1e-6 \
                or abs(p['height'] - (doc['m'] * 10)) > 1e-6:
            bad.append(('page-content-area', 'page %d: content area %sx%s at (%s,%s), margins l%s r%s t%s b%s' % (
                idx, p['width'], p['height'], p['root_x'], p['root_y'], p['ml'], p['mr'], p['mt'], p['mb'])))
        if p['blank']:
            if p['nlines'] or p['ids']:
                bad.append(('blank-page-has-content', 'blank page %d has content' % idx))
            if p['name'] != '':
                bad.append(('blank-page-name', 'blank page %d has name %r' % (idx, p['name'])))
            prev_blank = True
            continue
        si, j = content[ci]
        ci += 1
        k, name, n = doc['sections'][si]
        if p['name'] != name:
            bad.append(('page-name', 'page %d (section %d) has name %r, expected %r' % (idx, si, p['name'], name)))
        exp_ids = ['s%d' % si] if j == 0 else []
        if p['ids'] != exp_ids:
            bad.append(('harness:pagination-prediction', 'page %d holds %s, expected %s' % (idx, p['ids'], exp_ids)))
        exp_groups = [[name, j]] if name else []
        if p['groups'] != exp_groups:
            bad.append(('page-groups', 'page %d (page %d of section %d, named %r): page groups %s, expected %s' % (
                idx, j + 1, si, name, p['groups'], exp_groups)))
        prev_blank = False
    return bad


def gen_strings_doc(rng, maxpages):
    m = rng.choice([3, 4, 5])
    items = []
    nlines = 0
    k = 0
    target = rng.randint(1, maxpages) * m
    while nlines < target:
        r = rng.random()
        if r < 0.25:
            k += 1
            wrap = rng.random() < 0.3
            items.append(('h', k, wrap))
            nlines += 1
            if rng.random() < 0.3 and nlines < target:
                k += 1
                items.append(('h', k, False))
                nlines += 1
        else:
            n = rng.choice([1, 1, 2, 3, m, m + 1])
            items.append(('p', n))
            nlines += n
    H = m * 10 + 40
    css = ('@page{size:200px %dpx;margin:20px 10px;'
           '@top-left{content:string(s, first)}@top-center{content:string(s, start)}@top-right{content:string(s, last)}'
           '@bottom-left{content:string(s, first-except)}@bottom-right{content:string(s)}}' % H)
    css += BASE % '' + 'h1{string-set:s content()}'
    body = ''
    for it in items:
        if it[0] == 'h':
            h = '<h1 class="h" id="%s">%s</h1>' % (code(it[1]), code(it[1]))
            body += '<div>%s</div>' % h if it[2] else h
        else:
            body += '<div class="l">aa</div>' * it[1]
    return dict(html='<style>%s</style>%s' % (css, body), m=m, items=items)


WORDS = ['a', 'bb', 'ccc', 'dddd', 'eeeee', 'ffffff', 'gggggggg', 'hhhhhhhhhhhh']
SIDES = {'top': ['left', 'center', 'right'], 'bottom': ['left', 'center', 'right'],
         'left': ['top', 'middle', 'bottom'], 'right': ['top', 'middle', 'bottom']}
CORNERS = ['top-left-corner', 'top-right-corner', 'bottom-left-corner', 'bottom-right-corner']


def gen_marginbox_doc(rng):
    W, H = rng.choice([(400, 300), (300, 400), (600, 200), (240, 240)])
    pm = {s: rng.choice([0, 20, 40, 50, 60, 80]) for s in ('top', 'right', 'bottom', 'left')}
    ppad = rng.choice([0, 0, 3])
    pbor = rng.choice([0, 0, 2])
    boxes = {}
    dens = rng.choice([0.15, 0.4, 0.7, 1.0])
    for at in ['%s-%s' % (a, b) for a in SIDES for b in SIDES[a]] + CORNERS:
        if rng.random() > dens:
            continue
        r = rng.random()
        if r < 0.1:
            b = dict(content=rng.choice(['normal', 'none']), words=None)
        elif r < 0.2:
            b = dict(content='""', words=[])
        else:
            words = [rng.choice(WORDS) for _ in range(rng.choice([1, 1, 2, 3, 5, 9]))]
            b = dict(content='"%s"' % ' '.join(words), words=words)
        for prop in ('width', 'height'):
            b[prop] = 'auto' if rng.random() < 0.75 else rng.choice([0, 10, 30, 60, 100, 250])
        for sd in ('left', 'right', 'top', 'bottom'):
            b['margin_' + sd] = rng.choice([0, 0, 0, 'auto', 4, 10]) if rng.random() < 0.35 else 0
            if rng.random() < 0.03:
                b['margin_' + sd] = -6
            b['padding_' + sd] = rng.choice([0, 0, 0, 2, 5, 12]) if rng.random() < 0.4 else 0
            b['border_' + sd] = rng.choice([0, 0, 1, 3]) if rng.random() < 0.25 else 0
        boxes[at] = b
    page = dict(width='auto', height='auto', min_width=0, max_width='inf', min_height=0, max_height='inf')
    if rng.random() < 0.3:
        for sd in ('top', 'right', 'bottom', 'left'):
            if rng.random() < 0.4:
                pm[sd] = 'auto'
        if rng.random() < 0.6:
            page['width'] = rng.choice([100, 150, 200, W - 50])
        if rng.random() < 0.5:
            page['height'] = rng.choice([80, 120, H - 60])
        if rng.random() < 0.3:
            page['min_width'] = rng.choice([120, 260, W + 40])
        if rng.random() < 0.3:
            page['max_width'] = rng.choice([90, 180, 300])
        if rng.random() < 0.2:
            page['max_height'] = rng.choice([60, 150])
    css = '@page{size:%dpx %dpx;margin:%s %s %s %s;padding:%dpx;border:%dpx solid;' % (
        W, H, *[('auto' if pm[sd] == 'auto' else '%dpx' % pm[sd]) for sd in ('top', 'right', 'bottom', 'left')], ppad, pbor)
    for k, v in page.items():
        if v not in ('auto', 'inf', 0):
            css += '%s:%dpx;' % (k.replace('_', '-'), v)
    for at, b in boxes.items():
        d = ['content:%s' % b['content']]
        for prop in ('width', 'height'):
            if b[prop] != 'auto':
                d.append('%s:%dpx' % (prop, b[prop]))
        for sd in ('left', 'right', 'top', 'bottom'):
            if b['margin_' + sd] != 0:
                d.append('margin-%s:%s' % (sd, 'auto' if b['margin_' + sd] == 'auto' else '%dpx' % b['margin_' + sd]))
            if b['padding_' + sd]:
                d.append('padding-%s:%dpx' % (sd, b['padding_' + sd]))
            if b['border_' + sd]:
                d.append('border-%s:%dpx solid' % (sd, b['border_' + sd]))
        css += '@%s{%s}' % (at, ';'.join(d))
    css += '}' + BASE % ''
    return dict(html='<style>%s</style><p>aa</p>' % css, W=W, H=H, pm=pm, ppad=ppad, pbor=pbor, boxes=boxes, page=page)


ZERO_BOX = dict(content=None, words=None)


def side_case(doc, page, prefix):
    """Coq case for one side of the page, or None when no box of the side is generated"""
    vertical = prefix in ('left', 'right')
    ats = ['%s-%s' % (prefix, s) for s in SIDES[prefix]]
    recs = {b['at'][1:]: b for b in page['boxes']}
    gen = [(a in doc['boxes'] and doc['boxes'][a]['words'] is not None) for a in ats]
    if not any(gen):
        return None
    a_, b_ = ('top', 'bottom') if vertical else ('left', 'right')
    dim = 'height' if vertical else 'width'
    avail = (page['height'] + page['pt'] + page['pb'] + page['bt'] + page['bb']) if vertical else \
        (page['width'] + page['pl'] + page['pr'] + page['bl'] + page['br'])
    start = page['mt'] if vertical else page['ml']
    mboxes, outs, poss = [], [], []
    for a, g in zip(ats, gen):
        if not g:
            mboxes.append('(mkB (Some 0) (Some 0) (Some 0) 0 0 0)')
            outs.append('(0, 0, 0)'); poss.append('0')
            continue
        b = doc['boxes'][a]
        pb = b['padding_' + a_] + b['padding_' + b_] + b['border_' + a_] + b['border_' + b_]
        if vertical:
            minc, maxc = 0, 1000000
        else:
            minc = max([len(w) for w in b['words']] + [0]) * 10
            maxc = (sum(len(w) for w in b['words']) + max(len(b['words']) - 1, 0)) * 10
        mboxes.append('(mkB %s %s %s %s %s %s)' % (oq(str(b['margin_' + a_])), oq(str(b['margin_' + b_])), oq(str(b[dim])),
                                                   qlit(pb), qlit(minc), qlit(maxc)))
        r = recs.get(a)
        if r is None:
            return ('missing', a)
        if vertical:
            outs.append('(%s, %s, %s)' % (qlit(Fraction(r['mt'])), qlit(Fraction(r['h'])), qlit(Fraction(r['mb']))))
            poss.append(qlit(Fraction(r['y']) - Fraction(start)))
        else:
            outs.append('(%s, %s, %s)' % (qlit(Fraction(r['ml'])), qlit(Fraction(r['w'])), qlit(Fraction(r['mr']))))
            poss.append(qlit(Fraction(r['x']) - Fraction(start)))
    return '(%s, (%s), (%s), (%s), (%s))' % (qlit(Fraction(avail)), ', '.join(mboxes), ', '.join(blit(g) for g in gen),
                                             ', '.join(outs), ', '.join(poss))


def judge_marginbox_doc(doc, page):
    """Python part: which boxes exist, where the margin areas are, text wrapping; sizes go through Coq"""
    bad = []
    E = 1e-6
    exp = sorted('@' + a for a, b in doc['boxes'].items() if b['words'] is not None)
    got = sorted(b['at'] for b in page['boxes'])
    if exp != got:
        bad.append(('margin-box-generated-iff-content', 'generated %s, expected %s' % (got, exp)))
    extra = doc['ppad'] + doc['pbor']
    if abs(page['root_x'] - (page['ml'] + extra)) > E or abs(page['root_y'] - (page['mt'] + extra)) > E \
            or abs(page['root_mw'] - page['width']) > E:
        bad.append(('page-content-area', 'root box at (%s, %s) width %s; page margins l%s t%s, padding+border %s, content width %s' % (
            page['root_x'], page['root_y'], page['root_mw'], page['ml'], page['mt'], extra, page['width'])))
    bw = page['width'] + 2 * extra
    bh = page['height'] + 2 * extra
    area = {'top': (page['ml'], 0), 'bottom': (page['ml'], page['mt'] + bh), 'left': (0, page['mt']), 'right': (page['ml'] + bw, page['mt'])}
    for r in page['boxes']:
        at = r['at'][1:]
        if at.endswith('corner'):
            x0 = 0 if 'left' in at else page['ml'] + bw
            y0 = 0 if 'top' in at else page['mt'] + bh
            if abs(r['x'] - x0) > E or abs(r['y'] - y0) > E:
                bad.append(('margin-box-corner-position', '@%s at (%s, %s), corner area starts at (%s, %s)' % (at, r['x'], r['y'], x0, y0)))
        else:
            prefix = at.split('-')[0]
            x0, y0 = area[prefix]
            if prefix in ('top', 'bottom') and abs(r['y'] - y0) > E:
                bad.append(('margin-box-side-position', '@%s at y=%s, its margin area starts at y=%s' % (at, r['y'], y0)))
            if prefix in ('left', 'right') and abs(r['x'] - x0) > E:
                bad.append(('margin-box-side-position', '@%s at x=%s, its margin area starts at x=%s' % (at, r['x'], x0)))
        b = doc['boxes'][at]
        if b['words'] and (at.startswith('top') or at.startswith('bottom')) and not at.endswith('corner'):
            maxc = (sum(len(w) for w in b['words']) + len(b['words']) - 1) * 10
            minc = max(len(w) for w in b['words']) * 10
            # (a line whose right edge has a negative x loses 1e-9*|x| of its width in split_inline_box: not judged here)
            if r['w'] >= maxc - E and r['nlines'] != 1 and r['x'] >= 0:
                bad.append(('margin-box-needless-wrap', '@%s: width %s >= max-content %s but %d lines' % (at, r['w'], maxc, r['nlines'])))
            if r['w'] >= minc - E and any(lw > r['w'] + E for lw in r['line_w']):
                bad.append(('margin-box-line-overflow', '@%s: a line is wider (%s) than the box (%s)' % (at, max(r['line_w']), r['w'])))
            if b['width'] == 'auto' and r['w'] < minc - E:
                bad.append(('margin-box-below-min-content', '@%s: auto width %s < min-content %s' % (at, r['w'], minc)))
    return bad


def fixed_cases(doc, page):
    """Coq cases (fixed_render_judge) for the fixed dimension(s) of every generated margin box"""
    out = []
    for r in page['boxes']:
        at = r['at'][1:]
        b = doc['boxes'][at]
        prefix = at.split('-')[0]
        dims = []
        if at.endswith('corner'):
            dims = [('v', page['mt'] if 'top' in at else page['mb'], 'top' in at), ('h', page['ml'] if 'left' in at else page['mr'], 'left' in at)]
        elif prefix in ('top', 'bottom'):
            dims = [('v', page['mt'] if prefix == 'top' else page['mb'], prefix == 'top')]
        else:
            dims = [('h', page['ml'] if prefix == 'left' else page['mr'], prefix == 'left')]
        for axis, outer, tol in dims:
            a_, b_, dim = ('top', 'bottom', 'height') if axis == 'v' else ('left', 'right', 'width')
            pb = b['padding_' + a_] + b['padding_' + b_] + b['border_' + a_] + b['border_' + b_]
            used = (r['mt'], r['h'], r['mb']) if axis == 'v' else (r['ml'], r['w'], r['mr'])
            out.append(('((%s, %s), (%s, %s, %s), %s, (%s, %s, %s))' % (
                qlit(Fraction(outer)), qlit(pb), oq(str(b['margin_' + a_])), oq(str(b[dim])), oq(str(b['margin_' + b_])), blit(tol),
                *[qlit(Fraction(x)) for x in used]), at, axis))
    return out


def page_cases(doc, page):
    """Coq cases (page_render_judge) for the two dimensions of the page box"""
    pg, pm = doc['page'], doc['pm']
    extra = 2 * (doc['ppad'] + doc['pbor'])
    def mx(v):
        return 'None' if v == 'inf' else '(Some %s)' % qlit(v)
    return [
        '((%s, %s), (%s, %s, %s), (%s, %s), (%s, %s, %s))' % (
            qlit(doc['W']), qlit(extra), oq(str(pm['left'])), oq(str(pg['width'])), oq(str(pm['right'])), qlit(pg['min_width']), mx(pg['max_width']),
            qlit(Fraction(page['ml'])), qlit(Fraction(page['width'])), qlit(Fraction(page['mr']))),
        '((%s, %s), (%s, %s, %s), (%s, %s), (%s, %s, %s))' % (
            qlit(doc['H']), qlit(extra), oq(str(pm['top'])), oq(str(pg['height'])), oq(str(pm['bottom'])), qlit(pg['min_height']), mx(pg['max_height']),
            qlit(Fraction(page['mt'])), qlit(Fraction(page['height'])), qlit(Fraction(page['mb'])))]


PAGE_SIZES_MM = {'a5': (148, 210), 'a4': (210, 297), 'a3': (297, 420), 'b5': (176, 250), 'b4': (250, 353),
                 'jis-b5': (182, 257), 'jis-b4': (257, 364)}
PAGE_SIZES_IN = {'letter': (8.5, 11), 'legal': (8.5, 14), 'ledger': (11, 17)}


def gen_pdf_doc(rng):
    W, H = rng.choice([(100, 100), (120, 80), (200, 333)])
    sym = rng.random() < 0.6
    if rng.random() < 0.15:
        bl = bt = br = bb = 0
    else:
        bt = rng.choice([0, 4, 10, 20, 40])
        bb = bt if sym else rng.choice([0, 4, 10, 20, 40])
        bl, br = rng.choice([0, 4, 10, 20, 40]), rng.choice([0, 4, 10, 20, 40])
    zoom = rng.choice([0.5, 1, 2, 3.7])
    n = rng.choice([1, 1, 2])
    marks = rng.choice(['', '', 'marks:crop cross;'])
    css = '@page{size:%dpx %dpx;margin:10px;bleed:%dpx %dpx %dpx %dpx;%s}' % (W, H, bt, br, bb, bl, marks)
    if rng.random() < 0.3:
        css += '@page :first{bleed:%dpx}' % rng.choice([0, 8, 30])
    html = '<style>%s</style>' % css + '<p>a</p>' + '<p style="break-before:page">b</p>' * (n - 1)
    return dict(html=html, zoom=zoom)


def t_pages_render(run, rng, T):
    maxpages = 40 if T else 15
    docs = [gen_pages_doc(rng, maxpages) for _ in range(600 if T else 150)]
    # a selector list whose body has page declarations and a margin box; pages 1 (:first), 2 (:left), 3 (neither)
    docs[0] = pages_doc(True, None, 3, [(None, '', 3), ('page', '', 3), ('page', '', 2)],
                        [dict(sels=[(None, [])], decls=[('margin_left', 20, False), ('margin_right', 20, False)], mdecls=[]),
                         dict(sels=[(None, [('first',)]), (None, [('left',)])], decls=[('margin_left', 45, False), ('margin_right', 35, False)],
                              mdecls=[('content', 1, False)])], rng)
    outs = yield impl('pages_render', [{'html': d['html']} for d in docs])
    side_cases, doc_cases, kept = [], [], []
    harness_bad = []
    npages = nblank = 0
    sig_seen = {}
    for d, (st, o) in zip(docs, outs):
        if st != 'ok':
            run.fail('pages-render: render %s' % (o['type'] if st == 'exc' else st), {'stream': 'pages-render', 'html': d['html'], 'outcome': o},
                     signature='crash:%s' % ((o or {}).get('site'),) if st == 'exc' else 'timeout')
            continue
        npages += len(o); nblank += sum(1 for p in o if p['blank'])
        for sig, msg in judge_pages_doc(d, o):
            if sig.startswith('harness:'):
                harness_bad.append(msg + '\n' + d['html'])
                break
            if sig_seen.setdefault(sig, 0) < 2:
                run.fail('pages-render: ' + msg, {'stream': 'pages-render', 'html': d['html'], 'clause': sig, 'doc': strip_doc(d)}, signature=sig)
            sig_seen[sig] += 1
        breaks = []
        for i, (k, name, n) in enumerate(d['sections']):
            for j in range(-(-n // d['m'])):
                if (i, j) != (0, 0):
                    breaks.append(BRK[k] if j == 0 else 'BAny')
        side_cases.append('(%s, %s, %s, %s)' % (blit(d['ltr']), BRK[d['root_break']], lst(breaks),
                                               lst(o, lambda p: '(%s, %s)' % (sidelit(p['side']), blit(p['blank'])))))

        doc_cases.append(doc_case(d, o))
        kept.append(d)
    run.oblige('harness:pagination-prediction(pages-render documents paginate as the generator assumes)', not harness_bad,
               '%d documents; first: %s' % (len(harness_bad), harness_bad[0] if harness_bad else ''))
    masks, masks2 = yield ('evals', [
        coq('c14sides', PRE, 'bool * brk * list brk * list (side * bool)', side_cases, 'sides_judge', per_file=20),
        coq('c14doc', PRE, DOC_T, doc_cases, 'doc_judge', per_file=12)])
    if isinstance(masks, Exception):
        run.oblige('corr:pages-render/sides', False, str(masks))
    else:
        bad = [d for d, m in zip(kept, masks) if m & 1]
        run.oblige('corr:pages-render/sides(model of remake_page sides vs rendered page types)', not bad,
                   'first: %s' % (bad[0]['html'] if bad else ''))
        for d, m in zip(kept, masks):
            if m & 2:
                run.fail('pages-render: page sides do not alternate / a forced side is not honoured / stray blank page',
                         {'stream': 'pages-render', 'html': d['html'], 'clause': 'forced-side', 'doc': strip_doc(d)}, signature='forced-side')
                break
    if isinstance(masks2, Exception):
        run.oblige('corr:pages-render/cascade+counter', False, str(masks2))
    else:
        shown = 0
        for d, m in zip(kept, masks2):
            if m & 2 and shown < 2:
                shown += 1
                run.fail('pages-render: some page does not get the margins / @top-left content / counter(page) that its @page rules '
                         'give when every selector of a selector list stands for its own rule with the same body',
                         {'stream': 'pages-render', 'html': d['html'], 'clause': 'page-rules-reference', 'doc': strip_doc(d)},
                         signature='page-rules-reference')
        bad = [d for d, m in zip(kept, masks2) if m & 1]
        run.oblige('corr:pages-render/cascade+counter(selectors, specificity, cascade, page counter vs rendered margins, '
                   'margin-box content and counter(page))', not bad, 'first: %s' % (bad[0]['html'] if bad else ''))
    run.count('pages-render', len(kept), [d['html'] for d in kept], samples=[kept[0]['html'][:700]] if kept else [])
    run.stream_info('pages-render', pages=npages, blank_pages=nblank, clauses_hit=sig_seen,
                    rule='1..%d pages: 1-6 sections with forced page/left/right/recto/verso breaks and named pages, ltr/rtl, root '
                         'break-before, 0-6 extra @page rules with random selectors (name, :first, :blank, :left, :right, :nth, '
                         ':nth of), margin-left/right, counter-*, @top-left content, !important' % maxpages)


def t_strings_render(run, rng, T):
    maxpages = 40 if T else 15
    docs = [gen_strings_doc(rng, maxpages) for _ in range(400 if T else 100)]
    # an element with string-set that continues on following pages assigns once, where it starts
    sdocs = []
    for _ in range(60 if T else 16):
        m = rng.choice([3, 4])
        before, inside, after = rng.randint(0, m - 1), rng.randint(m + 1, 3 * m), rng.randint(1, m)
        css = ('@page{size:200px %dpx;margin:20px 10px;@top-left{content:string(s, first)}@top-center{content:string(s, start)}'
               '@top-right{content:string(s, last)}@bottom-left{content:string(s, first-except)}}' % (m * 10 + 40)) + BASE % ''
        sdocs.append(dict(html='<style>%s</style>%s<div style="string-set:s \'ab\'">%s</div>%s' % (
            css, '<div class="l">aa</div>' * before, '<div class="l">aa</div>' * inside, '<div class="l">aa</div>' * after),
            m=m, before=before, inside=inside, after=after))
    outs = yield impl('strings_render', [{'html': d['html']} for d in docs + sdocs])
    outs, souts = outs[:len(docs)], outs[len(docs):]
    KWAT = [('@top-left', 'KFirst'), ('@top-center', 'KStart'), ('@top-right', 'KLast'), ('@bottom-left', 'KFirstExcept'),
            ('@bottom-right', 'KFirst')]
    cases, meta = [], []
    for d, (st, o) in zip(docs, outs):
        if st != 'ok':
            run.fail('strings-render: render %s' % st, {'stream': 'strings-render', 'html': d['html'], 'outcome': o},
                     signature='crash:%s' % ((o or {}).get('site'),) if st == 'exc' else 'timeout')
            continue
        ids = {code(it[1]): it[1] for it in d['items'] if it[0] == 'h'}
        allheads = [h for p in o for h in p['heads']]
        if allheads != [code(it[1]) for it in d['items'] if it[0] == 'h']:
            run.oblige('harness:strings-headings-observed', False, '%s vs %s\n%s' % (allheads, d['items'], d['html']))
            continue
        store = lst(o, lambda p: lst(p['heads'], lambda h: zlit(ids[h])))
        for pi, p in enumerate(o):
            for at, kw in KWAT:
                t = p['texts'].get(at, '')
                val = ids.get(t) if t else None
                if t and val is None:
                    val = -1
                cases.append('(%s, %d%%nat, %s, %s, %s)' % (store, pi + 1, kw, blit(p['first_is_head']), opt(val, zlit)))
                meta.append((d, pi, at))
    masks = yield coq('c14strr', PRE, 'sstore * nat * keyword * bool * option Z', cases, 'strings_judge', per_file=400)
    if isinstance(masks, Exception):
        run.oblige('corr:strings-render', False, str(masks))
    else:
        bad = [x for x, m in zip(meta, masks) if m & 1]
        run.oblige('corr:strings-render(model of get_string_or_element_for vs margin box texts)', not bad,
                   'first: page %s %s of %s' % ((bad[0][1] + 1, bad[0][2], bad[0][0]['html']) if bad else ('', '', '')))
        for (d, pi, at), m in zip(meta, masks):
            if m & 2:
                run.fail('strings-render: %s on page %d differs from css-gcpm' % (at, pi + 1),
                         {'stream': 'strings-render', 'html': d['html'], 'page': pi + 1, 'box': at}, signature='gcpm-string-keyword')
                break
    outs = souts
    nsplit = 0
    for d, (st, o) in zip(sdocs, outs):
        if st != 'ok':
            run.fail('strings-split-render: render %s' % st, {'stream': 'strings-render', 'html': d['html'], 'outcome': o},
                     signature='crash:%s' % ((o or {}).get('site'),) if st == 'exc' else 'timeout')
            continue
        first_page = d['before'] // d['m']          # 0-based page where the element starts
        for pi, p in enumerate(o):
            nsplit += 1
            t = p['texts']
            if pi < first_page:
                exp = ('', '', '', '')
            elif pi == first_page:
                exp = ('ab', 'ab' if d['before'] % d['m'] == 0 else '', 'ab', '')
            else:
                exp = ('ab', 'ab', 'ab', 'ab')
            got = (t.get('@top-left', ''), t.get('@top-center', ''), t.get('@top-right', ''), t.get('@bottom-left', ''))
            if got != exp:
                run.fail('strings-render: page %d of an element with string-set continuing from page %d shows first/start/last/'
                         'first-except = %s, css-gcpm gives %s' % (pi + 1, first_page + 1, got, exp),
                         {'stream': 'strings-render', 'html': d['html'], 'page': pi + 1},
                         signature='string-set-reassigned-by-continuation' if pi > first_page else 'gcpm-string-keyword')
                break
    run.count('strings-render', len(cases) + nsplit, [c for c in cases], samples=[docs[0]['html'][:600]])
    run.stream_info('strings-render', rule='1..%d pages; single-line headings with string-set at random positions (some wrapped in a '
                    'div, some consecutive); five margin boxes showing first/start/last/first-except/default' % maxpages)


def t_marginbox_render(run, rng, T):
    docs = [gen_marginbox_doc(rng) for _ in range(1000 if T else 260)]
    outs = yield impl('marginbox_render', [{'html': d['html']} for d in docs])
    cases, meta, fcases, fmeta, pcases, pmeta = [], [], [], [], [], []
    nb = 0
    sig_seen = {}
    for d, (st, o) in zip(docs, outs):
        if st != 'ok':
            run.fail('marginbox-render: render %s' % st, {'stream': 'marginbox-render', 'html': d['html'], 'outcome': o},
                     signature='crash:%s' % ((o or {}).get('site'),) if st == 'exc' else 'timeout')
            continue
        page = o[0]
        nb += len(page['boxes'])
        for sig, msg in judge_marginbox_doc(d, page):
            if sig_seen.setdefault(sig, 0) < 2:
                run.fail('marginbox-render: ' + msg, {'stream': 'marginbox-render', 'html': d['html'], 'clause': sig}, signature=sig)
            sig_seen[sig] += 1
        for prefix in SIDES:
            c = side_case(d, page, prefix)
            if c is None or isinstance(c, tuple):
                continue
            cases.append(c); meta.append((d, prefix))
        for c, at, axis in fixed_cases(d, page):
            fcases.append(c); fmeta.append((d, at, axis))
        for c, axis in zip(page_cases(d, page), 'hv'):
            pcases.append(c); pmeta.append((d, axis))
    masks, fmasks, pmasks = yield ('evals', [
        coq('c14mbr', PREQ, 'Q * (mbox * mbox * mbox) * (bool * bool * bool) * ((Q * Q * Q) * (Q * Q * Q) * (Q * Q * Q)) * (Q * Q * Q)',
            cases, 'side_judge', per_file=60),
        coq('c14mbf', PREQ, '(Q * Q) * (oq * oq * oq) * bool * (Q * Q * Q)', fcases, 'fixed_render_judge', per_file=300),
        coq('c14mbp', PREQ, '(Q * Q) * (oq * oq * oq) * (Q * oq) * (Q * Q * Q)', pcases, 'page_render_judge', per_file=300)])
    for msk, mt, name, what, sig in (
            (fmasks, fmeta, 'fixed dimension', 'margin box fixed dimension: margins + padding/border + size != page margin, or specified size changed', 'margin-box-fixed-sum'),
            (pmasks, pmeta, 'page box', 'page box: margins + padding/border + content size do not add up to the page size', 'page-content-area')):
        if isinstance(msk, Exception):
            run.oblige('corr:marginbox-render/%s' % name, False, str(msk))
            continue
        bad = [x for x, m in zip(mt, msk) if m & 1]
        run.oblige('corr:marginbox-render/%s(model vs rendered boxes)' % name, not bad,
                   'first: %s of %s' % ((bad[0][1:], bad[0][0]['html']) if bad else ('', '')))
        for x, m in zip(mt, msk):
            if m & 2:
                run.fail('marginbox-render: %s (%s)' % (what, x[1:]), {'stream': 'marginbox-render', 'html': x[0]['html'], 'what': x[1:]},
                         signature=sig)
                break
    if isinstance(masks, Exception):
        run.oblige('corr:marginbox-render', False, str(masks))
    else:
        bad = [x for x, m in zip(meta, masks) if m & 1]
        run.oblige('corr:marginbox-render(model of compute_variable_dimension + positions vs rendered margin boxes)', not bad,
                   'first: side %s of %s' % ((bad[0][1], bad[0][0]['html']) if bad else ('', '')))
        for (d, prefix), m in zip(meta, masks):
            if m & 2:
                run.fail('marginbox-render: boxes of the %s side overlap / leave the side / centre box not centred although their '
                         'min-content and explicit sizes fit' % prefix,
                         {'stream': 'marginbox-render', 'html': d['html'], 'side': prefix}, signature='margin-box-variable-fit')
                break
        run.stream_info('marginbox-render', sides=len(cases), fit_premise_false=None)
    run.count('marginbox-render', len(docs), [d['html'] for d in docs], samples=[docs[0]['html'][:700]])
    run.stream_info('marginbox-render', margin_boxes=nb, clauses_hit=sig_seen,
                    rule='page sizes x margins {0..80} x page padding/border; each of the 16 margin boxes present with density '
                         '0.15..1, content of 1-9 words (a-h letters, test font), empty, normal or none; explicit width/height, '
                         'auto/px/negative margins, padding, borders')


def t_sizes(run, rng, T):
    """named page sizes and orientations (css-page-3 7.1), monitor in Python"""
    cases = []
    for name, (w, h) in list(PAGE_SIZES_MM.items()) + list(PAGE_SIZES_IN.items()):
        k = 96 / 25.4 if name in PAGE_SIZES_MM else 96
        for orient in ('', 'portrait', 'landscape'):
            ew, eh = (w * k, h * k) if orient != 'landscape' else (h * k, w * k)
            text = ('%s %s' % (name, orient)).strip() if rng.random() < 0.5 or not orient else '%s %s' % (orient, name)
            cases.append((text, ew, eh))
    for w, h in ((3, 5), (7, 7)):
        cases.append(('%din %dcm' % (w, h), w * 96, h * 96 / 2.54))
    cases.append(('landscape', 297 * 96 / 25.4, 210 * 96 / 25.4))
    cases.append(('portrait', 210 * 96 / 25.4, 297 * 96 / 25.4))
    outs = yield impl('marginbox_render', [{'html': '<style>@page{size:%s;margin:1cm 2cm}body{margin:0}</style>x' % c[0]} for c in cases])
    for (text, ew, eh), (st, o) in zip(cases, outs):
        if st != 'ok':
            run.fail('size-render: render %s' % st, {'stream': 'size-render', 'size': text, 'outcome': o}, signature='crash:size')
            continue
        pg = o[0]
        mlr, mtb = 2 * 96 / 2.54, 96 / 2.54
        if abs(pg['mw'] - ew) > 1e-6 or abs(pg['mh'] - eh) > 1e-6 or abs(pg['width'] - (ew - 2 * mlr)) > 1e-6 \
                or abs(pg['height'] - (eh - 2 * mtb)) > 1e-6:
            run.fail('size-render: `size: %s` gives a %sx%s page (content %sx%s), expected %sx%s' % (
                text, pg['mw'], pg['mh'], pg['width'], pg['height'], ew, eh), {'stream': 'size-render', 'size': text}, signature='page-size')
    run.count('size-render', len(cases), [c[0] for c in cases], samples=[cases[0][0]])
    run.stream_info('size-render', rule='every named size of css-page-3 x orientation, lengths, bare orientation; page box and content area')


def t_pdf_render(run, rng, T):
    docs = [gen_pdf_doc(rng) for _ in range(240 if T else 64)]
    docs[0] = dict(html='<style>@page{size:100px;margin:0;bleed:20px}</style>a', zoom=2)
    outs = yield impl('pdf_render', docs)
    cases, meta = [], []
    for d, (st, o) in zip(docs, outs):
        if st != 'ok':
            run.fail('pdf-render: %s' % st, {'stream': 'pdf-render', 'case': d, 'outcome': o},
                     signature='crash:%s' % ((o or {}).get('site'),) if st == 'exc' else 'timeout')
            continue
        if o['nbefore'] != len(o['pages']) or o['nafter'] != len(o['pages']):
            run.oblige('harness:pdf-page-objects-found', False, str((d, o)))
            continue
        for pi, p in enumerate(o['pages']):
            for when in ('before', 'after'):
                b = p[when]
                bl = p['bleed']
                cases.append('((%s, %s), (%s, %s, %s, %s), %s, (%s, %s, %s))' % (
                    qlit(Fraction(p['width'])), qlit(Fraction(p['height'])),
                    qlit(Fraction(bl['left'])), qlit(Fraction(bl['top'])), qlit(Fraction(bl['right'])), qlit(Fraction(bl['bottom'])),
                    qlit(Fraction(d['zoom'])),
                    *['(%s, %s, %s, %s)' % tuple(qlit(Fraction(x)) for x in b[k]) for k in ('MediaBox', 'TrimBox', 'BleedBox')]))
                meta.append((d, pi, when, p))
    masks = yield coq('c14pdf', PREQ, '(Q * Q) * (Q * Q * Q * Q) * Q * (rect * rect * rect)', cases, 'pdf_judge', per_file=40)
    if isinstance(masks, Exception):
        run.oblige('corr:pdf-render', False, str(masks))
    else:
        bad = [x for x, m in zip(meta, masks) if m & 1]
        run.oblige('corr:pdf-render(model of generate_pdf page boxes vs page dictionaries before/after serialisation)', not bad,
                   str(bad[:2]))
        seen2 = seen4 = 0
        for (d, pi, when, p), m in zip(meta, masks):
            if m & 2 and seen2 < 2:
                seen2 += 1
                run.fail('pdf-render: page boxes (%s serialisation) are not page size x scale (+ bleed) / not nested / BleedBox beyond 10pt' % when,
                         {'stream': 'pdf-render', 'case': d, 'page': pi, 'boxes': p[when], 'bleed': p['bleed']}, signature='pdf-page-boxes')
            if m & 4 and seen4 < 1:
                seen4 += 1
                run.fail('pdf-render: MediaBox does not cover the painted bleed area (top and bottom bleed swapped)',
                         {'stream': 'pdf-render', 'case': d, 'page': pi, 'boxes': p[when], 'bleed': p['bleed']},
                         signature='pdf-bleed-top-bottom-swapped')
    run.count('pdf-render', len(cases), cases, samples=[docs[1]])
    run.stream_info('pdf-render', rule='page sizes x bleed 0..40px per side (60% symmetric top/bottom) x zoom {0.5,1,2,3.7} x marks, '
                    ':first with another bleed; page dictionaries read in a finisher (before) and from the bytes (after)')


def t_nth_group(run, rng, T):
    """:nth(an+b of name) exhaustively on a small domain against page types with page groups"""
    R = range(-5, 6) if T else range(-3, 4)
    B = range(-6, 9) if T else range(-4, 7)
    N = 12 if T else 9
    cases = []
    for a in R:
        for b in B:
            sel = [None, None, None, [a, b, 'chap'], None]
            for i in range(N):
                j = (i * 5 + 3) % N
                cases.append(dict(sel=sel, pt=['right', False, 'chap', i + 2, [['chap', i]]]))           # one group
                cases.append(dict(sel=sel, pt=['left', False, 'chap', i + 9, [['chap', j], ['chap', i]]]))  # same name twice
                cases.append(dict(sel=sel, pt=['right', False, 'chap', i, [['app', i], ['chap', j]]]))     # another group first
                cases.append(dict(sel=sel, pt=['left', False, 'chap', i, [['app', i]]]))                   # no group of that name
                cases.append(dict(sel=sel, pt=['right', False, '', i, [['chap', i]]]))                     # page not named
                cases.append(dict(sel=[None, None, None, [a, b, 'chap'], 'chap'], pt=['right', False, 'chap', 0, [['chap', i]]]))
    res = yield from run_stream(run, 'nthgroup-direct', 'page_match', cases,
                                lambda c, o: '(%s, %s, %s)' % (sel_lit(c['sel']), pt_lit(c['pt']), blit(o)),
                                'selector * page_type * bool', 'match_judge',
                                spec_bits=[(2, ':nth(an+b of name) answered against `exists n >= 0, a*n+b = position in the page group`',
                                            'nth-of-group')],
                                key=lambda c: (tuple(c['sel'][3]), c['sel'][4], json.dumps(c['pt'])),
                                rule='exhaustive a in %d..%d, b in %d..%d, group index 0..%d x 6 shapes of page type (one group, two groups '
                                     'of the same name, other group first, no such group, unnamed page, name + :nth of)' % (
                                         R[0], R[-1], B[0], B[-1], N - 1), per_file=1200)
    run.stream_info('nthgroup-direct', matched=sum(1 for c, o, m in res if o),
                    negative_step_matched=sum(1 for c, o, m in res if o and c['sel'][3][0] < 0))


def gen_groups_doc(rng, maxpages):
    """unnamed intro, then sections with named pages (each one a page group) of varying lengths; @page :nth(an+b of name)
    rules setting distinguishable margin-left values"""
    ltr = rng.random() < 0.8
    m = rng.choice([2, 3])
    # the document starts with an unnamed intro, or directly with a named page (whose group starts on page 1)
    sections = [(None, rng.choice(['', '', 'chap', 'app']), rng.choice([1, m, m + 1, 2 * m + 1]))]
    budget = maxpages - 3
    for i in range(rng.choice([1, 2, 3, 4])):
        k = rng.choice(['page', 'page', 'page', 'left', 'right'])
        name = rng.choice(['chap', 'chap', 'app', ''])
        pages = rng.choice([1, 2, 3, 4, 5, 7])
        if pages + 1 > budget:
            break
        budget -= pages + 1
        n = pages * m - rng.randint(0, m - 1)
        sections.append((k, name, n))
    rules = []
    for r in range(rng.choice([1, 2, 3, 4, 5])):
        a = rng.choice([-1, -1, -2, -2, -3, 0, 1, 2, 3])
        b = rng.choice([-4, -1, 0, 1, 2, 2, 3, 3, 4, 5, 6, 8])
        rules.append((a, b, rng.choice(['chap', 'chap', 'app']), 25 + 4 * r))
    named = [(n, v) for n, v in (('chap', 13), ('app', 17)) if rng.random() < 0.6]
    H = m * 10 + 30
    css = '@page{size:200px %dpx;margin:10px 20px 20px 20px}\n' % H
    for n, v in named:
        css += '@page %s{margin-left:%dpx}\n' % (n, v)
    for a, b, g, v in rules:
        css += '@page :nth(%s of %s){margin-left:%dpx}\n' % (nth_text(a, b, rng), g, v)
    css += BASE % ('direction:%s' % ('ltr' if ltr else 'rtl'))
    body = ''
    for i, (k, name, n) in enumerate(sections):
        st = []
        if k:
            st.append('break-before:%s' % k)
        if name:
            st.append('page:%s' % name)
        body += '<section id="s%d" style="%s">%s</section>' % (i, ';'.join(st), '<div class="l">aa</div>' * n)
    return dict(html='<style>%s</style>%s' % (css, body), ltr=ltr, m=m, sections=sections, rules=rules, named=named)


def groups_cases(doc, pages):
    """one Coq case (groups_judge) per page, or a string when the document did not paginate as the generator assumes"""
    content = []
    for i, (k, name, n) in enumerate(doc['sections']):
        for j in range(-(-n // doc['m'])):
            content.append((i, j))
    cpages = [p for p in pages if not p['blank']]
    if len(cpages) != len(content):
        return 'predicted %d pages with content, got %d' % (len(content), len(cpages))
    rules = lst(doc['rules'], lambda r: '(%s, %s, %s, %s)' % (zlit(r[0]), zlit(r[1]), slit(r[2]), zlit(r[3])))
    named = lst(doc['named'], lambda nv: '(%s, %s)' % (slit(nv[0]), zlit(nv[1])))
    out = []
    ci = 0
    for idx, p in enumerate(pages):
        if p['blank']:
            name, pos = '', None
        else:
            si, j = content[ci]
            ci += 1
            if p['ids'] != (['s%d' % si] if j == 0 else []):
                return 'page %d holds %s' % (idx, p['ids'])
            name = doc['sections'][si][1]
            pos = j + 1 if name else None
        out.append(('(%s, %s, 20, (%s, %s), %s, %s)' % (
            rules, named, slit(name), opt(pos, zlit),
            pt_lit([p['side'], p['blank'], p['name'], p['index'], p['groups']]), zlit(int(round(p['ml'])))), idx, name, pos, p['ml']))
    return out


GROUPS_T = 'list group_rule * list (string * Z) * Z * (string * option Z) * page_type * Z'


def t_groups_render(run, rng, T):
    maxpages = 40 if T else 16
    docs = [gen_groups_doc(rng, maxpages) for _ in range(400 if T else 110)]
    # the shape of seeded demos: a chapter of 4 pages and one of 3, first-two-pages rule
    docs[0] = dict(ltr=True, m=2, sections=[(None, '', 1), ('page', 'chap', 8), ('page', 'chap', 6), ('page', '', 1)],
                   rules=[(-1, 2, 'chap', 33)], named=[('chap', 13)], html=None)
    d0 = docs[0]
    d0['html'] = ('<style>@page{size:200px 50px;margin:10px 20px 20px 20px}@page chap{margin-left:13px}'
                  '@page :nth(-n+2 of chap){margin-left:33px}' + BASE % '' + '</style>' +
                  ''.join('<section id="s%d" style="%s">%s</section>' % (
                      i, ';'.join((['break-before:%s' % k] if k else []) + (['page:%s' % nm] if nm else [])), '<div class="l">aa</div>' * n)
                      for i, (k, nm, n) in enumerate(d0['sections'])))
    outs = yield impl('pages_render', [{'html': d['html']} for d in docs])
    cases, meta, harness_bad = [], [], []
    npages = 0
    for d, (st, o) in zip(docs, outs):
        if st != 'ok':
            run.fail('groups-render: render %s' % (o['type'] if st == 'exc' else st), {'stream': 'groups-render', 'html': d['html'], 'outcome': o},
                     signature='crash:%s' % ((o or {}).get('site'),) if st == 'exc' else 'timeout')
            continue
        cs = groups_cases(d, o)
        if isinstance(cs, str):
            harness_bad.append(cs + '\n' + d['html'])
            continue
        npages += len(cs)
        for c in cs:
            cases.append(c[0]); meta.append((d, c[1], c[2], c[3], c[4]))
    run.oblige('harness:pagination-prediction(groups-render documents paginate as the generator assumes)', not harness_bad,
               '%d documents; first: %s' % (len(harness_bad), harness_bad[0] if harness_bad else ''))
    masks = yield coq('c14groups', PRE, GROUPS_T, cases, 'groups_judge', per_file=250)
    if isinstance(masks, Exception):
        run.oblige('corr:groups-render', False, str(masks))
    else:
        bad = [x for x, m in zip(meta, masks) if m & 1]
        run.oblige('corr:groups-render(selector matching + cascade on the rendered page types vs used margins)', not bad,
                   'first: page %s of %s' % ((bad[0][1], bad[0][0]['html']) if bad else ('', '')))
        shown = 0
        for (d, idx, name, pos, ml), m in zip(meta, masks):
            if m & 2 and shown < 2:
                shown += 1
                run.fail('groups-render: page %d (page %s of its %r page group) has margin-left %s: not the value of the last '
                         '@page :nth(an+b of name) rule whose a*n+b (n >= 0) equals that position' % (idx + 1, pos, name, ml),
                         {'stream': 'groups-render', 'html': d['html'], 'page': idx + 1, 'doc': strip_doc(d)}, signature='nth-of-group')
        run.stream_info('groups-render', pages=npages,
                        pages_selected_by_nth_rule=sum(1 for x in meta if x[4] >= 25),
                        negative_step_rules=sum(1 for d in docs for r in d['rules'] if r[0] < 0))
    run.count('groups-render', len(cases), cases, samples=[docs[1]['html'][:600]])
    run.stream_info('groups-render', rule='intro (unnamed, or a named page starting the document) + 1-4 sections with named pages (page groups of 1..7 pages, forced page/left/right '
                    'breaks, blank pages, same name repeated) x 1-5 rules @page :nth(an+b of name), a in -3..3 (half negative), b in -4..8, '
                    'each setting its own margin-left; every page judged against `exists n>=0, a*n+b = position in group`')


MB_ORDER = ['%s-%s' % (a, b) for a in ('top', 'bottom') for b in ('left', 'center', 'right')] + \
    ['%s-%s' % (a, b) for a in ('left', 'right') for b in ('top', 'middle', 'bottom')] + CORNERS
ITEM_LIT = {'open': 'IOpen', 'close': 'IClose', 'no-open': 'INoOpen', 'no-close': 'INoClose', 'pages': 'IPages'}
CODES = {}


def gen_marginstate_doc(rng, maxpages):
    npages = rng.randint(2, maxpages)

    def ops(kind):
        r = rng.random()
        if r < 0.45:
            return 'auto'
        names = ['page', 'c'] if kind != 'counter_set' or rng.random() < 0.5 else ['c']
        return [[rng.choice(names), rng.choice([1, 1, 2, 3, 5, -1])] for _ in range(rng.choice([1, 1, 2]))]

    def gen_box(p_touch):
        st = {k: 'auto' for k in ('counter_set', 'counter_reset', 'counter_increment')}
        if rng.random() < p_touch:
            k = rng.choice(['counter_increment', 'counter_increment', 'counter_reset', 'counter_set'])
            st[k] = [[rng.choice(['page', 'c', 'c']), rng.choice([1, 1, 2, 3, 5])]]
            if rng.random() < 0.25:
                k2 = rng.choice(['counter_increment', 'counter_reset'])
                if st[k2] == 'auto':
                    st[k2] = [[rng.choice(['page', 'c']), rng.choice([1, 2, 4])]]
        items = []
        for _ in range(rng.choice([1, 2, 3, 4])):
            r = rng.random()
            if r < 0.3:
                items.append(('counter', 'page'))
            elif r < 0.5:
                items.append(('counter', 'c'))
            elif r < 0.58:
                items.append(('pages',))
            elif r < 0.75:
                items.append(('open',))
            elif r < 0.85:
                items.append(('close',))
            elif r < 0.9:
                items.append((rng.choice(['no-open', 'no-close']),))
            else:
                items.append(('text', rng.randint(0, 200)))
        return dict(style=st, items=items)
    page_style = {k: 'auto' for k in ('counter_set', 'counter_reset', 'counter_increment')}
    r = rng.random()
    if r < 0.15:
        page_style['counter_increment'] = [['page', 2]]
    elif r < 0.3:
        page_style['counter_reset'] = [['c', 3]]
    elif r < 0.45:
        page_style['counter_increment'] = [['c', 2], ['page', 1]]
    ats = sorted(rng.sample(MB_ORDER, rng.choice([2, 2, 3, 4, 5, 6])), key=MB_ORDER.index)
    p_touch = rng.choice([0.3, 0.5, 0.8])
    boxes = {at: gen_box(p_touch) for at in ats}
    left_extra = None
    if rng.random() < 0.3:
        rest = [a for a in MB_ORDER if a not in boxes]
        left_extra = (rng.choice(rest), gen_box(0.7))

    def style_text(st):
        out = []
        for k in ('counter_reset', 'counter_increment', 'counter_set'):
            if st[k] != 'auto':
                out.append('%s:%s' % (k.replace('_', '-'), ' '.join('%s %d' % (n, v) for n, v in st[k])))
        return ';'.join(out)

    def box_text(at, b):
        parts = []
        for it in b['items']:
            if it[0] == 'counter':
                parts.append('counter(%s)' % it[1])
            elif it[0] == 'pages':
                parts.append('counter(pages)')
            elif it[0] == 'text':
                parts.append('"%s"' % code(it[1]))
            else:
                parts.append('%s-quote' % it[0])
        d = style_text(b['style'])
        return '@%s{%scontent:%s}' % (at, d + ';' if d else '', ' "." '.join(parts))
    css = '@page{size:400px 300px;margin:60px;quotes:"(" ")" "[" "]";%s;%s}' % (
        style_text(page_style), ''.join(box_text(at, b) for at, b in boxes.items()))
    if left_extra:
        css += '@page :left{%s}' % box_text(*left_extra)
    css += BASE % 'quotes:"(" ")" "[" "]"' + 'p{break-after:page}'
    return dict(html='<style>%s</style>%s' % (css, '<p>aa</p>' * npages), npages=npages, page_style=page_style, boxes=boxes,
                left_extra=left_extra)


def marginstate_cases(doc, pages):
    """one Coq case (marginstate_judge) per page, or a string when the document is not as the generator assumes"""
    if not CODES:
        for k in range(512):
            CODES.setdefault(code(k), k)
    if len(pages) != doc['npages']:
        return 'expected %d pages, got %d' % (doc['npages'], len(pages))
    styles = lst([doc['page_style']] * doc['npages'], cs_lit)

    def item_lit(it):
        if it[0] == 'counter':
            return '(ICounter %s)' % slit(it[1])
        if it[0] == 'text':
            return '(IText %s)' % zlit(it[1])
        return ITEM_LIT[it[0]]

    def shown(text, n):
        toks = text.split('.')
        if len(toks) != n:
            return '[(9, 9)]'
        res = []
        for t in toks:
            if t == '':
                res.append('(0, 0)')
            elif t.lstrip('-').isdigit():
                res.append('(1, %s)' % zlit(int(t)))
            elif t in '([':
                res.append('(3, %d)' % '(['.index(t))
            elif t in ')]':
                res.append('(4, %d)' % ')]'.index(t))
            elif t in CODES:
                res.append('(2, %s)' % zlit(CODES[t]))
            else:
                res.append('(9, 9)')
        return lst(res)
    out = []
    for k, p in enumerate(pages):
        boxes = dict(doc['boxes'])
        if doc['left_extra'] and p['side'] == 'left':
            boxes[doc['left_extra'][0]] = doc['left_extra'][1]
        ats = sorted(boxes, key=MB_ORDER.index)
        if sorted('@' + a for a in ats) != sorted(p['texts']):
            return 'page %d has margin boxes %s, expected %s' % (k + 1, sorted(p['texts']), ats)
        decls = lst(ats, lambda a: '(mkMD %s %s)' % (cs_lit(boxes[a]['style']), lst(boxes[a]['items'], item_lit)))
        sh = lst(ats, lambda a: shown(p['texts']['@' + a], len(boxes[a]['items'])))
        out.append(('(["page"; "c"], %s, %d%%nat, %s, %s)' % (styles, k, decls, sh), k, {a: p['texts']['@' + a] for a in ats}))
    return out


MS_T = 'list string * list cstyle * nat * list mdecl * list (list out)'


def t_marginstate_render(run, rng, T):
    docs = [gen_marginstate_doc(rng, 8 if T else 5) for _ in range(360 if T else 90)]
    outs = yield impl('pages_render', [{'html': d['html']} for d in docs])
    cases, meta, harness_bad = [], [], []
    nboxes = 0
    for d, (st, o) in zip(docs, outs):
        if st != 'ok':
            run.fail('marginstate-render: render %s' % (o['type'] if st == 'exc' else st), {'stream': 'marginstate-render', 'html': d['html'], 'outcome': o},
                     signature='crash:%s' % ((o or {}).get('site'),) if st == 'exc' else 'timeout')
            continue
        cs = marginstate_cases(d, o)
        if isinstance(cs, str):
            harness_bad.append(cs + '\n' + d['html'])
            continue
        for c in cs:
            cases.append(c[0]); meta.append((d, c[1], c[2])); nboxes += len(c[2])
    run.oblige('harness:marginstate-render documents are as the generator assumes', not harness_bad,
               '%d documents; first: %s' % (len(harness_bad), harness_bad[0] if harness_bad else ''))
    masks = yield coq('c14mstate', PRE, MS_T, cases, 'marginstate_judge', per_file=120)
    if isinstance(masks, Exception):
        run.oblige('corr:marginstate-render', False, str(masks))
    else:
        bad = [x for x, m in zip(meta, masks) if m & 1]
        run.oblige('corr:marginstate-render(model of make_margin_boxes counters/quotes vs rendered margin box texts)', not bad,
                   'first: page %s of %s' % ((bad[0][1] + 1, bad[0][0]['html']) if bad else ('', '')))
        shown = 0
        for (d, k, texts), m in zip(meta, masks):
            if m & 2 and shown < 2:
                shown += 1
                run.fail('marginstate-render: on page %d a margin box does not show the page\'s counters / quote depth combined with '
                         'its OWN counter-* declarations and quotes (texts: %s)' % (k + 1, texts),
                         {'stream': 'marginstate-render', 'html': d['html'], 'page': k + 1, 'doc': strip_doc(d)},
                         signature='margin-box-state-leak')
    run.count('marginstate-render', len(cases), cases, samples=[docs[0]['html'][:600]])
    run.stream_info('marginstate-render', margin_boxes=nboxes,
                    rule='2..5 pages x 2-6 margin boxes (plus one only on :left pages) in creation order; each may counter-increment / '
                         'counter-reset / counter-set `page` or a custom counter and shows counter(page), counter(c), counter(pages), '
                         'open/close/no-open/no-close-quote, text; @page itself may increment page by 2, reset or increment c')


# (task, index of its random stream): the order is the order in which failing inputs are reported, the index keeps every
# stream's cases independent of that order
TASKS = [(t_groups_render, 16), (t_marginstate_render, 17), (t_pages_render, 0), (t_strings_render, 1), (t_marginbox_render, 2), (t_pdf_render, 3), (t_sizes, 4),
         (t_nth, 5), (t_nth_group, 15), (t_match, 6), (t_parse, 7), (t_cascade, 8), (t_pwh, 9), (t_cfd, 10), (t_cvd, 11),
         (t_cvd_vertical, 12), (t_counters, 13), (t_strings, 14)]


def strip_doc(d):
    return {k: v for k, v in d.items() if k != 'html'}


def replay(data):
    d = data.get('data', {})
    stream = d.get('stream')
    if stream == 'pages-render' and d.get('clause') == 'page-rules-reference':
        (st, o), = common.run_impl('impl_c14', 'pages_render', [{'html': d['html']}])
        if st != 'ok':
            print('replay: render', st, o); return 1
        doc = dict(d['doc'])
        for r in doc['rules']:
            r['sels'] = [(n, [tuple(p) for p in ps]) for n, ps in r['sels']]
            r['decls'] = [tuple(x) for x in r['decls']]; r['mdecls'] = [tuple(x) for x in r['mdecls']]
        for p in o:
            print('replay:', p['index'], p['side'], repr(p['name']), 'margin-left', p['ml'], 'margin-right', p['mr'], p['texts'])
        m = common.eval_cases('c14replay', PRE, DOC_T, [doc_case(doc, o)], 'doc_judge')
        print('replay: judge mask', m)
        return 1 if m[0] & 2 else 0
    if stream == 'pages-render':
        (st, o), = common.run_impl('impl_c14', 'pages_render', [{'html': d['html']}])
        if st != 'ok':
            print('replay: render', st, o); return 1
        for p in o:
            print('replay:', p['index'], p['side'], 'blank' if p['blank'] else '', repr(p['name']), p['groups'], p['ml'], p['mr'], p['texts'])
        if d.get('doc'):
            doc = dict(d['doc']); doc['html'] = d['html']
            doc['sections'] = [tuple(s) for s in doc['sections']]
            bad = [b for b in judge_pages_doc(doc, o) if b[0] == d.get('clause')] if d.get('clause') != 'forced-side' else []
            print('replay: clauses', bad[:3])
            if d.get('clause') == 'forced-side':
                breaks = []
                for i, (k, name, n) in enumerate(doc['sections']):
                    for j in range(-(-n // doc['m'])):
                        if (i, j) != (0, 0):
                            breaks.append(BRK[k] if j == 0 else 'BAny')
                m = common.eval_cases('c14replay', PRE, 'bool * brk * list brk * list (side * bool)',
                                      ['(%s, %s, %s, %s)' % (blit(doc['ltr']), BRK[doc['root_break']], lst(breaks),
                                                             lst(o, lambda p: '(%s, %s)' % (sidelit(p['side']), blit(p['blank']))))], 'sides_judge')
                print('replay: sides mask', m)
                return 1 if m[0] else 0
            return 1 if bad else 0
        return 0
    if stream == 'marginbox-render':
        (st, o), = common.run_impl('impl_c14', 'marginbox_render', [{'html': d['html']}])
        print('replay:', st)
        if st == 'ok':
            for b in o[0]['boxes']:
                print('replay:', b['at'], 'x', b['x'], 'y', b['y'], 'w', b['w'], 'h', b['h'], 'lines', b['nlines'], repr(b['text']))
        return 1
    if stream == 'strings-render':
        (st, o), = common.run_impl('impl_c14', 'strings_render', [{'html': d['html']}])
        print('replay:', st)
        if st == 'ok':
            for i, p in enumerate(o):
                print('replay: page', i + 1, p['heads'], p['first_is_head'], p['texts'])
        return 1
    if stream == 'marginstate-render':
        (st, o), = common.run_impl('impl_c14', 'pages_render', [{'html': d['html']}])
        if st != 'ok':
            print('replay: render', st, o); return 1
        doc = dict(d['doc']); doc['html'] = d['html']
        if doc['left_extra']:
            doc['left_extra'] = tuple(doc['left_extra'])
        for b in list(doc['boxes'].values()) + ([doc['left_extra'][1]] if doc['left_extra'] else []):
            b['items'] = [tuple(i) for i in b['items']]
        cs = marginstate_cases(doc, o)
        if isinstance(cs, str):
            print('replay:', cs); return 1
        masks = common.eval_cases('c14replay', PRE, MS_T, [c[0] for c in cs], 'marginstate_judge')
        for c, m in zip(cs, masks):
            print('replay: page %d margin boxes show %s %s' % (c[1] + 1, c[2], 'WRONG' if m & 2 else ''))
        return 1 if any(m & 2 for m in masks) else 0
    if stream == 'groups-render':
        (st, o), = common.run_impl('impl_c14', 'pages_render', [{'html': d['html']}])
        if st != 'ok':
            print('replay: render', st, o); return 1
        doc = dict(d['doc']); doc['html'] = d['html']
        doc['sections'] = [tuple(x) for x in doc['sections']]; doc['rules'] = [tuple(x) for x in doc['rules']]
        doc['named'] = [tuple(x) for x in doc['named']]
        cs = groups_cases(doc, o)
        if isinstance(cs, str):
            print('replay:', cs); return 1
        masks = common.eval_cases('c14replay', PRE, GROUPS_T, [c[0] for c in cs], 'groups_judge')
        for c, m in zip(cs, masks):
            print('replay: page %d name %r position %s margin-left %s groups %s %s' % (
                c[1] + 1, c[2], c[3], c[4], o[c[1]]['groups'], 'WRONG' if m & 2 else ''))
        return 1 if any(m & 2 for m in masks) else 0
    if stream in ('match-direct', 'nthgroup-direct'):
        (st, o), = common.run_impl('impl_c14', 'page_match', [d['case']])
        print('replay: _page_type_match now answers', st, o)
        if st != 'ok':
            return 1
        m = common.eval_cases('c14replay', PRE, 'selector * page_type * bool',
                              ['(%s, %s, %s)' % (sel_lit(d['case']['sel']), pt_lit(d['case']['pt']), blit(o))], 'match_judge')
        print('replay: judge mask', m)
        return 1 if m[0] & 2 else 0
    if stream == 'size-render':
        (st, o), = common.run_impl('impl_c14', 'marginbox_render', [{'html': '<style>@page{size:%s;margin:1cm 2cm}body{margin:0}</style>x' % d['size']}])
        print('replay:', st, (o[0]['mw'], o[0]['mh']) if st == 'ok' else o)
        return 1
    if stream == 'pdf-render':
        (st, o), = common.run_impl('impl_c14', 'pdf_render', [d['case']])
        print('replay:', st, json.dumps(o)[:1500])
        return 1
    fn = {'match-direct': 'page_match', 'cascade-direct': 'cascade', 'pwh-direct': 'pwh', 'cfd-direct': 'cfd', 'cvd-direct': 'cvd',
          'cvd-vertical-direct': 'cvd', 'counters-direct': 'counters', 'strings-direct': 'strings', 'parse-direct': 'parse_selectors'}.get(stream)
    if fn:
        (st, o), = common.run_impl('impl_c14', fn, [d['case']])
        print('replay: implementation output now:', st, o, ' recorded:', d.get('impl_output'))
        return 1 if (st != 'ok' or o == d.get('impl_output')) else 0
    if stream == 'nth-direct':
        c = d['case']
        (st, o), = common.run_impl('impl_c14', 'nth_block', [dict(a=c['a'], b=c['b'], n=c['index'] + 1)])
        print('replay:', st, o[-1] if st == 'ok' else o)
        n_ok = any(c['a'] * n + c['b'] == c['index'] + 1 for n in range(0, abs(c['index'] + 1 - c['b']) + 2))
        return 1 if (st != 'ok' or o[-1] != n_ok) else 0
    print('nothing to replay for', stream)
    return 0
