"""Implementation-side functions for C11 (run in worker processes; weasyprint imported from REPO)."""
from fractions import Fraction
from types import SimpleNamespace


def _v(x):
    return 'auto' if x == 'auto' else Fraction(x)


def _s(x):
    return 'auto' if x == 'auto' else str(Fraction(x))


def _style(ltr):
    # ltr = parent_style is None or parent_style['direction'] == 'ltr'
    if ltr == 'root':
        return SimpleNamespace(parent_style=None)
    return SimpleNamespace(parent_style={'direction': 'ltr' if ltr else 'rtl'})


# ------------------------------------------------------------------------------ absolute.py, direct calls

def absw(case):
    """absolute_width (decorated by handle_min_max_width) on a stub box with Fraction fields.
    shrink_to_fit is an oracle: replaced by a -> min(max(mn, a), mx)."""
    from weasyprint.layout import absolute
    mn, mx = Fraction(case['mn']), Fraction(case['mx'])
    absolute.shrink_to_fit = lambda context, box, a: min(max(mn, a), mx)
    box = SimpleNamespace(
        left=_v(case['l']), right=_v(case['r']), width=_v(case['w']),
        margin_left=_v(case['ml']), margin_right=_v(case['mr']),
        padding_left=Fraction(case['pl']), padding_right=Fraction(case['pr']),
        border_left_width=Fraction(case['bl']), border_right_width=Fraction(case['br']),
        position_x=Fraction(case['px']), position_y=Fraction(0), style=_style(case['ltr']),
        min_width=Fraction(case['minw']),
        max_width=(float('inf') if case['maxw'] == 'inf' else Fraction(case['maxw'])))
    fn = absolute.absolute_width if case.get('decorated', True) else absolute.absolute_width.without_min_max
    tbw, tx = fn(box, None, Fraction(case['cbx']), Fraction(0), Fraction(case['cbw']), Fraction(0))
    return [_s(box.width), _s(box.margin_left), _s(box.margin_right), bool(tbw), str(Fraction(tx)),
            str(box.position_x)]


def absh(case):
    from weasyprint.layout import absolute
    box = SimpleNamespace(
        top=_v(case['l']), bottom=_v(case['r']), height=_v(case['w']),
        margin_top=_v(case['ml']), margin_bottom=_v(case['mr']),
        padding_top=Fraction(case['pl']), padding_bottom=Fraction(case['pr']),
        border_top_width=Fraction(case['bl']), border_bottom_width=Fraction(case['br']),
        position_x=Fraction(0), position_y=Fraction(case['px']), style=_style(True))
    tbh, ty = absolute.absolute_height(box, None, Fraction(0), Fraction(case['cbx']), Fraction(0), Fraction(case['cbw']))
    return [_s(box.height), _s(box.margin_top), _s(box.margin_bottom), bool(tbh), str(Fraction(ty)),
            str(box.position_y)]


def absr(case):
    """absolute_replaced on a real BlockReplacedBox instance (its margin_width() etc. are the real ones) whose
    used width/height are given (inline_replaced_box_width_height is stubbed out)."""
    from weasyprint.layout import absolute
    from weasyprint.formatting_structure import boxes
    absolute.inline_replaced_box_width_height = lambda box, cb: None
    h, v = case['h'], case['v']
    box = object.__new__(boxes.BlockReplacedBox)
    box.style = _style(case['ltr'])
    box.left, box.right, box.width = _v(h['l']), _v(h['r']), Fraction(h['w'])
    box.margin_left, box.margin_right = _v(h['ml']), _v(h['mr'])
    box.padding_left, box.padding_right = Fraction(h['pl']), Fraction(h['pr'])
    box.border_left_width, box.border_right_width = Fraction(h['bl']), Fraction(h['br'])
    box.position_x = Fraction(h['px'])
    box.top, box.bottom, box.height = _v(v['l']), _v(v['r']), Fraction(v['w'])
    box.margin_top, box.margin_bottom = _v(v['ml']), _v(v['mr'])
    box.padding_top, box.padding_bottom = Fraction(v['pl']), Fraction(v['pr'])
    box.border_top_width, box.border_bottom_width = Fraction(v['bl']), Fraction(v['br'])
    box.position_y = Fraction(v['px'])
    new = absolute.absolute_replaced(None, box, Fraction(h['cbx']), Fraction(v['cbx']), Fraction(h['cbw']), Fraction(v['cbw']))
    return [[_s(new.left), _s(new.right), _s(new.margin_left), _s(new.margin_right), str(Fraction(new.position_x))],
            [_s(new.top), _s(new.bottom), _s(new.margin_top), _s(new.margin_bottom), str(Fraction(new.position_y))],
            [str(Fraction(new.width)), str(Fraction(new.height))]]


# ------------------------------------------------------------------------------------ float.py, direct calls

def _shape(s):
    """an excluded shape: (float side, x, y, margin width, margin height)"""
    side, x, y, w, h = s
    x, y, w, h = Fraction(x), Fraction(y), Fraction(w), Fraction(h)
    return SimpleNamespace(position_x=x, position_y=y, margin_width=lambda: w, margin_height=lambda: h,
                           style={'float': side})


def _cb(cbx, cbw, rtl=False):
    cbx, cbw = Fraction(cbx), Fraction(cbw)
    return SimpleNamespace(content_box_x=lambda: cbx, width=cbw, style={'direction': 'rtl' if rtl else 'ltr'})


def _fbox(b):
    """b: dict(kind, py, ml, mr, mt, mb, bw, bh); a real box instance whose geometry methods are the real ones:
    the border box is made of width/height only (paddings and borders 0)."""
    from weasyprint.formatting_structure import boxes
    kind = b['kind']
    cls = {'left': boxes.BlockBox, 'right': boxes.BlockBox, 'line': boxes.LineBox, 'table': boxes.BlockBox,
           'bfc': boxes.BlockBox, 'replaced': boxes.BlockReplacedBox}[kind]
    box = object.__new__(cls)
    box.style = {'float': kind if kind in ('left', 'right') else 'none', 'position': 'static',
                 'overflow': 'hidden', 'display': ('block', 'flow'), 'direction': 'ltr'}
    box.children = []
    box.is_table_wrapper = kind == 'table'
    box.is_column = False
    box.position_x = Fraction(b.get('px', 0))
    box.position_y = Fraction(b['py'])
    box.margin_left, box.margin_right = Fraction(b['ml']), Fraction(b['mr'])
    box.margin_top, box.margin_bottom = Fraction(b['mt']), Fraction(b['mb'])
    box.width, box.height = Fraction(b['bw']), Fraction(b['bh'])
    for side in ('left', 'right', 'top', 'bottom'):
        setattr(box, 'padding_' + side, 0)
        setattr(box, 'border_%s_width' % side, 0)
    return box


def ffp(case):
    """find_float_position on a stub context: case = dict(shapes, cbx, cbw, box)."""
    from weasyprint.layout import float as fl
    context = SimpleNamespace(excluded_shapes=[_shape(s) for s in case['shapes']])
    box = _fbox(case['box'])
    new = fl.find_float_position(context, box, _cb(case['cbx'], case['cbw'], case.get('rtl', False)))
    return [str(Fraction(new.position_x)), str(Fraction(new.position_y))]


def avc(case):
    """avoid_collisions(outer=False) for a line / table wrapper / replaced block / formatting-context root."""
    from weasyprint.layout import float as fl
    context = SimpleNamespace(excluded_shapes=[_shape(s) for s in case['shapes']])
    box = _fbox(case['box'])
    x, y, aw = fl.avoid_collisions(context, box, _cb(case['cbx'], case['cbw'], case.get('rtl', False)), outer=False)
    return [str(Fraction(x)), str(Fraction(y)), str(Fraction(aw))]


def fseq(case):
    """a sequence of floats placed one after the other into an empty context, as float_layout does after the
    layout of each float: find_float_position then excluded_shapes.append(box)."""
    from weasyprint.layout import float as fl
    context = SimpleNamespace(excluded_shapes=[])
    out = []
    for req in case['reqs']:
        box = _fbox(req['box'])
        new = fl.find_float_position(context, box, _cb(req['cbx'], req['cbw']))
        context.excluded_shapes.append(new)
        out.append([str(Fraction(new.position_x)), str(Fraction(new.position_y))])
    return out


def clr(case):
    from weasyprint.layout import float as fl
    context = SimpleNamespace(excluded_shapes=[_shape(s) for s in case['shapes']])
    box = SimpleNamespace(position_y=Fraction(case['py']), style={'clear': case['clear']})
    if case.get('cm') is None:
        r = fl.get_clearance(context, box)
    else:
        r = fl.get_clearance(context, box, Fraction(case['cm']))
    return None if r is None else str(Fraction(r))


# ------------------------------------------------------------------------ relative_positioning, direct call

def _rbox(t):
    """t = dict(rel, inline, ltr, offs=[l,r,t,b], x, y, kids)"""
    from weasyprint.formatting_structure import boxes
    from weasyprint.css.properties import Dimension
    box = object.__new__(boxes.InlineBox if t['inline'] else boxes.BlockBox)

    def dim(v):
        return 'auto' if v == 'auto' else Dimension(Fraction(v), 'px')
    l, r, tp, bo = t['offs']
    box.style = {'position': 'relative' if t['rel'] else 'static', 'direction': 'ltr' if t['ltr'] else 'rtl',
                 'left': dim(l), 'right': dim(r), 'top': dim(tp), 'bottom': dim(bo), 'float': 'none'}
    box.position_x, box.position_y = Fraction(t['x']), Fraction(t['y'])
    box.children = [_rbox(k) for k in t['kids']]
    return box


def _positions(box, out):
    out.append([str(Fraction(box.position_x)), str(Fraction(box.position_y))])
    for c in box.children:
        _positions(c, out)
    return out


def rel(case):
    from weasyprint.layout import block
    box = _rbox(case['tree'])
    sibling = _rbox(case['tree'])
    r = block.relative_positioning(box, (Fraction(case['cbw']), Fraction(case['cbh'])))
    return {'ret': r is None, 'pos': _positions(box, []), 'sibling': _positions(sibling, [])}


def dispatch(case):
    return globals()[case['fn']](case['case'])
