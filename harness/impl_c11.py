"""Implementation-side functions for C11 (run in worker processes; weasyprint imported from REPO)."""
from fractions import Fraction
from types import SimpleNamespace


def _v(x):
    return 'auto' if x == 'auto' else Fraction(x)


def _s(x):
    return 'auto' if x == 'auto' else str(Fraction(x))


def _style(ltr):
    # ltr = parent_style is None or parent_style['direction'] == 'ltr'
    if ltr == 'root':
        return SimpleNamespace(parent_style=None)
    return SimpleNamespace(parent_style={'direction': 'ltr' if ltr else 'rtl'})


# ------------------------------------------------------------------------------ absolute.py, direct calls

def absw(case):
    """absolute_width (decorated by handle_min_max_width) on a stub box with Fraction fields.
    shrink_to_fit is an oracle: replaced by a -> min(max(mn, a), mx)."""
    from weasyprint.layout import absolute
    mn, mx = Fraction(case['mn']), Fraction(case['mx'])
    absolute.shrink_to_fit = lambda context, box, a: min(max(mn, a), mx)
    box = SimpleNamespace(
        left=_v(case['l']), right=_v(case['r']), width=_v(case['w']),
        margin_left=_v(case['ml']), margin_right=_v(case['mr']),
        padding_left=Fraction(case['pl']), padding_right=Fraction(case['pr']),
        border_left_width=Fraction(case['bl']), border_right_width=Fraction(case['br']),
        position_x=Fraction(case['px']), position_y=Fraction(0), style=_style(case['ltr']),
        min_width=Fraction(case['minw']),
        max_width=(float('inf') if case['maxw'] == 'inf' else Fraction(case['maxw'])))
    fn = absolute.absolute_width if case.get('decorated', True) else absolute.absolute_width.without_min_max
    tbw, tx = fn(box, None, Fraction(case['cbx']), Fraction(0), Fraction(case['cbw']), Fraction(0))
    return [_s(box.width), _s(box.margin_left), _s(box.margin_right), bool(tbw), str(Fraction(tx)),
            str(box.position_x)]


def absh(case):
    from weasyprint.layout import absolute
    box = SimpleNamespace(
        top=_v(case['l']), bottom=_v(case['r']), height=_v(case['w']),
        margin_top=_v(case['ml']), margin_bottom=_v(case['mr']),
        padding_top=Fraction(case['pl']), padding_bottom=Fraction(case['pr']),
        border_top_width=Fraction(case['bl']), border_bottom_width=Fraction(case['br']),
        position_x=Fraction(0), position_y=Fraction(case['px']), style=_style(True))
    tbh, ty = absolute.absolute_height(box, None, Fraction(0), Fraction(case['cbx']), Fraction(0), Fraction(case['cbw']))
    return [_s(box.height), _s(box.margin_top), _s(box.margin_bottom), bool(tbh), str(Fraction(ty)),
            str(box.position_y)]


def absr(case):
    """absolute_replaced on a real BlockReplacedBox instance (its margin_width() etc. are the real ones) whose
    used width/height are given (inline_replaced_box_width_height is stubbed out)."""
    from weasyprint.layout import absolute
    from weasyprint.formatting_structure import boxes
    absolute.inline_replaced_box_width_height = lambda box, cb: None
    h, v = case['h'], case['v']
    box = object.__new__(boxes.BlockReplacedBox)
    box.style = _style(case['ltr'])
    box.left, box.right, box.width = _v(h['l']), _v(h['r']), Fraction(h['w'])
    box.margin_left, box.margin_right = _v(h['ml']), _v(h['mr'])
    box.padding_left, box.padding_right = Fraction(h['pl']), Fraction(h['pr'])
    box.border_left_width, box.border_right_width = Fraction(h['bl']), Fraction(h['br'])
    box.position_x = Fraction(h['px'])
    box.top, box.bottom, box.height = _v(v['l']), _v(v['r']), Fraction(v['w'])
    box.margin_top, box.margin_bottom = _v(v['ml']), _v(v['mr'])
    box.padding_top, box.padding_bottom = Fraction(v['pl']), Fraction(v['pr'])
    box.border_top_width, box.border_bottom_width = Fraction(v['bl']), Fraction(v['br'])
    box.position_y = Fraction(v['px'])
    new = absolute.absolute_replaced(None, box, Fraction(h['cbx']), Fraction(v['cbx']), Fraction(h['cbw']), Fraction(v['cbw']))
    return [[_s(new.left), _s(new.right), _s(new.margin_left), _s(new.margin_right), str(Fraction(new.position_x))],
            [_s(new.top), _s(new.bottom), _s(new.margin_top), _s(new.margin_bottom), str(Fraction(new.position_y))],
            [str(Fraction(new.width)), str(Fraction(new.height))]]
