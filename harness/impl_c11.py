"""Implementation-side functions for C11 (run in worker processes; weasyprint imported from REPO)."""
import sys
from fractions import Fraction
from types import SimpleNamespace


def _v(x):
    return 'auto' if x == 'auto' else Fraction(x)


def _s(x):
    return 'auto' if x == 'auto' else str(Fraction(x))


def _style(ltr):
    # ltr = parent_style is None or parent_style['direction'] == 'ltr'
    if ltr == 'root':
        return SimpleNamespace(parent_style=None)
    return SimpleNamespace(parent_style={'direction': 'ltr' if ltr else 'rtl'})


# ------------------------------------------------------------------------------ absolute.py, direct calls

def absw(case):
    """absolute_width (decorated by handle_min_max_width) on a stub box with Fraction fields.
    shrink_to_fit is an oracle: replaced by a -> min(max(mn, a), mx)."""
    from weasyprint.layout import absolute
    mn, mx = Fraction(case['mn']), Fraction(case['mx'])
    original = absolute.shrink_to_fit
    absolute.shrink_to_fit = lambda context, box, a: min(max(mn, a), mx)
    try:
        return _absw(absolute, case)
    finally:
        absolute.shrink_to_fit = original          # the same worker renders whole documents later


def _absw(absolute, case):
    box = SimpleNamespace(
        left=_v(case['l']), right=_v(case['r']), width=_v(case['w']),
        margin_left=_v(case['ml']), margin_right=_v(case['mr']),
        padding_left=Fraction(case['pl']), padding_right=Fraction(case['pr']),
        border_left_width=Fraction(case['bl']), border_right_width=Fraction(case['br']),
        position_x=Fraction(case['px']), position_y=Fraction(0), style=_style(case['ltr']),
        min_width=Fraction(case['minw']),
        max_width=(float('inf') if case['maxw'] == 'inf' else Fraction(case['maxw'])))
    fn = absolute.absolute_width if case.get('decorated', True) else absolute.absolute_width.without_min_max
    tbw, tx = fn(box, None, Fraction(case['cbx']), Fraction(0), Fraction(case['cbw']), Fraction(0))
    return [_s(box.width), _s(box.margin_left), _s(box.margin_right), bool(tbw), str(Fraction(tx)),
            str(box.position_x)]


def absh(case):
    """absolute_height (decorated by handle_min_max_height) on a stub box with Fraction fields."""
    from weasyprint.layout import absolute
    box = SimpleNamespace(
        top=_v(case['l']), bottom=_v(case['r']), height=_v(case['w']),
        margin_top=_v(case['ml']), margin_bottom=_v(case['mr']),
        padding_top=Fraction(case['pl']), padding_bottom=Fraction(case['pr']),
        border_top_width=Fraction(case['bl']), border_bottom_width=Fraction(case['br']),
        position_x=Fraction(0), position_y=Fraction(case['px']), style=_style(True),
        min_height=Fraction(case['minw']),
        max_height=(float('inf') if case['maxw'] == 'inf' else Fraction(case['maxw'])))
    tbh, ty = absolute.absolute_height(box, None, Fraction(0), Fraction(case['cbx']), Fraction(0), Fraction(case['cbw']))
    return [_s(box.height), _s(box.margin_top), _s(box.margin_bottom), bool(tbh), str(Fraction(ty)),
            str(box.position_y)]


def absr(case):
    """absolute_replaced on a real BlockReplacedBox instance (its margin_width() etc. are the real ones) whose
    used width/height are given (inline_replaced_box_width_height is stubbed out)."""
    from weasyprint.layout import absolute
    from weasyprint.formatting_structure import boxes
    original = absolute.inline_replaced_box_width_height
    absolute.inline_replaced_box_width_height = lambda box, cb: None
    try:
        return _absr(absolute, boxes, case)
    finally:
        absolute.inline_replaced_box_width_height = original


def _absr(absolute, boxes, case):
    h, v = case['h'], case['v']
    box = object.__new__(boxes.BlockReplacedBox)
    box.style = _style(case['ltr'])
    box.left, box.right, box.width = _v(h['l']), _v(h['r']), Fraction(h['w'])
    box.margin_left, box.margin_right = _v(h['ml']), _v(h['mr'])
    box.padding_left, box.padding_right = Fraction(h['pl']), Fraction(h['pr'])
    box.border_left_width, box.border_right_width = Fraction(h['bl']), Fraction(h['br'])
    box.position_x = Fraction(h['px'])
    box.top, box.bottom, box.height = _v(v['l']), _v(v['r']), Fraction(v['w'])
    box.margin_top, box.margin_bottom = _v(v['ml']), _v(v['mr'])
    box.padding_top, box.padding_bottom = Fraction(v['pl']), Fraction(v['pr'])
    box.border_top_width, box.border_bottom_width = Fraction(v['bl']), Fraction(v['br'])
    box.position_y = Fraction(v['px'])
    new = absolute.absolute_replaced(None, box, Fraction(h['cbx']), Fraction(v['cbx']), Fraction(h['cbw']), Fraction(v['cbw']))
    return [[_s(new.left), _s(new.right), _s(new.margin_left), _s(new.margin_right), str(Fraction(new.position_x))],
            [_s(new.top), _s(new.bottom), _s(new.margin_top), _s(new.margin_bottom), str(Fraction(new.position_y))],
            [str(Fraction(new.width)), str(Fraction(new.height))]]


# ------------------------------------------------------------------------------------ float.py, direct calls

def _shape(s):
    """an excluded shape: (float side, x, y, margin width, margin height)"""
    side, x, y, w, h = s
    x, y, w, h = Fraction(x), Fraction(y), Fraction(w), Fraction(h)
    return SimpleNamespace(position_x=x, position_y=y, margin_width=lambda: w, margin_height=lambda: h,
                           style={'float': side})


def _cb(cbx, cbw, rtl=False):
    cbx, cbw = Fraction(cbx), Fraction(cbw)
    return SimpleNamespace(content_box_x=lambda: cbx, width=cbw, style={'direction': 'rtl' if rtl else 'ltr'})


def _fbox(b):
    """b: dict(kind, py, ml, mr, mt, mb, bw, bh); a real box instance whose geometry methods are the real ones:
    the border box is made of width/height only (paddings and borders 0)."""
    from weasyprint.formatting_structure import boxes
    kind = b['kind']
    cls = {'left': boxes.BlockBox, 'right': boxes.BlockBox, 'line': boxes.LineBox, 'table': boxes.BlockBox,
           'bfc': boxes.BlockBox, 'replaced': boxes.BlockReplacedBox}[kind]
    box = object.__new__(cls)
    box.style = {'float': kind if kind in ('left', 'right') else 'none', 'position': 'static',
                 'overflow': 'hidden', 'display': ('block', 'flow'), 'direction': 'ltr'}
    box.children = []
    box.is_table_wrapper = kind == 'table'
    box.is_column = False
    box.position_x = Fraction(b.get('px', 0))
    box.position_y = Fraction(b['py'])
    box.margin_left, box.margin_right = Fraction(b['ml']), Fraction(b['mr'])
    box.margin_top, box.margin_bottom = Fraction(b['mt']), Fraction(b['mb'])
    box.width, box.height = Fraction(b['bw']), Fraction(b['bh'])
    for side in ('left', 'right', 'top', 'bottom'):
        setattr(box, 'padding_' + side, 0)
        setattr(box, 'border_%s_width' % side, 0)
    return box


def ffp(case):
    """find_float_position on a stub context: case = dict(shapes, cbx, cbw, box)."""
    from weasyprint.layout import float as fl
    context = SimpleNamespace(excluded_shapes=[_shape(s) for s in case['shapes']])
    box = _fbox(case['box'])
    new = fl.find_float_position(context, box, _cb(case['cbx'], case['cbw'], case.get('rtl', False)))
    return [str(Fraction(new.position_x)), str(Fraction(new.position_y))]


def avc(case):
    """avoid_collisions(outer=False) for a line / table wrapper / replaced block / formatting-context root."""
    from weasyprint.layout import float as fl
    context = SimpleNamespace(excluded_shapes=[_shape(s) for s in case['shapes']])
    box = _fbox(case['box'])
    x, y, aw = fl.avoid_collisions(context, box, _cb(case['cbx'], case['cbw'], case.get('rtl', False)), outer=False)
    return [str(Fraction(x)), str(Fraction(y)), str(Fraction(aw))]


def fseq(case):
    """a sequence of floats placed one after the other into an empty context, as float_layout does after the
    layout of each float: find_float_position then excluded_shapes.append(box)."""
    from weasyprint.layout import float as fl
    context = SimpleNamespace(excluded_shapes=[])
    out = []
    for req in case['reqs']:
        box = _fbox(req['box'])
        new = fl.find_float_position(context, box, _cb(req['cbx'], req['cbw']))
        context.excluded_shapes.append(new)
        out.append([str(Fraction(new.position_x)), str(Fraction(new.position_y))])
    return out


def clr(case):
    from weasyprint.layout import float as fl
    context = SimpleNamespace(excluded_shapes=[_shape(s) for s in case['shapes']])
    box = SimpleNamespace(position_y=Fraction(case['py']), style={'clear': case['clear']})
    if case.get('cm') is None:
        r = fl.get_clearance(context, box)
    else:
        r = fl.get_clearance(context, box, Fraction(case['cm']))
    return None if r is None else str(Fraction(r))


# ------------------------------------------------------------------------ relative_positioning, direct call

def _rbox(t):
    """t = dict(rel, inline, ltr, offs=[l,r,t,b], x, y, kids)"""
    from weasyprint.formatting_structure import boxes
    from weasyprint.css.properties import Dimension
    box = object.__new__(boxes.InlineBox if t['inline'] else boxes.BlockBox)

    def dim(v):
        return 'auto' if v == 'auto' else Dimension(Fraction(v), 'px')
    l, r, tp, bo = t['offs']
    box.style = {'position': 'relative' if t['rel'] else 'static', 'direction': 'ltr' if t['ltr'] else 'rtl',
                 'left': dim(l), 'right': dim(r), 'top': dim(tp), 'bottom': dim(bo), 'float': 'none'}
    box.position_x, box.position_y = Fraction(t['x']), Fraction(t['y'])
    box.children = [_rbox(k) for k in t['kids']]
    return box


def _positions(box, out):
    out.append([str(Fraction(box.position_x)), str(Fraction(box.position_y))])
    for c in box.children:
        _positions(c, out)
    return out


def rel(case):
    from weasyprint.layout import block
    box = _rbox(case['tree'])
    sibling = _rbox(case['tree'])
    r = block.relative_positioning(box, (Fraction(case['cbw']), Fraction(case['cbh'])))
    return {'ret': r is None, 'pos': _positions(box, []), 'sibling': _positions(sibling, [])}


def dispatch(case):
    return globals()[case['fn']](case['case'])


# ------------------------------------------------------------------------------------------- full renders

def _eid(b):
    el = getattr(b, 'element', None)
    return el.get('id') if el is not None else None


def _unwrap(b):
    return getattr(b, '_box', b) if type(b).__name__ == 'AbsolutePlaceholder' else b


def render_floats(case):
    """Render and list, in document (pre-)order, the floats, line boxes, formatting-context roots, tables and
    clearing blocks of the root formatting context, each with the content box of its containing block."""
    from tests.testing_utils import render_pages
    from weasyprint.formatting_structure import boxes
    from weasyprint.layout import float as fl
    placed = {}
    orig = fl.find_float_position

    def logging_find_float_position(context, box, containing_block):
        # stale: the list of excluded shapes holds a box of the very element being placed, or two boxes of one element
        # (left there by an earlier layout pass of the same line)
        els = [id(s.element) for s in context.excluded_shapes if getattr(s, 'element', None) is not None]
        stale = len(set(els)) < len(els) or id(box.element) in els
        new = orig(context, box, containing_block)
        # who asked: inline.py lays a float met in a line out at once (_out_of_flow_layout) or after the line
        # (the waiting_floats loop of get_next_linebox); block.py for block-level floats
        via, fr = 'block', sys._getframe(1)
        for _ in range(8):
            if fr is None:
                break
            name = fr.f_code.co_name
            if fr.f_code.co_filename.endswith('inline.py') and name in ('_out_of_flow_layout', 'get_next_linebox'):
                via = 'at-once' if name == '_out_of_flow_layout' else 'waiting'
                break
            fr = fr.f_back
        # position decided by float.py and the rank of this call (the order in which floats are placed)
        placed[id(new)] = (new.position_x, new.position_y, len(placed), stale, via)
        return new
    fl.find_float_position = logging_find_float_position
    try:
        pages = render_pages(case['html'])
    finally:
        fl.find_float_position = orig
    recs = []
    counter = [0]
    # source (document) order of the elements
    src = {}
    root_box = pages[0].children[0] if pages and pages[0].children else None
    if root_box is not None and getattr(root_box, 'element', None) is not None:
        for i, el in enumerate(root_box.element.iter()):
            src[id(el)] = i

    def content_rect(line):
        """the extent of the visible in-flow inline content of a line box (the LineBox rectangle may still hold a
        collapsible space kept at the end of the text when an out-of-flow box follows it in the line: finding F203)"""
        xs = []

        def go(b):
            b = _unwrap(b)
            if not isinstance(b, boxes.Box) or not b.is_in_normal_flow():
                return
            if isinstance(b, boxes.TextBox) or not getattr(b, 'children', None):
                if b.width and b.width > 0:
                    x0, x1 = b.position_x, b.position_x + b.margin_width()
                    text = getattr(b, 'text', None)
                    if isinstance(b, boxes.TextBox) and text and text.strip(' '):
                        # collapsible spaces at the ends of a text box are not visible content (the one at the end
                        # of a line is kept in the box when a float follows it)
                        per = b.width / len(text)
                        lead = (len(text) - len(text.lstrip(' '))) * per
                        trail = (len(text) - len(text.rstrip(' '))) * per
                        if b.style['direction'] == 'rtl':
                            lead, trail = trail, lead
                        x0, x1 = x0 + lead, x1 - trail
                    elif isinstance(b, boxes.TextBox) and text is not None and not text.strip(' '):
                        return
                    xs.append((x0, x1))
                return
            for c in b.children:
                go(c)
        for c in line.children:
            go(c)
        if not xs:
            return None
        return min(a for a, _ in xs), max(b for _, b in xs)

    def visit(b, cb, in_root_bfc, parent_id):
        b = _unwrap(b)
        counter[0] += 1
        idx = counter[0]
        is_float = isinstance(b, boxes.Box) and b.style['float'] in ('left', 'right')
        rec = None
        if isinstance(b, boxes.Box) and not isinstance(b, (boxes.TextBox, boxes.PageBox, boxes.MarginBox)):
            kind = None
            if is_float:
                kind = 'float'
            elif isinstance(b, boxes.LineBox):
                kind = 'line'
            elif isinstance(b, boxes.BlockBox) and b.is_table_wrapper:
                kind = 'table'
            elif isinstance(b, (boxes.BlockBox, boxes.BlockReplacedBox)) and b.is_in_normal_flow() and (
                    b.establishes_formatting_context() or isinstance(b, boxes.BlockReplacedBox)) and _eid(b) not in (None,) \
                    and b.element_tag not in ('html',):
                kind = 'bfc'
            elif isinstance(b, boxes.BlockBox) and b.is_in_normal_flow():
                kind = 'block'
            if kind and in_root_bfc and cb is not None:
                rec = dict(kind=kind, idx=idx, id=_eid(b), parent=parent_id,
                           x=b.position_x, y=b.position_y,
                           mw=b.margin_width(), mh=b.margin_height(),
                           bx=b.border_box_x(), by=b.border_box_y(), bw=b.border_width(), bh=b.border_height(),
                           side=b.style['float'], clear=b.style['clear'],
                           anon=(b.element is None) or bool(getattr(b, 'is_anonymous', False)),
                           cbx=cb.content_box_x(), cby=cb.content_box_y(), cbw=cb.width, cb_id=_eid(cb))
                if kind == 'line':
                    cr = content_rect(b)
                    rec['cx'], rec['cw'] = (cr[0], cr[1] - cr[0]) if cr else (b.position_x, 0)
                    # a float met after some in-flow content of the same line (mechanism of finding F50)
                    seen_content, after = False, False

                    def scan(x):
                        nonlocal seen_content, after
                        x = _unwrap(x)
                        if isinstance(x, boxes.Box) and x.style['float'] in ('left', 'right'):
                            after = after or seen_content
                        elif isinstance(x, boxes.TextBox) or not getattr(x, 'children', None):
                            seen_content = seen_content or (isinstance(x, boxes.Box) and x.is_in_normal_flow())
                        else:
                            for y in x.children:
                                scan(y)
                    for c in b.children:
                        scan(c)
                    rec['float_after_content'] = after
                if kind == 'float':
                    pl = placed.get(id(b))
                    rec['placed'] = pl[:2] if pl else None
                    rec['seq'] = pl[2] if pl else None
                    rec['stale'] = bool(pl[3]) if pl else False
                    rec['via'] = pl[4] if pl else None
                rec['src'] = src.get(id(b.element)) if b.element is not None else None
                rec['dir'] = cb.style['direction']
                recs.append(rec)
        inside = in_root_bfc and not (
            is_float or (isinstance(b, boxes.Box) and not isinstance(b, (boxes.PageBox, boxes.LineBox, boxes.InlineBox, boxes.TextBox))
                         and b.element_tag != 'html' and b.establishes_formatting_context()))
        new_cb = b if isinstance(b, boxes.BlockContainerBox) and not isinstance(b, boxes.PageBox) else cb
        for c in getattr(b, 'children', ()) or ():
            visit(c, new_cb, inside, idx)
    for page in pages:
        visit(page, None, True, 0)
    return dict(npages=len(pages), recs=recs)


def render_abs(case):
    """Render; for every element whose id starts with 'a' (absolutely positioned) report its margin box, used
    margins and sizes, and the padding box of the element named by case['cb'][id] (None = the page area)."""
    from tests.testing_utils import render_pages
    from weasyprint.formatting_structure import boxes
    pages = render_pages(case['html'])
    out = []
    for pi, page in enumerate(pages):
        byid = {}

        def visit(b):
            b = _unwrap(b)
            if isinstance(b, boxes.Box) and _eid(b) is not None and not isinstance(b, (boxes.LineBox, boxes.TextBox)):
                byid.setdefault(_eid(b), b)
            for c in getattr(b, 'children', ()) or ():
                visit(c)
        visit(page)
        for eid, cbid in case['cb'].items():
            b = byid.get(eid)
            if b is None:
                continue
            if cbid is None:
                cbrect = (page.content_box_x(), page.content_box_y(), page.width, page.height)
            else:
                cb = byid.get(cbid)
                if cb is None:
                    continue
                cbrect = (cb.padding_box_x(), cb.padding_box_y(), cb.padding_width(), cb.padding_height())
            out.append(dict(id=eid, page=pi, x=b.position_x, y=b.position_y, w=b.width, h=b.height,
                            ml=b.margin_left, mr=b.margin_right, mt=b.margin_top, mb=b.margin_bottom,
                            padh=b.padding_left + b.padding_right + b.border_left_width + b.border_right_width,
                            padv=b.padding_top + b.padding_bottom + b.border_top_width + b.border_bottom_width,
                            cb=cbrect, replaced=isinstance(b, boxes.ReplacedBox)))
    return dict(npages=len(pages), boxes=out)


def render_positions(case):
    """Render; the position and size of the first box of every element with an id, per page."""
    from tests.testing_utils import render_pages
    from weasyprint.formatting_structure import boxes
    pages = render_pages(case['html'])
    out = []
    for pi, page in enumerate(pages):
        seen = {}

        def visit(b):
            b = _unwrap(b)
            if isinstance(b, boxes.Box) and _eid(b) is not None and not isinstance(b, boxes.LineBox):
                if _eid(b) not in seen:
                    seen[_eid(b)] = [b.position_x, b.position_y, b.width, b.height, type(b).__name__]
            for c in getattr(b, 'children', ()) or ():
                visit(c)
        visit(page)
        out.append(seen)
    return out


def render_fixed(case):
    """render_positions plus the used margin-top of every element with an id (sixth field)."""
    from tests.testing_utils import render_pages
    from weasyprint.formatting_structure import boxes
    pages = render_pages(case['html'])
    out = []
    for pi, page in enumerate(pages):
        seen = {}

        def visit(b):
            b = _unwrap(b)
            if isinstance(b, boxes.Box) and _eid(b) is not None and not isinstance(b, boxes.LineBox):
                if _eid(b) not in seen:
                    mt = b.margin_top
                    seen[_eid(b)] = [b.position_x, b.position_y, b.width, b.height, type(b).__name__,
                                     mt if isinstance(mt, (int, float)) else None]
            for c in getattr(b, 'children', ()) or ():
                visit(c)
        visit(page)
        out.append(seen)
    return out


def render_relative_pair(case):
    return {'with': render_positions({'html': case['html']}), 'without': render_positions({'html': case['html_plain']})}
