"""Implementation-side functions for the grid part of C12 (run in worker processes; weasyprint from REPO).

Every function renders a complete document with tests.testing_utils.render_pages and observes
  * the placement: the `children_positions` argument of weasyprint.layout.grid._resolve_tracks_sizes
    (dict child box -> (x, y, width, height) in track units), captured by wrapping that function,
  * the track sizes it returns (first component of each [base, growth] pair),
  * the rectangles of the rendered children of the GridBox.
Floats are returned as exact 'numerator/denominator' strings (Fraction(float))."""
from fractions import Fraction

_CAP = {}
_PATCHED = [False]


def _patch():
    if _PATCHED[0]:
        return
    import weasyprint.layout.grid as G
    orig = G._resolve_tracks_sizes

    def wrapped(sizing_functions, box_size, children_positions, implicit_start, direction, gap, context,
                containing_block, orthogonal_sizes=None):
        if containing_block.element is not None and containing_block.element.get('id') == 'c':
            _CAP['pos'] = {c.element.get('id'): list(v) for c, v in children_positions.items()}
            _CAP['n' + direction] = len(sizing_functions)
            _CAP['box' + direction] = box_size
        res = orig(sizing_functions, box_size, children_positions, implicit_start, direction, gap, context,
                   containing_block, orthogonal_sizes)
        if containing_block.element is not None and containing_block.element.get('id') == 'c':
            _CAP['sizes' + direction] = [s for s, _ in res]
        return res
    G._resolve_tracks_sizes = wrapped
    _PATCHED[0] = True


def _q(x):
    if isinstance(x, bool) or not isinstance(x, (int, float)):
        return repr(x)
    if x != x or x in (float('inf'), float('-inf')):
        return repr(x)
    return str(Fraction(x))


def gl_css(g):
    if g == 'auto':
        return 'auto'
    k, n = g
    return ('%d' % n) if k == 'L' else ('span %d' % n)


def place_html(case):
    """case: dict(cols=[px], rows=[px], auto_col, auto_row, flow, width, gap_c, gap_r,
                   items=[dict(cs, ce, rs, re, order)]) ; a grid line is 'auto' | ['L', n] | ['S', n]."""
    st = ['display:grid', 'width:%dpx' % case['width'],
          'grid-auto-columns:%dpx' % case['auto_col'], 'grid-auto-rows:%dpx' % case['auto_row'],
          'grid-auto-flow:%s' % case['flow'], 'column-gap:%dpx' % case['gap_c'], 'row-gap:%dpx' % case['gap_r']]
    if case['cols']:
        st.append('grid-template-columns:' + ' '.join('%dpx' % c for c in case['cols']))
    if case['rows']:
        st.append('grid-template-rows:' + ' '.join('%dpx' % c for c in case['rows']))
    if case.get('extra'):
        st.append(case['extra'])
    items = []
    for i, it in enumerate(case['items']):
        s = 'grid-column-start:%s;grid-column-end:%s;grid-row-start:%s;grid-row-end:%s;order:%d' % (
            gl_css(it['cs']), gl_css(it['ce']), gl_css(it['rs']), gl_css(it['re']), it['order'])
        items.append('<div id=i%d style="%s"></div>' % (i, s))
    return ('<style>@page{size:4000px 4000px;margin:0}body{margin:0}#c{%s}</style><div id=c>%s</div>'
            % (';'.join(st), ''.join(items)))


def _render(html, n_items):
    from tests.testing_utils import render_pages
    _patch()
    _CAP.clear()
    pages = render_pages(html)
    page = pages[0]
    html_, = page.children
    body, = html_.children
    c = body.children[0]
    rects = {}
    for ch in c.children:
        rects[ch.element.get('id')] = [_q(ch.position_x), _q(ch.position_y), _q(ch.width), _q(ch.height)]
    pos = _CAP.get('pos', {})
    return dict(
        npages=len(pages), kind=type(c).__name__,
        placement=[pos.get('i%d' % i) for i in range(n_items)],
        rects=[rects.get('i%d' % i) for i in range(n_items)],
        order=[ch.element.get('id') for ch in c.children],
        cols=[_q(s) for s in _CAP.get('sizesx', [])], rows=[_q(s) for s in _CAP.get('sizesy', [])],
        container=[_q(c.content_box_x()), _q(c.content_box_y()), _q(c.width), _q(c.height)])


def place(case):
    return _render(place_html(case), len(case['items']))


def tracks_html(case):
    """case: dict(cols=[track], rows=[track], width, height, gap_c, gap_r, jc, ac,
                   items=[dict(x, y, w, h, cw, chh)])  track = ['px', n] | ['pct', n] | ['fr', 'a/b'];
    items are placed by explicit line numbers (x, y 0-based, spans w, h) and contain one fixed-size block
    (cw x chh px, 0 = none) so that min-content contributions are exactly known."""
    def tr(t):
        k, v = t
        if k == 'px':
            return '%dpx' % v
        if k == 'pct':
            return '%d%%' % v
        return '%sfr' % (repr(float(Fraction(v))))
    st = ['display:grid', 'width:%dpx' % case['width'], 'height:%dpx' % case['height'],
          'column-gap:%dpx' % case['gap_c'], 'row-gap:%dpx' % case['gap_r'],
          'grid-template-columns:' + ' '.join(tr(t) for t in case['cols']),
          'grid-template-rows:' + ' '.join(tr(t) for t in case['rows'])]
    if case['jc'] != 'normal':
        st.append('justify-content:' + case['jc'])
    if case['ac'] != 'normal':
        st.append('align-content:' + case['ac'])
    items = []
    for i, it in enumerate(case['items']):
        s = 'grid-column-start:%d;grid-column-end:span %d;grid-row-start:%d;grid-row-end:span %d' % (
            it['x'] + 1, it['w'], it['y'] + 1, it['h'])
        inner = ''
        if it['cw'] or it['chh']:
            inner = '<div style="width:%dpx;height:%dpx"></div>' % (it['cw'], it['chh'])
        items.append('<div id=i%d style="%s">%s</div>' % (i, s, inner))
    return ('<style>@page{size:4000px 4000px;margin:0}body{margin:0}#c{%s}</style><div id=c>%s</div>'
            % (';'.join(st), ''.join(items)))


def tracks(case):
    return _render(tracks_html(case), len(case['items']))


def html(case):
    """replay of a minimal HTML witness: case = dict(html=..., n=items)."""
    return _render(case['html'], case['n'])
