"""Implementation-side functions for the grid part of C12 (run in worker processes; weasyprint from REPO).

Every function renders a complete document with tests.testing_utils.render_pages and observes
  * the placement: the `children_positions` argument of weasyprint.layout.grid._resolve_tracks_sizes
    (dict child box -> (x, y, width, height) in track units, counted from the first implicit track), captured by
    wrapping that function,
  * the track sizes it returns (first component of each [base, growth] pair),
  * the rectangles of the rendered children of the GridBox.
Floats are returned as exact 'numerator/denominator' strings (Fraction(float))."""
from fractions import Fraction

# imported at module level on purpose: common._worker_call imports this module BEFORE arming its alarm, so the
# (slow, ~1 s) first import of weasyprint can never be interrupted by a short per-case time limit
from tests.testing_utils import render_pages
import weasyprint.layout.grid as G
import p_c12grid          # the HTML builders live on the harness side (pure Python, no weasyprint import)

_CAP = {}
_PATCHED = [False]


def _patch():
    if _PATCHED[0]:
        return
    orig = G._resolve_tracks_sizes

    import inspect
    sig = inspect.signature(orig)

    def wrapped(*args, **kwargs):
        ba = sig.bind(*args, **kwargs)
        a = ba.arguments
        containing_block, direction = a['containing_block'], a['direction']
        mine = containing_block.element is not None and containing_block.element.get('id') == 'c'
        if mine:
            # children_positions: areas counted from the first implicit track (since a7930c3)
            _CAP['pos'] = {c.element.get('id'): list(v) for c, v in a['children_positions'].items()}
            _CAP['n' + direction] = len(a['sizing_functions'])
            _CAP['box' + direction] = a['box_size']
        res = orig(*args, **kwargs)
        if mine:
            _CAP['sizes' + direction] = [s for s, _ in res]
        return res
    G._resolve_tracks_sizes = wrapped
    _PATCHED[0] = True


def _q(x):
    if isinstance(x, bool) or not isinstance(x, (int, float)):
        return repr(x)
    if x != x or x in (float('inf'), float('-inf')):
        return repr(x)
    return str(Fraction(x))


def _render(html, n_items):
    _patch()
    _CAP.clear()
    pages = render_pages(html)
    page = pages[0]
    html_, = page.children
    body, = html_.children
    c = body.children[0]
    rects = {}
    for ch in c.children:
        rects[ch.element.get('id')] = [_q(ch.position_x), _q(ch.position_y), _q(ch.width), _q(ch.height)]
    pos = _CAP.get('pos', {})
    return dict(
        npages=len(pages), kind=type(c).__name__,
        placement=[pos.get('i%d' % i) for i in range(n_items)],
        rects=[rects.get('i%d' % i) for i in range(n_items)],
        order=[ch.element.get('id') for ch in c.children],
        cols=[_q(s) for s in _CAP.get('sizesx', [])], rows=[_q(s) for s in _CAP.get('sizesy', [])],
        container=[_q(c.content_box_x()), _q(c.content_box_y()), _q(c.width), _q(c.height)])


def place(case):
    return _render(p_c12grid.place_html(case), len(case['items']))


def tracks(case):
    return _render(p_c12grid.tracks_html(case), len(case['items']))


def html(case):
    """replay of a minimal HTML witness: case = dict(html=..., n=items)."""
    return _render(case['html'], case['n'])
