"""C15 - counters and cross-references print the right numbers."""
import random, json, re, os
import common
from common import slit

PRE_STYLE = ('From Coq Require Import ZArith List String Uint63.\n'
             'Require Import WV.model.C15Style WV.model.C15StyleSpec.\n'
             'Import ListNotations.\nOpen Scope string_scope.\nOpen Scope Z_scope.\n')

# ------------------------------------------------------------------------------- Coq literals

def tlit(s):
    if not s:
        return '[]'
    if '\x00' in s or any(0xd800 <= ord(ch) < 0xe000 for ch in s):
        return '[%s]' % ';'.join(str(ord(ch)) for ch in s)
    return '(u "%s")' % s.replace('"', '""')      # UTF-8 bytes in a string literal, decoded by C15Style.u


def symlit(s):
    return '(SStr %s)' % tlit(s[1]) if s[0] == 'string' else 'SUrl'


def optlit(x, f):
    return 'None' if x is None else '(Some %s)' % f(x)


def boundlit(b):
    return 'BPosInf' if b == 'inf' else 'BNegInf' if b == '-inf' else '(BInt (%d))' % b


def rangelit(r):
    if r == 'auto':
        return 'RAuto'
    return '(RList [%s])' % ';'.join('RItemAuto' if i == 'auto' else '(RItem %s %s)' % (boundlit(i[0]), boundlit(i[1]))
                                     for i in r)


def stylelit(d):
    return '(mkStyle %s %s %s %s %s %s %s %s %s)' % (
        optlit(d['system'], lambda s: '(mkSys %s %s %s)' % ('true' if s[0] else 'false', slit(s[1]),
                                                             optlit(s[2], lambda z: '(%d)' % z))),
        optlit(d['negative'], lambda n: '(%s, %s)' % (symlit(n[0]), symlit(n[1]))),
        optlit(d['prefix'], symlit), optlit(d['suffix'], symlit), optlit(d['range'], rangelit),
        optlit(d['pad'], lambda p: '(%d, %s)' % (p[0], symlit(p[1]))),
        optlit(d['fallback'], slit),
        optlit(d['symbols'], lambda l: '[%s]' % ';'.join(symlit(x) for x in l)),
        optlit(d['additive_symbols'], lambda l: '[%s]' % ';'.join('(%d, %s)' % (w, symlit(s)) for w, s in l)))


def styleslit(entries):
    return '[%s]' % ';\n '.join('(%s, %s)' % (slit(k), stylelit(d)) for k, d in entries)


def cnamelit(n):
    if isinstance(n, str):
        return '(CName %s)' % slit(n)
    if n[0] == 'symbols()':
        return '(CSymbols %s [%s])' % (slit(n[1][0]), ';'.join(tlit(x) for x in n[1][1:]))
    return '(CString %s)' % tlit(n[1])


def outlit(o):
    if o[0] == 'ok':
        return '(ROk %s)' % tlit(o[1])
    return 'RExc' if o[0] == 'exc' else 'RFuel'


def outline(o):
    return 'o' + o[1] if o[0] == 'ok' else 'e' if o[0] == 'exc' else 'r'


def caselit(user, with_spec, queries, outs):
    """queries grouped by consecutive (marker, name); values and outcomes as string literals."""
    groups, cur = [], None
    for qu, o in zip(queries, outs):
        key = (qu[0], json.dumps(qu[1]))
        if cur is None or cur[0] != key:
            cur = (key, qu, [], [])
            groups.append(cur)
        cur[2].append(str(qu[2]))
        line = outline(o)
        assert '\n' not in line and '\x00' not in line
        cur[3].append(line)
    gl = []
    for _, qu, vs, ls in groups:
        data = (' '.join(vs) + '\n' + '\n'.join(ls)).encode('utf-8')
        data += b'\0' * (-len(data) % 7)
        ints = [int.from_bytes(data[k:k + 7], 'little') for k in range(0, len(data), 7)]
        gl.append('(mkgroup %s %s [%s])' % ('true' if qu[0] else 'false', cnamelit(qu[1]),
                                                          '; '.join('%d%%uint63' % x for x in ints)))
    return '(mkcase %s %s [%s])' % (styleslit(user), 'true' if with_spec else 'false', ';\n  '.join(gl))


CASE_T = 'styles * bool * list group'

# ------------------------------------------------------------------------- classification of deviations
# mechanisms of the genuine deviations between counters.py and CSS Counter Styles 3 that this check knows;
# each is reported through run.fail with its signature (suppressed only if known_findings.json lists it as open)


SYSTEM_KEYWORDS = ('cyclic', 'numeric', 'alphabetic', 'symbolic', 'additive', 'fixed')


def classify(user, q, out, base_names=()):
    """signature of a known open deviation from the specification explaining query q.  All the counter-style
    findings (F56-F62, F165) are repaired: nothing is excused, every deviation is reported as a violation."""
    return None


# ------------------------------------------- the descriptor layer: a reference reading of @counter-style rules
# CSS Counter Styles 3, section 3, written from the grammar of each descriptor (tokens by tinycss2, which is not
# the code under test).  The streams that go through weasyprint.CSS give the Coq judge THIS reading of the sheet:
# the printed numbers are compared with the specification applied to what the author wrote, not to what the
# validators of weasyprint/css/validation/descriptors.py made of it.
#
#   system:           cyclic | numeric | alphabetic | symbolic | additive | [fixed <integer>?] | [extends <name>]
#   negative:         <symbol> <symbol>?
#   prefix, suffix:   <symbol>
#   range:            [ [ <integer> | infinite ]{2} ]# | auto          (lower bound > upper bound: invalid)
#   pad:              <integer [0,inf]> && <symbol>
#   fallback:         <counter-style-name>
#   symbols:          <symbol>+
#   additive-symbols: [ <integer [0,inf]> && <symbol> ]#              (weights strictly descending, else invalid)
#   <symbol> = <string> | <image> | <custom-ident>      <counter-style-name> = <custom-ident> other than none
# An invalid declaration (or one with !important) is ignored; names and keywords are ASCII case-insensitive; a rule
# whose system lacks its symbols (1 for cyclic/fixed/symbolic, 2 for alphabetic/numeric, 1 tuple for additive) or an
# extends rule with symbols / additive-symbols defines no counter style.

FIELDS = ('system', 'negative', 'prefix', 'suffix', 'range', 'pad', 'fallback', 'symbols', 'additive_symbols')
CSS_WIDE = ('inherit', 'initial', 'unset', 'revert', 'revert-layer', 'default')
# deviations of the validators from the grammar that are (or were) open findings, reproducible in the reference:
# a sheet whose reading differs from the implementation's is attributed to one of them only if switching that ONE
# quirk on makes the two readings equal
# (F250, F251, F254, F255, F256 are repaired in /repo: their switches stay in the reference reader, unused)
QUIRKS = ('additive-needs-two-tuples',)


def _r_symbol(t, quirks=()):
    if t.type == 'string':
        return ['string', t.value]
    if t.type == 'ident' and t.lower_value not in CSS_WIDE:
        return ['string', t.value]
    if t.type == 'url' or (t.type == 'function' and t.lower_name == 'url'):
        return ['url', '']
    return None


def _r_name(t, quirks=()):
    if t.type == 'ident' and t.lower_value not in CSS_WIDE and (t.lower_value != 'none'):
        return t.value
    return None


def _r_integer(t):
    return t.int_value if t.type == 'number' and t.is_integer else None


def _r_system(toks, quirks):
    if not toks or toks[0].type != 'ident':
        return None
    kw = toks[0].lower_value
    if kw in ('cyclic', 'numeric', 'alphabetic', 'symbolic', 'additive'):
        return [False, kw, None] if len(toks) == 1 else None
    if kw == 'fixed':
        if len(toks) == 1:
            return [False, 'fixed', 1]
        n = _r_integer(toks[1]) if len(toks) == 2 else None
        return None if n is None else [False, 'fixed', n]
    if kw == 'extends' and len(toks) == 2:
        n = _r_name(toks[1])
        return None if n is None else [True, n, None]
    return None


def _r_negative(toks, quirks):
    if 'negative-skips-non-symbols' in quirks and len(toks) <= 2:
        vals = [v for v in (_r_symbol(t, quirks) for t in toks) if v is not None]
        return None if not vals else vals + [['string', '']] * (2 - len(vals))
    if len(toks) not in (1, 2):
        return None
    vals = [_r_symbol(t, quirks) for t in toks]
    if None in vals:
        return None
    return vals + [['string', '']] * (2 - len(vals))


def _r_one_symbol(toks, quirks):
    return _r_symbol(toks[0], quirks) if len(toks) == 1 else None


def _split_commas(toks):
    parts, cur = [], []
    for t in toks:
        if t.type == 'literal' and t.value == ',':
            parts.append(cur)
            cur = []
        else:
            cur.append(t)
    return parts + [cur]


def _r_range(toks, quirks):
    if len(toks) == 1 and toks[0].type == 'ident' and toks[0].lower_value == 'auto':
        return 'auto'
    out = []
    for part in _split_commas(toks):
        if 'range-auto-in-list' in quirks and len(part) == 1 and part[0].type == 'ident' and part[0].lower_value == 'auto':
            out.append('auto')
            continue
        if len(part) != 2:
            return None
        b = []
        for i, t in enumerate(part):
            inf = t.type == 'ident' and (t.value if 'infinite-case-sensitive' in quirks else t.lower_value) == 'infinite'
            if inf:
                b.append('inf' if i else '-inf')
            elif _r_integer(t) is not None:
                b.append(_r_integer(t))
            else:
                return None
        if b[0] != '-inf' and b[1] != 'inf' and b[0] > b[1]:
            return None
        out.append(b)
    return out


def _r_int_and_symbol(toks, quirks):
    if len(toks) != 2:
        return None
    for a, b in ((toks[0], toks[1]), (toks[1], toks[0])):
        n, sy = _r_integer(a), _r_symbol(b, quirks)
        if n is not None and n >= 0 and sy is not None:
            return [n, sy]
    return None


def _r_fallback(toks, quirks):
    return _r_name(toks[0]) if len(toks) == 1 else None


def _r_symbols(toks, quirks):
    if not toks:
        return [] if 'empty-symbols-accepted' in quirks else None
    vals = [_r_symbol(t, quirks) for t in toks]
    return None if None in vals else vals


def _r_additive(toks, quirks):
    out = []
    for part in _split_commas(toks):
        v = _r_int_and_symbol(part, quirks)
        if v is None or (out and out[-1][0] <= v[0]):
            return None
        out.append(v)
    return out


REF_DESCRIPTORS = {'system': _r_system, 'negative': _r_negative, 'prefix': _r_one_symbol, 'suffix': _r_one_symbol,
                   'range': _r_range, 'pad': _r_int_and_symbol, 'fallback': _r_fallback, 'symbols': _r_symbols,
                   'additive-symbols': _r_additive}


def ref_defines(e, quirks=()):
    system = e['system'] or [False, 'symbolic', None]
    if system[0]:
        return e['symbols'] is None and e['additive_symbols'] is None
    if system[1] == 'additive':
        return len(e['additive_symbols'] or []) >= (2 if 'additive-needs-two-tuples' in quirks else 1)
    return len(e['symbols'] or []) >= (2 if system[1] in ('alphabetic', 'numeric') else 1)


def ref_sheet(css, quirks=()):
    """the counter styles a sheet defines, [[name, entry]] in the shape of impl_c15.dump_style (the predefined
    styles are present: decimal and disc cannot be redefined)"""
    import tinycss2
    out = {}
    for rule in tinycss2.parse_stylesheet(css, skip_comments=True, skip_whitespace=True):
        if rule.type != 'at-rule' or rule.lower_at_keyword != 'counter-style' or rule.content is None:
            continue
        prelude = [t for t in rule.prelude if t.type not in ('whitespace', 'comment')]
        if len(prelude) != 1 or prelude[0].type != 'ident':
            continue
        name = prelude[0].value
        if prelude[0].lower_value in ('none', 'decimal', 'disc') + CSS_WIDE:
            continue
        e = dict.fromkeys(FIELDS)
        for d in tinycss2.parse_blocks_contents(rule.content):
            if d.type != 'declaration' or d.important:
                continue
            dname = d.name if 'descriptor-name-case-sensitive' in quirks else d.lower_name
            f = REF_DESCRIPTORS.get(dname)
            if f is None:
                continue
            v = f([t for t in d.value if t.type not in ('whitespace', 'comment')], quirks)
            if v is not None:
                e[dname.replace('-', '_')] = v
        if ref_defines(e, quirks):
            out.pop(name, None)
            out[name] = e
    return [[k, v] for k, v in out.items()]


def _norm_entry(e):
    e = dict(e)
    if isinstance(e.get('range'), list) and 'auto' in e['range'] and len(e['range']) == 1:
        e['range'] = 'auto'                     # the validator stores range: auto as ('auto',)
    return json.loads(json.dumps(e))


def layer_diff(intended, impl_user):
    """[(style name, descriptor | None for the whole rule, reference reading, implementation's reading)]"""
    a = {k: _norm_entry(v) for k, v in intended}
    b = {k: _norm_entry(v) for k, v in impl_user}
    out = []
    for k in sorted(set(a) | set(b)):
        if k not in a or k not in b:
            out.append([k, None, a.get(k), b.get(k)])
            continue
        for f in FIELDS:
            if a[k][f] != b[k][f]:
                out.append([k, f, a[k][f], b[k][f]])
    return out


def layer_signature(css, impl_user):
    """the known deviations of the validators that together make the reference read the sheet as the implementation
    did (a minimal set: none of them can be left out), as signatures; None when even all of them do not"""
    need = list(QUIRKS)
    if layer_diff(ref_sheet(css, need), impl_user):
        return None
    for qk in QUIRKS:
        rest = [x for x in need if x != qk]
        if not layer_diff(ref_sheet(css, rest), impl_user):
            need = rest
    return ['c15:descriptor-layer:' + qk for qk in need]


# ------------------------------------------------------------------------- spellings the grammar allows
IDENT_RE = re.compile(r'-?[A-Za-z_¡-￿][A-Za-z0-9_¡-￿-]*\Z')


def sp_string(rng, s):
    quote = '"' if rng.random() < 0.75 else "'"
    out = ''
    for ch in s:
        if ch == '\\' or ch == quote:
            out += '\\' + ch
        elif rng.random() < 0.05:
            out += '\\%x ' % ord(ch)            # hexadecimal escape, ended by one space
        else:
            out += ch
    return quote + out + quote


def sp_symbol(rng, s):
    """<symbol>: a string, or an identifier when the text is one"""
    if IDENT_RE.match(s) and s.lower() not in CSS_WIDE + ('none',) and rng.random() < 0.3:
        return s
    return sp_string(rng, s)


def sp_int(rng, n):
    r = rng.random()
    if n >= 0 and r < 0.08:
        return '+%d' % n
    if n >= 0 and r < 0.12:
        return '0%d' % n
    return '%d' % n


def sp_kw(rng, kw):
    r = rng.random()
    return kw.upper() if r < 0.02 else kw.capitalize() if r < 0.04 else kw


def sp_join(rng, comps):
    """components separated by white space, comments, or nothing where a quote delimits"""
    out = comps[0] if comps else ''
    for c in comps[1:]:
        r = rng.random()
        quote = out[-1:] in '"\'' or c[:1] in '"\''
        if r < 0.7:
            sep = ' '
        elif r < 0.78:
            sep = '  '
        elif r < 0.84:
            sep = '\n'
        elif r < 0.88:
            sep = '\t'
        elif r < 0.93:
            sep = ' /**/ '
        elif r < 0.96:
            sep = '/* c */'
        else:
            sep = '' if quote and out[-1:] != '\\' else ' '
        out += sep + c
    return out


def sp_pair(rng, n, s):
    """<integer> && <symbol>: both orders"""
    comps = [sp_int(rng, n), sp_symbol(rng, s)]
    if rng.random() < 0.5:
        comps.reverse()
    return comps


def sp_negative(rng, pre, suf):
    if suf == '' and rng.random() < 0.6:
        return [sp_symbol(rng, pre)]
    return [sp_symbol(rng, pre), sp_symbol(rng, suf)]


def sp_bound(rng, b):
    return sp_kw(rng, 'infinite') if b == 'infinite' else sp_int(rng, int(b)) if int(b) >= 0 and rng.random() < 0.3 else str(b)


JUNK = ['7', '1.5', '-2', '2px', '50%', '"j"', 'junk', ',', '1e1', '3.0', '#x', 'f(1)']


def sp_decl(rng, dname, groups, odd=False):
    """one declaration from its comma-separated groups of components; in odd cases sometimes a token is dropped,
    doubled, replaced or inserted (the reference reads the text, valid or not), or !important is appended"""
    groups = [list(g) for g in groups]
    tail = ''
    if odd and rng.random() < 0.12:
        r = rng.random()
        g = rng.choice(groups)
        if r < 0.2 and g:
            del g[rng.randrange(len(g))]
        elif r < 0.35 and g:
            g.insert(rng.randrange(len(g) + 1), rng.choice(g))
        elif r < 0.6 and g:
            g[rng.randrange(len(g))] = rng.choice(JUNK)
        elif r < 0.8:
            g.insert(rng.randrange(len(g) + 1), rng.choice(JUNK))
        elif r < 0.88:
            groups = [[]]
        elif r < 0.94:
            groups.append(list(rng.choice(groups)))
        else:
            tail = rng.choice([' !important', '!important', ' ! IMPORTANT'])
    r = rng.random()
    name = dname.upper() if r < 0.006 else dname.capitalize() if r < 0.012 else dname
    comma = rng.choice([', ', ', ', ',', ' , ', ',\n'])
    colon = rng.choice([': ', ': ', ': ', ':', ' : '])
    return name + colon + comma.join(sp_join(rng, g) for g in groups) + tail


# ----------------------------------------------------------------------------------- generators

SYMS = ['a', 'b', 'c', '*', 'ab', '', '0', '1', 'é', '〇', 'xyz', '-', '\U0001d7d8']
NAMES = ['a', 'b', 'c', 'd', 'e', 'k1']
ODD_NAMES = ['numeric', 'cyclic', 'additive', 'lower-roman', 'decimal', 'disc', 'upper-alpha']
UA_NAMES = ['decimal', 'lower-roman', 'upper-alpha', 'disc', 'decimal-leading-zero', 'cjk-decimal', 'hebrew',
            'japanese-informal', 'lower-latin', 'armenian']
SYSTEMS = ['cyclic', 'numeric', 'alphabetic', 'symbolic', 'additive', 'fixed']


def q(s):
    return '"%s"' % s.replace('\\', '\\\\').replace('"', '\\"')


def gen_rule(rng, name, all_names, odd):
    """text of one @counter-style rule; mostly valid, every descriptor sometimes odd; every descriptor in the
    spellings its grammar allows (sp_* above)"""
    ds = []
    r = rng.random()
    system = None
    if r < 0.12:
        system = None
    elif r < 0.30:
        tgt = rng.choice(all_names + UA_NAMES + ['nosuch'] if rng.random() < 0.8 else [name])
        system = [sp_kw(rng, 'extends'), tgt]
    else:
        system = [rng.choice(SYSTEMS)]
        if system[0] == 'fixed' and rng.random() < 0.6:
            system.append(sp_int(rng, rng.choice([-3, 0, 1, 2, 5, 10])))
        system[0] = sp_kw(rng, system[0])
    if system:
        ds.append(sp_decl(rng, 'system', [system], odd))
    kind = (system or ['symbolic'])[0].lower()
    if kind == 'additive':
        pool = [(1000, 'M'), (100, 'C'), (50, 'L'), (10, 'X'), (9, 'IX'), (7, 'S'), (5, 'V'), (4, 'IV'), (3, 'T'),
                (2, 'II'), (1, 'I'), (0, 'Z')]
        k = rng.choice([1, 2, 2, 3, 4, 6, 12])
        sel = sorted(rng.sample(pool, k), reverse=True)
        if odd and rng.random() < 0.05:
            sel = sel[::-1]
        ds.append(sp_decl(rng, 'additive-symbols', [sp_pair(rng, w, s) for w, s in sel], odd))
    elif kind != 'extends' or (odd and rng.random() < 0.25):
        lo = {'alphabetic': 2, 'numeric': 2}.get(kind, 1)
        n = rng.choice([lo, lo, lo + 1, 3, 5, 10])
        if odd and rng.random() < 0.08:
            n = max(0, lo - 1)
        if kind == 'numeric' and rng.random() < 0.3:
            symbols = [str(i) for i in range(n)]
        else:
            symbols = [rng.choice(SYMS) for _ in range(n)]
        ds.append(sp_decl(rng, 'symbols', [[sp_symbol(rng, s) for s in symbols]], odd))
    if rng.random() < 0.45:
        def b():
            return rng.choice(['infinite', '-60', '-5', '-1', '0', '1', '2', '3', '7', '12', '40', '100', '1000', '4999'])
        def one():
            for _ in range(20):
                lo, hi = b(), b()
                if lo == 'infinite' or hi == 'infinite' or int(lo) <= int(hi):
                    return [sp_bound(rng, lo), sp_bound(rng, hi)]
            return ['1', '5']
        r = rng.random()
        if r < 0.12:
            groups = [[sp_kw(rng, 'auto')]]
        elif odd and r < 0.16:
            groups = [one(), ['auto']]
        elif r < 0.7:
            groups = [one()]
        elif r < 0.93:
            groups = [one(), one()]
        else:
            groups = [one(), one(), one()]
        ds.append(sp_decl(rng, 'range', groups, odd))
    if rng.random() < 0.35:
        pre, suf = rng.choice([('-', ''), ('(', ')'), ('(', ')'), ('neg', ''), ('', ''), ('\u2212', ''), ('minus', ''),
                               ('<', ''), ('', ')'), ('-', ' cr'), ('((', '))'), ('m ', ' \u00e9'), ('neg', 'cr')])
        ds.append(sp_decl(rng, 'negative', [sp_negative(rng, pre, suf)], odd))
    if rng.random() < 0.35:
        ds.append(sp_decl(rng, 'pad', [sp_pair(rng, rng.choice([0, 1, 2, 3, 5, 8]), rng.choice(['0', ' ', 'xy', '', '*', 'o']))],
                          odd))
    if rng.random() < 0.25:
        ds.append(sp_decl(rng, 'prefix', [[sp_symbol(rng, rng.choice(['[', '', '(', 'No.', 'no']))]], odd))
    if rng.random() < 0.3:
        ds.append(sp_decl(rng, 'suffix', [[sp_symbol(rng, rng.choice([']', '', ') ', ': ', 'th']))]], odd))
    if rng.random() < 0.5:
        ds.append(sp_decl(rng, 'fallback', [[rng.choice(all_names + all_names + UA_NAMES + ['nosuch', 'none'])]], odd))
    if odd and rng.random() < 0.1:                     # a descriptor given twice: the last valid one counts
        ds.append(sp_decl(rng, 'pad', [sp_pair(rng, rng.choice([0, 4, 6]), rng.choice(['0', '#']))], odd))
    rng.shuffle(ds)
    end = rng.choice(['', '', ';', '; '])
    return '@counter-style %s { %s%s }' % (name, rng.choice(['; ', '; ', ';', ';\n']).join(ds), end)


def gen_values(rng, n):
    vals = set(rng.sample(range(-12, 31), 18))
    vals |= {0, 1, -1}
    while len(vals) < n:
        r = rng.random()
        if r < 0.4:
            vals.add(rng.randint(-60, 120))
        elif r < 0.7:
            vals.add(rng.choice([-60, -5, -1, 0, 1, 2, 3, 7, 12, 40, 100, 1000, 4999]) + rng.choice([-1, 0, 1]))
        else:
            vals.add(rng.randint(-50, 5000))
    vals = sorted(vals)
    return sorted(rng.sample(vals, n)) if len(vals) > n else vals


def gen_css_case(rng, odd):
    k = rng.choice([1, 2, 2, 3, 4, 5])
    pool = NAMES + (ODD_NAMES if odd else [])
    names = rng.sample(pool, min(k, len(pool)))
    css = '\n'.join(gen_rule(rng, n, names, odd) for n in names)
    queries = []
    for n in names + [rng.choice(UA_NAMES), 'nosuch']:
        for v in gen_values(rng, rng.choice([24, 40])):
            queries.append([False, n, v])
        for v in rng.sample(range(-3, 12), 3):
            queries.append([True, n, v])
    return {'css': css, 'use_ua': True, 'queries': queries, 'odd': odd}


def gen_anon_case(rng):
    queries = []
    for _ in range(6):
        if rng.random() < 0.2:
            name = ['string', rng.choice(SYMS)]
        else:
            system = rng.choice(['cyclic', 'numeric', 'alphabetic', 'symbolic', 'fixed'])
            n = rng.choice([2, 3, 5]) if system in ('numeric', 'alphabetic') else rng.choice([1, 2, 3])
            name = ['symbols()', [system] + [rng.choice(SYMS) for _ in range(n)]]
        for v in gen_values(rng, 24):
            queries.append([rng.random() < 0.2, name, v])
    return {'css': None, 'use_ua': True, 'queries': queries, 'odd': True}


def gen_raw_style(rng, names):
    """a dictionary entry built directly: any shape the code could meet, including ones no stylesheet produces."""
    def sym():
        return ['string', rng.choice(SYMS)] if rng.random() < 0.9 else ['url', '']
    def opt(p, f):
        return f() if rng.random() < p else None
    kind = rng.choice(SYSTEMS + ['extends', 'extends', None, 'bogus'])
    if kind == 'extends':
        system = [True, rng.choice(names + ['decimal', 'nosuch']), None]
    elif kind is None:
        system = None
    else:
        system = [False, kind, rng.choice([1, 0, 5, -2]) if kind == 'fixed' and rng.random() < 0.9 else None]
    def rng_item():
        if rng.random() < 0.08:
            return 'auto'
        lo = rng.choice(['-inf', -20, -3, 0, 1, 5])
        hi = rng.choice(['inf', 30, 10, 5, 2])
        return [lo, hi]
    ws = sorted(rng.sample([100, 50, 10, 9, 5, 4, 2, 1, 0, -3], rng.choice([0, 1, 2, 3, 5])), reverse=True)
    if rng.random() < 0.1:
        rng.shuffle(ws)
    return {
        'system': system,
        'negative': opt(0.4, lambda: [sym(), sym()]),
        'prefix': opt(0.3, sym), 'suffix': opt(0.3, sym),
        'range': opt(0.5, lambda: 'auto' if rng.random() < 0.2 else [rng_item() for _ in range(rng.choice([1, 1, 2]))]),
        'pad': opt(0.4, lambda: [rng.choice([0, 2, 4, 7]), sym()]),
        'fallback': opt(0.6, lambda: rng.choice(names + ['decimal', 'nosuch'])),
        'symbols': opt(0.8, lambda: [sym() for _ in range(rng.choice([0, 1, 2, 2, 3, 4]))]),
        'additive_symbols': opt(0.6, lambda: [[w, sym()] for w in ws]),
    }


DECIMAL = {'system': [False, 'numeric', None], 'negative': None, 'prefix': None, 'suffix': None, 'range': None,
           'pad': None, 'fallback': None, 'symbols': [['string', str(i)] for i in range(10)], 'additive_symbols': None}


def gen_raw_case(rng):
    names = rng.sample(['a', 'b', 'c', 'd', 'numeric', 'symbolic'], rng.choice([1, 2, 3, 4]))
    raw = [[n, gen_raw_style(rng, names)] for n in names]
    r = rng.random()
    nv = 20
    if r < 0.85:
        raw.append(['decimal', DECIMAL])
    elif r < 0.93:
        raw.append(['decimal', gen_raw_style(rng, names)])     # may not terminate: few queries
        nv = 4
    queries = []
    for n in names + ['decimal', 'nosuch']:
        for v in gen_values(rng, nv):
            queries.append([rng.random() < 0.15, n, v])
    return {'css': None, 'raw': raw, 'use_ua': False, 'queries': queries, 'odd': True}


# --------------------------------------------------------------------------------- corpus

def load_corpus(kind):
    """minimised regression cases (the fixed findings), evaluated first in their stream."""
    d = os.path.join(common.VERIF, 'corpus', 'C15')
    out = []
    if os.path.isdir(d):
        for f in sorted(os.listdir(d)):
            if f.endswith('.json'):
                c = json.load(open(os.path.join(d, f)))
                if c.get('kind') == kind:
                    out.append(c)
    return out


# --------------------------------------------------------------------------------- stream driver

CHUNK = 60        # queries per Coq case (the judge's result encodes two indices < 64)

WHAT = {}


def run_style_cases(run, stream, tag, cases, base_entries, with_spec, per_file=None, impl_fn='render_queries',
                    via='direct calls of render_value / render_marker'):
    """cases: impl cases (dicts).  Returns number of queries evaluated."""
    import time
    t0 = time.time()
    outs = common.run_impl('impl_c15', impl_fn, cases, limit=120, chunksize=2)
    t1 = time.time()
    coq, owner = [], []          # one Coq case per chunk of <= CHUNK queries; owner = (case, offset, what is judged)
    nsheets, layer_bad = 0, []
    for c, (st, o) in zip(cases, outs):
        if st != 'ok':
            if impl_fn == 'render_queries' and st == 'exc' and o.get('site') and c.get('css'):
                run.fail('a style sheet with @counter-style rules raised %s at %s while it was parsed' % (o['type'], o['site']),
                         {'stream': c.get('stream', stream), 'css': c.get('css'), 'outcome': o, 'via': 'parse_sheet'},
                         signature='crash:%s' % (o['site'],))
            elif impl_fn == 'render_queries':
                run.fail('render_queries harness call failed: %s' % (o,), {'stream': stream, 'case': c, 'outcome': o},
                         signature='c15:harness')
            else:
                run.fail('render of a document using @counter-style %s' % (
                    'timed out' if st == 'timeout' else 'raised %s at %s' % (o['type'], o['site'])),
                    {'stream': stream, 'css': c.get('css'), 'queries': c['queries'], 'outcome': o},
                    signature='timeout' if st == 'timeout' else 'crash:%s' % (o['site'],))
            continue
        c = dict(c, user=o['user'], outs=o['outs'])
        spec_here = with_spec and not c.get('nospec')
        if c.get('css') and not c.get('raw'):
            # the sheet as the grammar reads it: the specification is applied to THAT dictionary
            c['intended'] = ref_sheet(c['css'])
            c['layer_diff'] = layer_diff(c['intended'], o['user'])
            nsheets += 1
            if c['layer_diff']:
                c['layer_sig'] = layer_signature(c['css'], o['user'])
                if c['layer_sig'] is None:
                    # not explained by the known deviations: what remains once these are granted is what is reported
                    c['intended'] = ref_sheet(c['css'], QUIRKS)
                    c['layer_diff'] = layer_diff(c['intended'], o['user'])
                layer_bad.append(c)
        for k in range(0, len(c['queries']), CHUNK):
            qs, os_ = c['queries'][k:k + CHUNK], o['outs'][k:k + CHUNK]
            if c.get('layer_diff'):
                # two readings of the sheet: the model follows counters.py on the implementation's dictionary,
                # the specification is judged on the reference's
                coq.append(caselit(o['user'], False, qs, os_))
                owner.append((c, k, 'model'))
                if spec_here:
                    coq.append(caselit(c['intended'], True, qs, os_))
                    owner.append((c, k, 'spec'))
            else:
                coq.append(caselit(o['user'], spec_here, qs, os_))
                owner.append((c, k, 'both'))
    pre = PRE_STYLE + 'Definition base : styles :=\n %s.\n' % styleslit(base_entries)
    try:
        res = common.eval_cases(tag, pre, CASE_T, coq, 'judge_case base', per_file=per_file or len(coq) // 16 + 1)
    except RuntimeError as exc:
        run.oblige('corr:' + stream, False, str(exc))
        return 0
    run.stream_info(stream, impl_s=round(t1 - t0, 1), coq_s=round(time.time() - t1, 1), coq_cases=len(coq))
    labels = sorted({c.get('stream', stream) for c, _, _ in owner} | {stream})
    mism, nqs, sigs, unclassified = {l: [] for l in labels}, {l: 0 for l in labels}, {}, []
    base_names = [k for k, _ in base_entries]
    for (c, k, mode), r in zip(owner, res):
        label = c.get('stream', stream)
        if mode != 'spec':
            nqs[label] += min(CHUNK, len(c['queries']) - k)
        mask, idx = r % 4, r // 4
        if mode == 'spec':
            mask &= 2
        if mask == 0:
            continue
        i0, i1 = idx // 64, idx % 64
        def data_of(i):
            d = {'stream': label, 'css': c.get('css'), 'raw': c.get('raw'), 'use_ua': c.get('use_ua', True),
                 'user': c['user'], 'query': c['queries'][k + i - 1], 'impl': c['outs'][k + i - 1], 'via': impl_fn}
            if c.get('layer_diff'):
                d['descriptor_layer'] = {'differences (style, descriptor, grammar, implementation)': c['layer_diff'][:6],
                                         'reference': c['intended']}
            return d
        if mask & 1 and i0:
            mism[label].append(data_of(i0))
        if mask & 2 and i1:
            data = data_of(i1)
            if c.get('layer_diff'):
                for sig in c.get('layer_sig') or []:
                    sigs.setdefault(sig, data)
                if not c.get('layer_sig'):
                    unclassified.append(data)
                continue
            sig = classify(c['user'], data['query'], data['impl'], base_names)
            if sig is None:
                unclassified.append(data)
            elif sig not in sigs:
                sigs[sig] = data
    for l in labels:
        run.oblige('corr:%s(model = counters.py, strings compared)' % l, not mism[l],
                   'first disagreements: %s' % json.dumps(mism[l][:2])[:3000])
    if nsheets:
        # the descriptor layer itself, also where no queried value shows the difference
        unexplained = [c for c in layer_bad if c.get('layer_sig') is None]
        explained = {}
        for c in layer_bad:
            for sig in c.get('layer_sig') or []:
                explained[sig] = explained.get(sig, 0) + 1
        run.oblige('corr:%s(descriptor validators = reference reading of the @counter-style grammar)' % stream, not unexplained,
                   'first sheets read differently: %s' % json.dumps([{'css': c['css'], 'differences': c['layer_diff'][:4]}
                                                                     for c in unexplained[:2]])[:3000])
        run.stream_info(stream, sheets_through_the_descriptor_layer=nsheets, sheets_read_differently=len(layer_bad),
                        attributed_to_known_deviations=explained)
    # one unclassified failing input per stream label first, so that every stream that finds one reports it
    first_per_label = {}
    for d in unclassified:
        first_per_label.setdefault(d['stream'], d)
    for sig, data in list(sigs.items()) + [(None, d) for d in first_per_label.values()]:
        what = WHAT.get(sig, 'counter representation differs from CSS Counter Styles 3 (%s)' % via)
        if data.get('descriptor_layer'):
            dls = data['descriptor_layer']['differences (style, descriptor, grammar, implementation)']
            dl = ([x for x in dls if x[0] == data['query'][1]] or dls)[0]
            what = ('@counter-style descriptor read differently from its grammar (%s of %s: the grammar gives %s, the '
                    'validators %s); %s' % (dl[1] or 'whole rule', dl[0], json.dumps(dl[2])[:120], json.dumps(dl[3])[:120], what))
        run.fail('%s: %s(%s) printed %r' % (what, data['query'][1], data['query'][2], data['impl']), data,
                 signature=sig)
    return nqs if len(labels) > 1 else nqs[stream]


# ------------------------------------------------------- pad x negative, systematically (direct and rendered)

NEG_PREFIX = ['-', '(', 'neg ', '', '\u2212\u2212', '<<']
NEG_SUFFIX = [')', ' cr', '))', '\u00e9', '>', '']
PAD_SYMBOLS = ['0', '0', '*', ' ', 'xy', '']


def gen_padneg_case(rng, nvalues):
    """one clean sheet (no extends, no odd names, fallback decimal): a base style of each chosen system with a
    two-part negative (prefix AND suffix, multi-character ones included) and ten copies that differ by consecutive
    pad values, so that pad = natural length - 1, + 0, + 1 occurs for the values queried (-1, -10, range minimum...).
    Every descriptor is written in one of the spellings its grammar allows (sp_*)."""
    system = rng.choice(['numeric', 'numeric', 'alphabetic', 'symbolic', 'additive', 'cyclic', 'fixed'])
    lo = rng.choice([-1000, -60, -12])
    ds = []
    def symbols(l):
        return sp_decl(rng, 'symbols', [[sp_symbol(rng, x) for x in l]])
    def rng_lo():
        return sp_decl(rng, 'range', [[str(lo), sp_int(rng, 5000)]])
    def rng_inf():
        return sp_decl(rng, 'range', [[sp_kw(rng, 'infinite'), sp_kw(rng, 'infinite')]])
    if system == 'numeric':
        base = rng.choice([2, 3, 10, 10])
        syms = [str(i) for i in range(base)] if rng.random() < 0.7 else [rng.choice(['a', 'b', 'xy', '〇']) for _ in range(base)]
        ds += [sp_decl(rng, 'system', [[sp_kw(rng, 'numeric')]]), symbols(syms)]
        if rng.random() < 0.5:
            ds.append(rng_lo())
    elif system in ('alphabetic', 'symbolic'):
        syms = rng.choice([['a', 'b'], ['a', 'b', 'c'], ['x', 'yz'], ['*']]) if system == 'symbolic' else \
            rng.choice([['a', 'b'], ['a', 'b', 'c'], ['x', 'yz', 'w']])
        ds += [sp_decl(rng, 'system', [[sp_kw(rng, system)]]), symbols(syms)]
        ds.append(rng.choice([rng_lo, rng_inf])())                                     # auto would exclude negatives
    elif system == 'additive':
        tuples = rng.choice([[(10, 'X'), (9, 'IX'), (5, 'V'), (4, 'IV'), (1, 'I')], [(100, 'C'), (10, 'X'), (1, 'I'), (0, 'Z')],
                             [(5, 'V'), (2, 'II')], [(7, 'S'), (1, 'i')], [(1, 'I')]])
        ds += [sp_decl(rng, 'system', [[sp_kw(rng, 'additive')]]),
               sp_decl(rng, 'additive-symbols', [sp_pair(rng, w, x) for w, x in tuples])]
        ds.append(rng.choice([rng_lo, rng_inf])())
    elif system == 'cyclic':
        ds += [sp_decl(rng, 'system', [[sp_kw(rng, 'cyclic')]]), symbols(rng.choice([['a'], ['a', 'b', 'c'], ['xy', 'z']]))]
    else:
        ds += [sp_decl(rng, 'system', [[sp_kw(rng, 'fixed'), sp_int(rng, rng.choice([-12, -3, 0, 1]))]]),
               symbols(['a', 'b', 'cd', 'e', 'f', 'g', 'h', 'i'][:rng.choice([3, 8])])]
    pre = rng.choice(NEG_PREFIX)
    suf = rng.choice(NEG_SUFFIX[:5]) if rng.random() < 0.85 else ''
    ds.append(sp_decl(rng, 'negative', [sp_negative(rng, pre, suf)]))
    padsym = rng.choice(PAD_SYMBOLS)
    k0 = rng.choice([0, 1, 2, 3, 4])
    if rng.random() < 0.3:
        ds.append(sp_decl(rng, 'prefix', [[sp_symbol(rng, rng.choice(['', '[', 'No. ']))]]))
        ds.append(sp_decl(rng, 'suffix', [[sp_symbol(rng, rng.choice(['', '] ', '.']))]]))
    rules, names = [], []
    for i in range(10):
        name = 'p%d' % i
        names.append(name)
        rules.append('@counter-style %s { %s; %s }' % (name, '; '.join(ds), sp_decl(rng, 'pad', [sp_pair(rng, k0 + i, padsym)])))
    vals = [-1, -2, -9, -10, -11, -100, lo, lo + 1, lo - 1, 0, 1, 10]
    vals += [rng.randint(-120, -1) for _ in range(3)] + [rng.randint(-5000, 5000)]
    vals = sorted(set(vals))
    if len(vals) > nvalues:
        keep = [-1, -10, lo]
        vals = sorted(set(keep + rng.sample([v for v in vals if v not in keep], nvalues - len(keep))))
    queries = []
    for name in names:
        for v in vals:
            queries.append([False, name, v])
        queries.append([True, name, rng.choice([-1, -10, lo])])
    return {'css': '\n'.join(rules), 'use_ua': True, 'queries': queries, 'odd': False, 'system': system,
            'negative': [pre, suf], 'pad': [k0, padsym]}


PADNEG_RULE = ('per case one clean style (numeric, alphabetic, symbolic, additive; cyclic and fixed where the sign '
               'does not apply) with negative prefix AND suffix (1-3 characters, empty ones sometimes) and ten copies '
               'with consecutive pad values (pad symbol 1 or 2 characters or empty), values -1 -2 -9 -10 -11 -100, '
               'the range minimum and its neighbours, 0 1 10 and random ones: pad = natural length -1 / +0 / +1 '
               'occurs for each; render_value and render_marker called directly')


def padneg_direct_cases(rng, thorough):
    return [dict(gen_padneg_case(rng, 16), stream='pad-negative-direct') for _ in range(240 if thorough else 30)]


def padneg_streams(run, rng, ua, thorough):
    cases = [gen_padneg_case(rng, 6) for _ in range(160 if thorough else 20)]
    for i in range(0, len(cases), 4):                 # every fourth document uses the wide random rules instead
        cases[i] = dict(gen_css_case(rng, odd=False), system='random')
        cases[i]['queries'] = [qu for qu in cases[i]['queries'] if qu[1] != 'nosuch'][:90]
    n = run_style_cases(run, 'counter-style-renders', 'c15cr', cases, ua, True, impl_fn='render_counter_doc',
                        via='full render: @counter-style + counter() / list marker in a document')
    run.count('counter-style-renders', n, [c['css'] for c in cases], samples=[cases[1]['css'][:400]])
    run.stream_info('counter-style-renders',
                    rule='the same sheets (3 of 4 documents) and random @counter-style sheets (1 of 4) put in a real document: '
                         'every query is an element whose ::before prints counter(n, style) with counter-reset: n value, or a '
                         'display:list-item element whose marker uses list-style-type: style; the text of the generated box is '
                         'compared with the model and with the specification function')


def ua_cases(rng, ua, thorough):
    cases = []
    for name, _ in ua:
        if thorough:
            vals = list(range(-50, 5001))
        else:
            vals = set(range(-50, 131)) | {3998, 3999, 4000, 4001, 9998, 9999, 10000, 4999, 5000, 999, 1000, 1001,
                                           19999, 20000, 10999, 11000, -9999, -10000}
            vals |= set(rng.sample(range(131, 5001), 120))
            vals = sorted(vals)
        for i in range(0, len(vals), 320):
            chunk = vals[i:i + 320]
            cases.append({'css': None, 'use_ua': True, 'queries': [[False, name, v] for v in chunk]})
        cases.append({'css': None, 'use_ua': True, 'queries': [[True, name, v] for v in (-2, 0, 1, 7, 12, 4000)]})
    return cases


# ------------------------------------------------------------------------------- counter scoping (renders)

PRE_SCOPE = ('From Coq Require Import ZArith List String.\nRequire Import WV.model.C15Scope.\n'
             'Import ListNotations.\nOpen Scope string_scope.\nOpen Scope Z_scope.\n')
SCOPE_T = 'list name * node * printed'
OBS_NAMES = ['a', 'b', 'c', 'list-item']
CONTENT = ' "|" '.join('counters(%s, ".")' % n for n in OBS_NAMES)


def gen_upd(rng, kind, list_context):
    names = ['a', 'a', 'b', 'c'] + (['list-item'] * 2 if list_context else ['list-item'])
    k = rng.choice([1, 1, 1, 2, 2, 3])
    out = []
    for _ in range(k):
        n = rng.choice(names)
        v = rng.choice([None, None, 0, 1, 1, 2, 3, 5, -1, -2, 10])
        if kind == 'set' and v is None:
            v = 0
        out.append([n, v])
    return out


def gen_props(rng, list_context, pseudo=False):
    p = {'reset': None, 'set': None, 'inc': None}
    if rng.random() < (0.2 if pseudo else 0.3):
        p['reset'] = gen_upd(rng, 'reset', list_context)
    if rng.random() < 0.12:
        p['set'] = gen_upd(rng, 'set', list_context)
    r = rng.random()
    if r < (0.5 if pseudo else 0.3):
        p['inc'] = gen_upd(rng, 'inc', list_context)
    elif r < 0.36:
        p['inc'] = []                  # counter-increment: none
    return p


def gen_scope_node(rng, depth, counter, in_list):
    counter[0] += 1
    eid = 'e%d' % counter[0]
    # html5lib closes an open <li> at the next <li> (even through div) and <p> at block tags: li only directly in
    # ol/ul, no p, so that the parsed tree is the generated tree
    r = rng.random()
    if in_list and r < 0.75:
        tag = 'li'
    elif r < 0.25:
        tag = rng.choice(['ol', 'ol', 'ul'])
    else:
        tag = rng.choice(['div', 'div', 'span', 'section'])
    display = None
    r = rng.random()
    if r < 0.06:
        display = 'none'
    elif r < 0.14:
        display = 'list-item'
    elif r < 0.2:
        display = rng.choice(['block', 'inline', 'inline-block'])
    props = gen_props(rng, in_list or tag in ('ol', 'ul', 'li'))
    before = gen_props(rng, in_list, True) if rng.random() < 0.6 else None
    after = gen_props(rng, in_list, True) if rng.random() < 0.35 else None
    marker = rng.choice(['content', 'content', 'default'])
    kids = []
    if depth < 4:
        nk = rng.choice([0, 1, 2, 2, 3, 4]) if tag not in ('ol', 'ul') else rng.choice([1, 2, 3, 4, 5])
        for _ in range(nk):
            kids.append(gen_scope_node(rng, depth + 1, counter, tag in ('ol', 'ul')))
    return {'id': eid, 'tag': tag, 'display': display, 'props': props, 'before': before, 'after': after,
            'marker': marker, 'kids': kids}


def upd_css(l):
    return 'none' if not l else ' '.join(n if v is None else '%s %d' % (n, v) for n, v in l)


def props_css(p):
    out = []
    if p['reset'] is not None:
        out.append('counter-reset: ' + upd_css(p['reset']))
    if p['set'] is not None:
        out.append('counter-set: ' + upd_css(p['set']))
    if p['inc'] is not None:
        out.append('counter-increment: ' + upd_css(p['inc']))
    return out


def scope_html(root):
    rules, body = [], []
    def walk(n):
        decl = props_css(n['props'])
        if n['display']:
            decl.append('display: ' + n['display'])
        if decl:
            rules.append('#%s { %s }' % (n['id'], '; '.join(decl)))
        for kind in ('before', 'after'):
            if n[kind] is not None:
                rules.append('#%s::%s { content: %s; %s }' % (n['id'], kind, CONTENT, '; '.join(props_css(n[kind]))))
        if n['marker'] == 'content':
            rules.append('#%s::marker { content: %s }' % (n['id'], CONTENT))
        body.append('<%s id="%s">' % (n['tag'], n['id']))
        if not n['kids']:
            body.append('a')
        for k in n['kids']:
            walk(k)
        body.append('</%s>' % n['tag'])
    walk(root)
    return ('<style>@page{size:30000px 100000px;margin:0} body{margin:0;font-family:weasyprint;font-size:10px;white-space:nowrap;'
            'line-height:10px} ol,ul,li,div,section{margin:0;padding:0} li, div, section, span, ol, ul {list-style-position:inside;'
            'list-style-type:decimal}\n%s</style>%s' % ('\n'.join(rules), ''.join(body)))


def eff_props(n):
    """the counter properties the cascade gives the element (tests UA sheet: ol, ul {counter-reset: list-item};
    li {display: list-item}) as the model's props."""
    p = n['props']
    reset = p['reset']
    if reset is None and n['tag'] in ('ol', 'ul'):
        reset = [['list-item', None]]
    display = n['display'] or {'li': 'list-item', 'span': 'inline'}.get(n['tag'], 'block')
    def norm(l, default):
        return [[a, default if v is None else v] for a, v in (l or [])]
    return {'reset': norm(reset, 0), 'set': norm(p['set'], 0), 'inc': None if p['inc'] is None else norm(p['inc'], 1),
            'list_item': display == 'list-item', 'displayed': display != 'none'}


def updlit(l):
    return '[%s]' % '; '.join('(%s, (%d))' % (slit(a), v) for a, v in l)


def propslit(e):
    return '(mkProps %s %s %s %s)' % (updlit(e['reset']), updlit(e['set']),
                                     'None' if e['inc'] is None else '(Some %s)' % updlit(e['inc']),
                                     'true' if e.get('list_item') else 'false')


def pseudo_props(p):
    def norm(l, default):
        return [[a, default if v is None else v] for a, v in (l or [])]
    return {'reset': norm(p['reset'], 0), 'set': norm(p['set'], 0),
            'inc': None if p['inc'] is None else norm(p['inc'], 1), 'list_item': False}


def nodelit(n):
    e = eff_props(n)
    return '(Elem %s %s %s [%s] %s)' % (
        'true' if e['displayed'] else 'false', propslit(e),
        'None' if n['before'] is None else '(Some %s)' % propslit(pseudo_props(n['before'])),
        '; '.join(nodelit(k) for k in n['kids']),
        'None' if n['after'] is None else '(Some %s)' % propslit(pseudo_props(n['after'])))


def scope_points(n, out):
    """observation points in the model's order: (id, kind, how)"""
    e = eff_props(n)
    if not e['displayed']:
        return
    out.append((n['id'], 'marker', ('full' if n['marker'] == 'content' else 'top') if e['list_item'] else None))
    if n['before'] is not None:
        out.append((n['id'], 'before', 'full'))
    for k in n['kids']:
        scope_points(k, out)
    if n['after'] is not None:
        out.append((n['id'], 'after', 'full'))


def parse_full(text):
    try:
        parts = text.split('|')
        if len(parts) != len(OBS_NAMES):
            return None
        return [[int(x) for x in part.split('.')] for part in parts]
    except ValueError:
        return None


def scope_printed(root, texts):
    """texts: [[page, id, kind, text]] from the render -> (Coq term of type printed, problems)"""
    got = {}
    problems = []
    for _, eid, kind, text in texts:
        if (eid, kind) in got:
            problems.append('box generated twice: %s::%s' % (eid, kind))
        got[(eid, kind)] = text
    pts = []
    scope_points(root, pts)
    lits = []
    for eid, kind, how in pts:
        if how is None:
            if (eid, kind) in got:
                problems.append('unexpected box %s::%s' % (eid, kind))
            lits.append('PNone')
            continue
        text = got.pop((eid, kind), None)
        if text is None:
            problems.append('no box for %s::%s' % (eid, kind))
            lits.append('(PTop (-999999))')
        elif how == 'full':
            v = parse_full(text)
            if v is None:
                problems.append('unparsable %s::%s %r' % (eid, kind, text))
                lits.append('(PTop (-999999))')
            else:
                lits.append('(PFull [%s])' % '; '.join('[%s]' % '; '.join('(%d)' % x for x in st) for st in v))
        else:
            m = re.fullmatch(r'(-?\d+)\. ', text)
            if not m:
                problems.append('unparsable marker %s %r' % (eid, text))
                lits.append('(PTop (-999999))')
            else:
                lits.append('(PTop (%s))' % m.group(1))
    for (eid, kind) in got:
        problems.append('unexpected box %s::%s' % (eid, kind))
    return '[%s]' % '; '.join(lits), problems


def scope_stream(run, rng, thorough):
    import time
    n = 1500 if thorough else 220
    docs = [c['doc'] for c in load_corpus('scope')] + [gen_scope_node(rng, 0, [0], False) for _ in range(n)]
    cases = [{'html': scope_html(d)} for d in docs]
    t0 = time.time()
    outs = common.run_impl('impl_c15', 'render_texts', cases, limit=60)
    t1 = time.time()
    coq, kept = [], []
    nodes = 0
    for d, c, (st, o) in zip(docs, cases, outs):
        if st != 'ok':
            run.fail('render of a counter document %s' % ('timed out' if st == 'timeout' else 'raised %s at %s' % (o['type'], o['site'])),
                     {'stream': 'scope-renders', 'html': c['html'], 'outcome': o},
                     signature='timeout' if st == 'timeout' else 'crash:%s' % (o['site'],))
            continue
        lit, problems = scope_printed(d, o)
        if problems:
            run.fail('counter document: %s' % problems[0], {'stream': 'scope-renders', 'html': c['html'], 'doc': d,
                                                            'problems': problems[:5]}, signature='c15:scope-boxes')
            continue
        coq.append('([%s], %s, %s)' % ('; '.join(slit(x) for x in OBS_NAMES), nodelit(d), lit))
        kept.append((d, c))
        nodes += c['html'].count(' id="')
    try:
        masks = common.eval_cases('c15scope', PRE_SCOPE, SCOPE_T, coq, 'scope_judge', per_file=len(coq) // 16 + 1)
    except RuntimeError as exc:
        run.oblige('corr:scope-renders', False, str(exc))
        return
    mism = [c['html'] for (d, c), m in zip(kept, masks) if m & 1]
    run.oblige('corr:scope-renders(model of update_counters/element_to_box = full renders)', not mism,
               'first disagreements: %s' % mism[:2])
    seen = {}
    for (d, c), m in zip(kept, masks):
        if m & 2:
            # bit 2 clear: granting the open list-item finding (model/C15Scope.v strip) explains the whole output
            sig = None if m & 4 else 'c15:explicit-increment-suppresses-list-item'
            if sig not in seen:
                seen[sig] = (d, c)
    what = {'c15:explicit-increment-suppresses-list-item': 'an explicit counter-increment on a list item suppresses the implicit list-item increment',
            None: 'counters printed differ from the CSS scoping rules'}
    for sig, (d, c) in seen.items():
        run.fail(what[sig], {'stream': 'scope-renders', 'html': c['html'], 'doc': d}, signature=sig)
    run.count('scope-renders', len(kept), [c['html'] for _, c in kept], samples=[kept[0][1]['html'][:700]] if kept else [])
    run.stream_info('scope-renders', elements=nodes, impl_s=round(t1 - t0, 1), coq_s=round(time.time() - t1, 1),
                    rule='random trees (depth <= 5) of div/span/section/ol/ul/li with display none/inline/block/list-item, '
                         'counter-reset/-set/-increment (incl. none, negative, list-item) on elements and on ::before/::after, '
                         'printed through content: counters(a,".")|counters(b,".")|counters(c,".")|counters(list-item,".") '
                         'on ::before/::after/::marker, default decimal markers on the other list items')


# ------------------------------------------- element counters mixed with page-based / target content (renders)

EXTRAS = ['P', 'T', 'X', 'C', 'PT', 'PX', 'PC', 'TX', 'CT', 'PTC', 'N', 'NT', 'PN']
EXTRA_CSS = {
    'P': ' "~P" counter(page) "/" counter(pages)',
    'T': ' "~T" target-counter(attr(href), page)',
    'X': ' "~X" target-text(attr(href))',
    'N': ' "~N" target-counter(attr(href), pages)',
    'C': ' "~C" ' + ' "|" '.join('target-counters(attr(href), %s, ".")' % n for n in OBS_NAMES),
}


def gen_mixed_doc(rng, flavour=None):
    """a counter tree as in scope-renders, paginated (small pages), where most generated boxes append to the element
    counters a page-based counter, a target-counter / target-counters / target-text of an element before or after
    them (attr(href)), or several of these: such content is parsed again after the first parse.
    Flavours: 'clean' (the root resets the four observed counters, so that every counter()/target-counter() names a
    counter that exists; no page-based content in ::marker; page counters before target counters) and three that
    add one feature each (all judged normally, the findings they exposed are repaired): 'undefined' (no root reset,
    F193), 'marker' (page-based / target content in ::marker, F194), 'target-first' (target-counter(.., page) before
    counter(pages), F192)."""
    if flavour is None:
        r = rng.random()
        flavour = 'clean' if r < 0.8 else 'undefined' if r < 0.88 else 'marker' if r < 0.95 else 'target-first'
    counter = [0]
    root = {'id': 'e0', 'tag': 'div', 'display': None,
            'props': {'reset': None if flavour == 'undefined' else [[n, 0] for n in OBS_NAMES], 'set': None, 'inc': None},
            'before': None, 'after': None, 'marker': 'default', 'kids': []}
    for _ in range(rng.choice([2, 3, 4])):
        root['kids'].append(gen_scope_node(rng, rng.choice([1, 2]), counter, False))
    shown, leaves = [], []
    def walk(n, visible):
        e = eff_props(n)
        visible = visible and e['displayed']
        if visible:
            shown.append(n)
            if not n['kids'] and n['before'] is None and n['after'] is None:
                leaves.append(n['id'])
        for k in n['kids']:
            walk(k, visible)
    walk(root, True)
    ids = [n['id'] for n in shown]
    for n in shown:
        n['extra'] = {}
        others = [i for i in ids if i != n['id']]
        if not others:
            continue
        want_text = bool(leaves) and rng.random() < 0.4 and [l for l in leaves if l != n['id']]
        n['href'] = rng.choice([l for l in leaves if l != n['id']]) if want_text else rng.choice(others)
        kinds = [k for k in ('before', 'after') if n[k] is not None]
        if flavour == 'marker' and eff_props(n)['list_item'] and n['marker'] == 'content':
            kinds.append('marker')
        for k in kinds:
            if rng.random() < 0.75:
                x = rng.choice(EXTRAS)
                if not want_text:
                    x = x.replace('X', 'T' if 'T' not in x else '')
                x = x or 'P'
                if flavour == 'target-first' and 'P' in x and 'T' in x:
                    x = 'T' + x.replace('T', '')
                n['extra'][k] = x
    return {'root': root, 'page_h': rng.choice([30, 40, 60, 90]), 'order': ids, 'flavour': flavour}


def mixed_html(doc):
    rules, body = [], []
    def content(n, kind):
        return CONTENT + ''.join(EXTRA_CSS[x] for x in n.get('extra', {}).get(kind, ''))
    def walk(n):
        decl = props_css(n['props'])
        if n['display']:
            decl.append('display: ' + n['display'])
        if decl:
            rules.append('#%s { %s }' % (n['id'], '; '.join(decl)))
        for kind in ('before', 'after'):
            if n[kind] is not None:
                rules.append('#%s::%s { content: %s; %s }' % (n['id'], kind, content(n, kind), '; '.join(props_css(n[kind]))))
        if n['marker'] == 'content':
            rules.append('#%s::marker { content: %s }' % (n['id'], content(n, 'marker')))
        body.append('<%s id="%s"%s>' % (n['tag'], n['id'], ' href="#%s"' % n['href'] if n.get('href') else ''))
        if not n['kids']:
            body.append('w' + n['id'][1:])
        for k in n['kids']:
            walk(k)
        body.append('</%s>' % n['tag'])
    walk(doc['root'])
    return ('<style>@page{size:30000px %dpx;margin:0} body{margin:0;font-family:weasyprint;font-size:10px;white-space:nowrap;'
            'line-height:10px} ol,ul,li,div,section{margin:0;padding:0} li, div, section, span, ol, ul {list-style-position:inside;'
            'list-style-type:decimal}\n%s</style>%s' % (doc['page_h'], '\n'.join(rules), ''.join(body)))


def stacks_lit(v):
    return '[%s]' % '; '.join('[%s]' % '; '.join('(%d)' % x for x in st) for st in v)


def mixed_printed(doc, o):
    """-> (Coq term of type printed, problems, page_bad): the element-counter part of every text (and the
    target-counters() part, as a reference to the target's anchor point) goes to the Coq judge; the page-based parts
    are judged here against the final pagination."""
    root = doc['root']
    got, problems, page_bad = {}, [], []
    for page, eid, kind, text in o['texts']:
        if (eid, kind) in got:
            problems.append('box generated twice: %s::%s' % (eid, kind))
        got[(eid, kind)] = (page, text)
    pts = []
    scope_points(root, pts)
    index = {}
    for j, (eid, kind, how) in enumerate(pts):
        index[(eid, kind)] = j
    nodes = {}
    def collect(n):
        nodes[n['id']] = n
        for k in n['kids']:
            collect(k)
    collect(root)
    lits = []
    for eid, kind, how in pts:
        if how is None:
            if (eid, kind) in got:
                problems.append('unexpected box %s::%s' % (eid, kind))
            lits.append('PNone')
            continue
        item = got.pop((eid, kind), None)
        if item is None:
            problems.append('no box for %s::%s' % (eid, kind))
            lits.append('(PTop (-999999))')
            continue
        page, text = item
        if how == 'top':
            m = re.fullmatch(r'(-?\d+)\. ', text)
            lits.append('(PTop (%s))' % m.group(1) if m else '(PTop (-999999))')
            if not m:
                problems.append('unparsable marker %s %r' % (eid, text))
            continue
        parts = text.split('~')
        own = parse_full(parts[0])
        if own is None:
            problems.append('unparsable %s::%s %r' % (eid, kind, text))
            lits.append('(PTop (-999999))')
            continue
        n = nodes[eid]
        expected_tags = n.get('extra', {}).get(kind, '')
        if ''.join(p[:1] for p in parts[1:]) != expected_tags:
            problems.append('%s::%s printed %r, parts %s expected' % (eid, kind, text, expected_tags))
        ref = None
        for part in parts[1:]:
            tag, val = part[:1], part[1:]
            tgt = n.get('href')
            if tag == 'C':
                t = parse_full(val)
                j = index.get((tgt, 'before'), index.get((tgt, 'marker')))
                if t is None or j is None:
                    problems.append('unparsable target-counters %s::%s %r' % (eid, kind, text))
                else:
                    ref = (j, t)
            elif tag == 'P':
                want = '%d/%d' % (page, o['pages'])
                if val != want:
                    page_bad.append((eid, kind, 'counter(page)/counter(pages)', val, want))
            elif tag == 'T':
                want = str(min(o['elements'].get(tgt) or [0]))
                if val != want:
                    page_bad.append((eid, kind, 'target-counter(#%s, page)' % tgt, val, want))
            elif tag == 'N':
                want = str(o['pages'])
                if val != want:
                    page_bad.append((eid, kind, 'target-counter(#%s, pages)' % tgt, val, want))
            elif tag == 'X':
                want = 'w' + tgt[1:]
                if val != want:
                    page_bad.append((eid, kind, 'target-text(#%s)' % tgt, val, want))
        if ref is None:
            lits.append('(PFull %s)' % stacks_lit(own))
        else:
            lits.append('(PRef %s %d%%nat %s)' % (stacks_lit(own), ref[0], stacks_lit(ref[1])))
    for (eid, kind) in got:
        problems.append('unexpected box %s::%s' % (eid, kind))
    return '[%s]' % '; '.join(lits), problems, page_bad


def nodes_of(root):
    out = {}
    def collect(n):
        out[n['id']] = n
        for k in n['kids']:
            collect(k)
    collect(root)
    return out


def mixed_stream(run, rng, thorough):
    import time
    docs = [gen_mixed_doc(rng) for _ in range(900 if thorough else 110)]
    cases = [{'html': mixed_html(d)} for d in docs]
    t0 = time.time()
    outs = common.run_impl('impl_c15', 'render_mixed', cases, limit=120)
    t1 = time.time()
    coq, kept = [], []
    outcomes = {'ok': 0, 'not-converged': 0, 'page-part-wrong': 0}
    nboxes, nmixed, npages, flavours = 0, 0, 0, {}
    deferred = []          # page-part / crash failures are reported after the element-counter ones

    def later(what, data, signature=None):
        deferred.append((what, data, signature))
    for d, c, (st, o) in zip(docs, cases, outs):
        if st != 'ok':
            later('render of a mixed-content counter document %s' % (
                'timed out' if st == 'timeout' else 'raised %s at %s' % (o['type'], o['site'])),
                {'stream': 'mixed-content-renders', 'html': c['html'], 'outcome': o},
                signature='timeout' if st == 'timeout' else 'crash:%s' % (o['site'],))
            continue
        lit, problems, page_bad = mixed_printed(d, o)
        nboxes += len(o['texts'])
        nmixed += sum(1 for t in o['texts'] if '~' in t[3])
        npages += o['pages']
        flavours[d['flavour']] = flavours.get(d['flavour'], 0) + 1
        data = {'stream': 'mixed-content-renders', 'html': c['html'], 'doc': d, 'flavour': d['flavour']}
        if problems:
            later('mixed-content counter document: %s' % problems[0], dict(data, problems=problems[:5]),
                  signature='c15:mixed-boxes')
            continue
        if page_bad and o['loops'] >= o['max_loops']:
            outcomes['not-converged'] += 1
        elif page_bad:
            outcomes['page-part-wrong'] += 1
            def mechanism(b):
                """no open finding explains a wrong page part any more (F192-F195, F197 are repaired)"""
                return None
            by_sig = {}
            for b in page_bad:
                by_sig.setdefault(mechanism(b), b)
            for sig, b in by_sig.items():
                later('#%s::%s: %s printed %r, the final pagination says %r (layout loop stopped after %d of %d passes)'
                         % (b[0], b[1], b[2], b[3], b[4], o['loops'], o['max_loops']),
                         dict(data, page_bad=page_bad[:5]), signature=sig)
        else:
            outcomes['ok'] += 1
        coq.append('([%s], %s, %s)' % ('; '.join(slit(x) for x in OBS_NAMES), nodelit(d['root']), lit))
        kept.append((d, c))
    try:
        masks = common.eval_cases('c15mixed', PRE_SCOPE, SCOPE_T, coq, 'scope_judge', per_file=len(coq) // 16 + 1)
    except RuntimeError as exc:
        run.oblige('corr:mixed-content-renders', False, str(exc))
        for what, data, signature in deferred:
            run.fail(what, data, signature=signature)
        return
    mism = [c['html'] for (d, c), m in zip(kept, masks) if m & 1]
    run.oblige('corr:mixed-content-renders(first-parse snapshot model = re-parsed content in full renders)', not mism,
               'first disagreements: %s' % mism[:1])
    seen = {}
    for (d, c), m in zip(kept, masks):
        if m & 2:
            sig = None if m & 4 else 'c15:explicit-increment-suppresses-list-item'
            if sig not in seen:
                seen[sig] = (d, c)
    for sig, (d, c) in seen.items():
        run.fail('element counters printed next to page-based / target content differ from the document-order scoping'
                 if sig is None else 'an explicit counter-increment on a list item suppresses the implicit list-item increment',
                 {'stream': 'mixed-content-renders', 'html': c['html'], 'doc': d}, signature=sig)
    for what, data, signature in deferred:
        run.fail(what, data, signature=signature)
    run.count('mixed-content-renders', len(kept), [c['html'] for _, c in kept], samples=[kept[1][1]['html'][:900]] if len(kept) > 1 else [])
    run.stream_info('mixed-content-renders', boxes=nboxes, mixed_boxes=nmixed, pages=npages, outcomes=outcomes, flavours=flavours,
                    impl_s=round(t1 - t0, 1), coq_s=round(time.time() - t1, 1),
                    rule='counter trees as in scope-renders on pages 30-90px high; 75% of the ::before/::after/::marker contents '
                         'append to counters(a)|counters(b)|counters(c)|counters(list-item) one or more of counter(page)/counter(pages), '
                         'target-counter(attr(href), page), target-counters(attr(href), <the four names>), target-text(attr(href)) with '
                         'href pointing to an element before or after; element parts (own and target) judged in Coq against the '
                         'snapshot model and the CSS reference, page parts in Python against the final pagination '
                         '(not-converged when the loop used all its passes); 80% clean documents (root resets the four counters, no '
                         'page-based ::marker content, page counters before target counters), 20% add one of these features')


# ---------------------------------------------------------------------- tables of contents (monitor, Python)

def gen_toc(rng):
    """a document with n sections (targets t1..tn), a table of contents in front whose entries print
    target-counter(attr(href), page), optionally back references in the text and an index at the end.
    The front matter's length depends on the numbers printed: entries are narrow blocks in which a longer number
    wraps onto a second line."""
    n = rng.choice([1, 2, 3, 5, 8, 13, 21, 34, 47, 60]) if rng.random() < 0.6 else rng.randint(1, 60)
    page_h = rng.choice([60, 80, 100, 150])
    entry_w = rng.choice([30, 40, 40, 50, 200])          # 'aa ' + digits at 10px per glyph: 40px fits 1 digit
    style = rng.choice(['decimal', 'decimal', 'lower-roman', 'upper-alpha'])
    toc_at_end = rng.random() < 0.35
    back_refs = rng.random() < 0.6
    parts, lid = [], [0]
    def link(k):
        lid[0] += 1
        return '<a class="t" id="l%d" href="#t%d">aa </a>' % (lid[0], k)
    toc = '<div class="toc">%s</div>' % ''.join('<div class="e">%s</div>' % link(k) for k in range(1, n + 1))
    body = []
    for k in range(1, n + 1):
        sec = '<h2 id="t%d">bb</h2>' % k
        for _ in range(rng.choice([0, 1, 1, 2, 3, 6])):
            sec += '<p style="height:%dpx"></p>' % rng.choice([10, 20, 30, 50])
        if back_refs and k > 1 and rng.random() < 0.4:
            sec += '<div class="e">%s</div>' % link(rng.randint(1, k - 1))         # backwards
        if back_refs and k < n and rng.random() < 0.25:
            sec += '<div class="e">%s</div>' % link(rng.randint(k + 1, n))         # forwards, from the text
        if rng.random() < 0.2:
            sec += '<p style="break-before:page;height:10px"></p>'
        body.append(sec)
    doc = (toc if not toc_at_end else '') + ''.join(body) + (toc if toc_at_end or rng.random() < 0.3 else '')
    if toc_at_end and rng.random() < 0.5:
        doc = toc + doc
    css = ('@page{size:200px %dpx;margin:0} body{margin:0;font-family:weasyprint;font-size:10px;line-height:10px} '
           'h2,p{margin:0;font-size:10px;font-weight:normal} h2{height:10px} .e{width:%dpx} a{text-decoration:none;color:black} '
           'a.t::after{content:target-counter(attr(href), page, %s)}' % (page_h, entry_w, style))
    return {'html': '<style>%s</style>%s' % (css, doc), 'n': n, 'style': style, 'entry_w': entry_w}


def fmt_page(style, v):
    if style == 'decimal':
        return str(v)
    if style == 'upper-alpha':
        s = ''
        while v:
            v -= 1
            s = chr(65 + v % 26) + s
            v //= 26
        return s
    out = ''
    for w, t in [(1000, 'm'), (900, 'cm'), (500, 'd'), (400, 'cd'), (100, 'c'), (90, 'xc'), (50, 'l'), (40, 'xl'),
                 (10, 'x'), (9, 'ix'), (5, 'v'), (4, 'iv'), (1, 'i')]:
        while v >= w:
            out += t
            v -= w
    return out


def judge_toc(case, o):
    """-> (outcome, detail): 'ok' | 'not-converged' | 'wrong' | 'malformed'"""
    bad = []
    if len(o['links']) == 0:
        return 'malformed', 'no link box found'
    for lid, tid, lpage, text in o['links']:
        pages = o['targets'].get(tid)
        if not pages:
            return 'malformed', 'target %s has no box' % tid
        want = fmt_page(case['style'], min(pages))
        if text != want:
            bad.append((lid, tid, lpage, text, want, min(pages)))
    if not bad:
        return 'ok', None
    # entries whose link lies on the same page as its target first: a different mechanism (see toc_stream)
    bad.sort(key=lambda b: b[2] == b[5])
    if o['loops'] >= o['max_loops']:
        return 'not-converged', bad[:6]
    return 'wrong', bad[:6]


def toc_stream(run, rng, thorough):
    import time
    cases = [gen_toc(rng) for _ in range(400 if thorough else 70)]
    t0 = time.time()
    outs = common.run_impl('impl_c15', 'render_toc', cases, limit=120, chunksize=1)
    outcomes = {'ok': 0, 'not-converged': 0, 'wrong': 0, 'malformed': 0}
    loops_hist = {}
    nlinks = 0
    for c, (st, o) in zip(cases, outs):
        if st != 'ok':
            run.fail('render of a table of contents %s' % ('timed out' if st == 'timeout' else 'raised %s at %s' % (o['type'], o['site'])),
                     {'stream': 'toc-renders', 'html': c['html'], 'outcome': o},
                     signature='timeout' if st == 'timeout' else 'crash:%s' % (o['site'],))
            continue
        res, detail = judge_toc(c, o)
        outcomes[res] += 1
        nlinks += len(o['links'])
        loops_hist[o['loops']] = loops_hist.get(o['loops'], 0) + 1
        if res == 'wrong':
            same_page_only = all(b[2] == b[5] for b in detail)     # only told in the message (F195 is repaired)
            run.fail('target-counter(page) printed %r for a target on page %s%s although the layout loop stopped after %d of %d passes'
                     % (detail[0][3], detail[0][4], ' (reference on the same page as its target)' if same_page_only else '',
                        o['loops'], o['max_loops']),
                     {'stream': 'toc-renders', 'html': c['html'], 'style': c['style'], 'detail': detail, 'loops': o['loops']},
                     signature='c15:target-counter-page-wrong')
        elif res == 'malformed':
            run.fail('table of contents document: %s' % detail, {'stream': 'toc-renders', 'html': c['html'], 'style': c['style']},
                     signature='c15:toc-harness')
    run.count('toc-renders', len(cases), [c['html'] for c in cases], samples=[cases[0]['html'][:500]])
    run.stream_info('toc-renders', outcomes=outcomes, passes_histogram=loops_hist, links=nlinks,
                    wall_s=round(time.time() - t0, 1), judged_in='Python (monitor)',
                    rule='1..60 sections, table of contents in front and/or at the end, forward and backward references '
                         'in the text, entries 30-200px wide so that a longer page number wraps and lengthens the front '
                         'matter, page heights 60-150px, decimal/lower-roman/upper-alpha; a wrong number after the loop '
                         'used all its passes is the outcome not-converged, not a violation')


def check(run):
    rng = random.Random(run.seed * 7919 + 15)
    thorough = run.tier == 'thorough'
    common.prove(run, 'C15', ['model/C15Style.vo', 'model/C15StyleSpec.vo', 'model/C15Scope.vo', 'model/C15Loop.vo',
                              'proofs/C15_gen_rest.vo'])
    run.trusted += ['Coq 8.16.1 kernel (coqc); vm_compute for the cases.v evaluation',
                    'harness/p_c15.py printers of dictionary entries / DOM trees as Coq terms; harness/impl_c15.py',
                    'hand-written models model/C15Style.v (counters.py) and model/C15Scope.v (build.py): validated on '
                    'every run by the streams ua-styles, random-counter-style, raw-dictionaries, scope-renders',
                    'model/C15StyleSpec.v and the reference interpreter of model/C15Scope.v as renditions of CSS Counter '
                    'Styles 3 / CSS 2.1 12.4 + CSS Lists 3 (read from the specification text)',
                    'toc-renders monitor judged in Python',
                    'harness/p_c15.py ref_sheet: the reference reading of @counter-style rules (grammar of every descriptor of '
                    'CSS Counter Styles 3 section 3 over tinycss2 tokens), which gives the dictionary the specification is judged on',
                    'source tie (props C15_source_*): tools/py2coq.py (printer, slice options <branch> / <after-chain>, '
                    '<until-chain> / <from-to>, target options seq_ops, unpack_gen, for_break: a for loop with break printed with the flag %brk) and the interpreter '
                    'coq/base/Py.v with its primitives prim_apply (len, x[i], %, //, abs, join, reversed, and + * len on '
                    'strings / lists: PSeqAdd, PSeqMul, PSeqLen); '
                    'model/C15Builtins.v: Python strings as Coq strings (one character per ascii), a symbol as '
                    '(\'string\', s) / (\'url\', u)']
    run.assumptions += ['the re-layout loop theorem is about an abstract model (model/C15Loop.v); the implementation side is the '
                        'toc-renders monitor: a wrong page number after an early exit is a violation, after 8 passes the '
                        'outcome not-converged',
                        'target-text(), target-counters() and the remake_page caching are monitored through full renders only',
                        'pad counts code points (Python len); CSS counts grapheme clusters: symbols with combining marks are not generated',
                        'counter scoping: instantiation of a counter by a bare counter()/counters() use (CSS Lists 3) is not part of '
                        'the property text and not demanded',
                        'regenerated from counters.py and proved equal to the model for every input: symbol() and every '
                        'statement of render_value after the `while extends:` loop, in slices: step 2 (the range test; `inf` an '
                        'input above |value|; a range that is the string auto itself - anonymous styles - is outside), the head of '
                        'step 3 (is_negative, the negative symbols, use_negative, abs), its six branches (cyclic, fixed, symbolic, '
                        'alphabetic, numeric, additive with its closing fallback call) and steps 4-6 (pad, negative prefix / '
                        'suffix, return); the recursive call of render_value is an oracle there; the hand-over of the variables '
                        'between the slices, resolve_counter and the extends loop are tied to the model by the correspondence '
                        'streams only; Python strings are Coq strings (characters below 256)']
    # ---- stream a: predefined styles
    (st, ua), = common.run_impl('impl_c15', 'ua_dump', [None])
    if st != 'ok':
        run.oblige('corr:ua-dump', False, str(ua))
        return
    cases = ua_cases(rng, ua, thorough)
    n = run_style_cases(run, 'ua-styles', 'c15ua', cases, ua, True)
    run.count('ua-styles', n, [(c['queries'][0][1], c['queries'][0][2]) for c in cases],
              samples=[cases[0]['queries'][:3]])
    run.stream_info('ua-styles', styles=len(ua),
                    rule='every predefined counter style of the UA sheet, values -50..5000 '
                         + ('exhaustively' if thorough else '(-50..130 dense, boundaries, 120 random)')
                         + ', render_value and render_marker called directly; strings compared with the model and the spec')
    # ---- stream b: random @counter-style rules through the real parser + validators; anonymous styles; raw dicts
    ncss = 1200 if thorough else 180
    cases = [{'css': c['css'], 'use_ua': True, 'queries': c['queries'], 'odd': False} for c in load_corpus('css')]
    cases += [gen_css_case(rng, odd=(i % 3 == 2)) for i in range(ncss)]
    cases += [gen_anon_case(rng) for _ in range(ncss // 10)]
    pn = padneg_direct_cases(rng, thorough)
    ns = run_style_cases(run, 'random-counter-style', 'c15cs', cases + pn, ua, True)
    if not isinstance(ns, dict):
        ns = {'random-counter-style': 0, 'pad-negative-direct': 0}
    n = ns['random-counter-style']
    run.count('pad-negative-direct', ns['pad-negative-direct'], [c['css'] for c in pn], samples=[pn[0]['css'][:400]])
    run.stream_info('pad-negative-direct', systems=sorted({c['system'] for c in pn}),
                    two_part_negatives=sum(1 for c in pn if c['negative'][0] and c['negative'][1]),
                    evaluated_with='random-counter-style (same worker pool and Coq shards)', rule=PADNEG_RULE)
    run.count('random-counter-style', n, [c['css'] for c in cases], samples=[cases[-20]['css'], cases[-22]['css']])
    run.stream_info('random-counter-style',
                    rule='1-5 @counter-style rules per case (all systems, extends chains and cycles, range lists, '
                         'negative, pad, prefix/suffix, fallback chains and cycles; every third case also odd names and '
                         'descriptor combinations), parsed by weasyprint.CSS into the CounterStyle dictionary; '
                         '~30 values per style incl. range bounds +-1; symbols() / string styles.  Every descriptor is written '
                         'in the spellings its grammar allows: pad and each additive-symbols tuple in both orders, negative '
                         'with one or two symbols, symbols as strings (both quotes, hexadecimal escapes) or identifiers, range '
                         'lists of 1-3 ranges with infinite bounds, fixed with and without its integer, integers with a sign or '
                         'a leading zero, keywords and descriptor names in other cases, white space / comments / nothing '
                         'between components; in the odd cases also a token dropped, doubled, replaced or inserted, an empty '
                         'value, !important, a descriptor given twice.  The specification is judged on the reference reading '
                         'of the sheet (ref_sheet), the model on the dictionary the validators built; the two readings are '
                         'also compared descriptor by descriptor')
    padneg_streams(run, rng, ua, thorough)
    scope_stream(run, rng, thorough)
    toc_stream(run, rng, thorough)
    mixed_stream(run, rng, thorough)
    cases = [gen_raw_case(rng) for _ in range(800 if thorough else 100)]
    n = run_style_cases(run, 'raw-dictionaries', 'c15raw', cases, [], False)
    run.count('raw-dictionaries', n, [json.dumps(c['raw']) for c in cases], samples=[cases[0]['raw'][:1]])
    run.stream_info('raw-dictionaries', rule='CounterStyle filled directly with arbitrary entries (missing descriptors, '
                    'bogus systems, odd decimal): exceptions and non-termination must agree with the model too')


def replay(data):
    d = data.get('data', {})
    if d.get('stream') == 'toc-renders':
        (st, o), = common.run_impl('impl_c15', 'render_toc', [{'html': d['html']}], limit=300)
        if st != 'ok':
            print('replay:', st, o)
            return 1
        res, detail = judge_toc({'style': d.get('style', 'decimal')}, o)
        print('replay: outcome', res, detail, 'passes', o['loops'], 'of', o['max_loops'])
        return 1 if res in ('wrong', 'malformed') else 0
    if d.get('stream') == 'mixed-content-renders':
        (st, o), = common.run_impl('impl_c15', 'render_mixed', [{'html': d['html']}], limit=300)
        if st != 'ok':
            print('replay:', st, o)
            return 1
        lit, problems, page_bad = mixed_printed(d['doc'], o)
        print('replay: texts', o['texts'][:10], 'problems', problems, 'page parts wrong', page_bad[:5],
              'passes', o['loops'], 'of', o['max_loops'])
        if problems:
            return 1
        m = common.eval_cases('c15replay', PRE_SCOPE, SCOPE_T,
                              ['([%s], %s, %s)' % ('; '.join(slit(x) for x in OBS_NAMES), nodelit(d['doc']['root']), lit)],
                              'scope_judge')
        print('judge mask (1 = model differs, 2 = CSS reference differs, 4 = also with the list-item finding granted):', m[0])
        return 1 if (m[0] & 5) or (page_bad and o['loops'] < o['max_loops']) else 0
    if d.get('stream') == 'scope-renders':
        (st, o), = common.run_impl('impl_c15', 'render_texts', [{'html': d['html']}], limit=300)
        if st != 'ok':
            print('replay:', st, o)
            return 1
        lit, problems = scope_printed(d['doc'], o)
        print('replay: printed', o[:12], problems)
        if problems:
            return 1
        m = common.eval_cases('c15replay', PRE_SCOPE, SCOPE_T,
                              ['([%s], %s, %s)' % ('; '.join(slit(x) for x in OBS_NAMES), nodelit(d['doc']), lit)],
                              'scope_judge')
        print('judge mask (1 = model differs, 2 = CSS reference differs):', m[0])
        return 1 if m[0] else 0
    if d.get('stream') in ('ua-styles', 'random-counter-style', 'raw-dictionaries', 'pad-negative-direct',
                           'counter-style-renders'):
        if d.get('via') == 'parse_sheet':
            (st, o), = common.run_impl('impl_c15', 'render_queries', [{'css': d['css'], 'use_ua': True, 'queries': []}])
            print('replay: parsing the sheet', 'succeeds' if st == 'ok' else 'raises %s' % (o,))
            return 0 if st == 'ok' else 1
        case = {'css': d.get('css'), 'raw': d.get('raw'), 'use_ua': d.get('use_ua', True), 'queries': [d['query']]}
        fn = d.get('via') if d.get('via') in ('render_queries', 'render_counter_doc') else 'render_queries'
        (st, o), = common.run_impl('impl_c15', fn, [case])
        print('replay: implementation prints', o['outs'] if st == 'ok' else o)
        if st != 'ok':
            return 1
        base = []
        if case['use_ua']:
            (_, base), = common.run_impl('impl_c15', 'ua_dump', [None])
        pre = PRE_STYLE + 'Definition base : styles :=\n %s.\n' % styleslit(base)
        lits = [caselit(o['user'], d.get('stream') != 'raw-dictionaries', case['queries'], o['outs'])]
        if case['css'] and not case['raw']:
            intended = ref_sheet(case['css'])
            diff = layer_diff(intended, o['user'])
            if diff:
                sig = layer_signature(case['css'], o['user'])
                if sig is None:        # as in the streams: the known deviations of the validators are granted
                    intended = ref_sheet(case['css'], QUIRKS)
                    diff = layer_diff(intended, o['user'])
                else:
                    print('explained by the known deviations', sig)
                print('the grammar reads the sheet differently (style, descriptor, grammar, implementation):', diff[:6])
                lits.append(caselit(intended, True, case['queries'], o['outs']))
        res = common.eval_cases('c15replay', pre, CASE_T, lits, 'judge_case base')
        print('judge mask (1 = model differs, 2 = spec differs):', res[0] % 4,
              '; on the reference reading of the sheet, spec differs: %s' % bool(res[1] % 4 & 2) if len(res) > 1 else '')
        return 1 if res[0] % 4 or (len(res) > 1 and res[1] % 4 & 2) else 0
    print('nothing to replay for', d.get('stream'))
    return 0
