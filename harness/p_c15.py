"""C15 - counters and cross-references print the right numbers."""
import random, json, re, os
import common
from common import slit

PRE_STYLE = ('From Coq Require Import ZArith List String.\n'
             'Require Import WV.model.C15Style WV.model.C15StyleSpec.\n'
             'Import ListNotations.\nOpen Scope string_scope.\nOpen Scope Z_scope.\n')

# ------------------------------------------------------------------------------- Coq literals

def tlit(s):
    return '[%s]' % ';'.join(str(ord(ch)) for ch in s)


def symlit(s):
    return '(SStr %s)' % tlit(s[1]) if s[0] == 'string' else 'SUrl'


def optlit(x, f):
    return 'None' if x is None else '(Some %s)' % f(x)


def boundlit(b):
    return 'BPosInf' if b == 'inf' else 'BNegInf' if b == '-inf' else '(BInt (%d))' % b


def rangelit(r):
    if r == 'auto':
        return 'RAuto'
    return '(RList [%s])' % ';'.join('RItemAuto' if i == 'auto' else '(RItem %s %s)' % (boundlit(i[0]), boundlit(i[1]))
                                     for i in r)


def stylelit(d):
    return '(mkStyle %s %s %s %s %s %s %s %s %s)' % (
        optlit(d['system'], lambda s: '(mkSys %s %s %s)' % ('true' if s[0] else 'false', slit(s[1]),
                                                             optlit(s[2], lambda z: '(%d)' % z))),
        optlit(d['negative'], lambda n: '(%s, %s)' % (symlit(n[0]), symlit(n[1]))),
        optlit(d['prefix'], symlit), optlit(d['suffix'], symlit), optlit(d['range'], rangelit),
        optlit(d['pad'], lambda p: '(%d, %s)' % (p[0], symlit(p[1]))),
        optlit(d['fallback'], slit),
        optlit(d['symbols'], lambda l: '[%s]' % ';'.join(symlit(x) for x in l)),
        optlit(d['additive_symbols'], lambda l: '[%s]' % ';'.join('(%d, %s)' % (w, symlit(s)) for w, s in l)))


def styleslit(entries):
    return '[%s]' % ';\n '.join('(%s, %s)' % (slit(k), stylelit(d)) for k, d in entries)


def cnamelit(n):
    if isinstance(n, str):
        return '(CName %s)' % slit(n)
    if n[0] == 'symbols()':
        return '(CSymbols %s [%s])' % (slit(n[1][0]), ';'.join(tlit(x) for x in n[1][1:]))
    return '(CString %s)' % tlit(n[1])


def outlit(o):
    if o[0] == 'ok':
        return '(ROk %s)' % tlit(o[1])
    return 'RExc' if o[0] == 'exc' else 'RFuel'


def querylit(q, o):
    return '(%s, %s, (%d), %s)' % ('true' if q[0] else 'false', cnamelit(q[1]), q[2], outlit(o))


def caselit(user, with_spec, queries, outs):
    return '(%s, %s, [%s])' % (styleslit(user), 'true' if with_spec else 'false',
                                ';\n  '.join(querylit(q, o) for q, o in zip(queries, outs)))


CASE_T = 'styles * bool * list query'

# ------------------------------------------------------------------------- classification of deviations
# mechanisms of the genuine deviations between counters.py and CSS Counter Styles 3 that this check knows;
# each is reported through run.fail with its signature (suppressed only if known_findings.json lists it as open)


SYSTEM_KEYWORDS = ('cyclic', 'numeric', 'alphabetic', 'symbolic', 'additive', 'fixed')


def classify(user, q, out):
    """signature (mechanism) of a deviation from the specification observed on query q; None = not a known one.
    Odd features (system keywords as names, extends+symbols, lists mixing auto) are only generated in `odd` cases."""
    names = {k: d for k, d in user}
    if out[0] == 'exc':
        if 'too many values to unpack' in (out[1] or ''):
            return 'c15:range-auto-valueerror'
        if out[1].startswith('IndexError') and any(d['symbols'] == [] for d in names.values()):
            return 'c15:extends-with-symbols-indexerror'
        return None
    if out[0] == 'rec':
        return None
    if any(k in SYSTEM_KEYWORDS for k in names):
        return 'c15:style-named-like-a-system'
    if any(d['system'] and d['system'][0] and (d['symbols'] is not None or d['additive_symbols'] is not None)
           for d in names.values()):
        return 'c15:extends-with-symbols-accepted'
    if any(d['range'] not in (None, 'auto') and 'auto' in d['range'] for d in names.values()):
        return 'c15:range-auto-valueerror'
    if q[2] < 0 and any(d['system'] and d['system'][1] == 'additive' and d['range'] for d in names.values()):
        return 'c15:additive-negative-fallback-abs'
    if any(d['system'] and d['system'][0] for d in names.values()) and any(d['fallback'] for d in names.values()):
        return 'c15:extends-ancestors-in-fallback-cycle-list'
    return None


# ----------------------------------------------------------------------------------- generators

SYMS = ['a', 'b', 'c', '*', 'ab', '', '0', '1', 'é', '〇', 'xyz', '-', '\U0001d7d8']
NAMES = ['a', 'b', 'c', 'd', 'e', 'k1']
ODD_NAMES = ['numeric', 'cyclic', 'additive', 'lower-roman', 'decimal', 'disc', 'upper-alpha']
UA_NAMES = ['decimal', 'lower-roman', 'upper-alpha', 'disc', 'decimal-leading-zero', 'cjk-decimal', 'hebrew',
            'japanese-informal', 'lower-latin', 'armenian']
SYSTEMS = ['cyclic', 'numeric', 'alphabetic', 'symbolic', 'additive', 'fixed']


def q(s):
    return '"%s"' % s.replace('\\', '\\\\').replace('"', '\\"')


def gen_rule(rng, name, all_names, odd):
    """text of one @counter-style rule; mostly valid, every descriptor sometimes odd."""
    ds = []
    r = rng.random()
    system = None
    if r < 0.12:
        system = None
    elif r < 0.30:
        tgt = rng.choice(all_names + UA_NAMES + ['nosuch'] if rng.random() < 0.8 else [name])
        system = 'extends ' + tgt
    else:
        system = rng.choice(SYSTEMS)
        if system == 'fixed' and rng.random() < 0.6:
            system = 'fixed %d' % rng.choice([-3, 0, 1, 2, 5, 10])
    if system:
        ds.append('system: ' + system)
    kind = (system or 'symbolic').split()[0]
    if kind == 'additive':
        pool = [(1000, 'M'), (100, 'C'), (50, 'L'), (10, 'X'), (9, 'IX'), (7, 'S'), (5, 'V'), (4, 'IV'), (3, 'T'),
                (2, 'II'), (1, 'I'), (0, 'Z')]
        k = rng.choice([2, 2, 3, 4, 6, 12])
        sel = sorted(rng.sample(pool, k), reverse=True)
        if odd and rng.random() < 0.05:
            sel = sel[::-1]
        if rng.random() < 0.5 and (1, 'I') not in sel and k < 12:
            pass
        ds.append('additive-symbols: ' + ', '.join('%d %s' % (w, q(s)) for w, s in sel))
    elif kind != 'extends' or (odd and rng.random() < 0.25):
        lo = {'alphabetic': 2, 'numeric': 2}.get(kind, 1)
        n = rng.choice([lo, lo, lo + 1, 3, 5, 10])
        if odd and rng.random() < 0.08:
            n = max(0, lo - 1)
        if kind == 'numeric' and rng.random() < 0.3:
            symbols = [str(i) for i in range(n)]
        else:
            symbols = [rng.choice(SYMS) for _ in range(n)]
        ds.append('symbols: ' + ' '.join(q(s) for s in symbols))
    if rng.random() < 0.45:
        def b():
            return rng.choice(['infinite', '-60', '-5', '-1', '0', '1', '2', '3', '7', '12', '40', '100', '1000', '4999'])
        def one():
            for _ in range(20):
                lo, hi = b(), b()
                if lo == 'infinite' or hi == 'infinite' or int(lo) <= int(hi):
                    return '%s %s' % (lo, hi)
            return '1 5'
        r = rng.random()
        if r < 0.12:
            ds.append('range: auto')
        elif odd and r < 0.16:
            ds.append('range: %s, auto' % one())
        elif r < 0.7:
            ds.append('range: ' + one())
        else:
            ds.append('range: %s, %s' % (one(), one()))
    if rng.random() < 0.35:
        ds.append('negative: ' + rng.choice(['"-"', '"(" ")"', '"neg"', '"" ""', '"−"', 'minus', '"<" ""']))
    if rng.random() < 0.35:
        ds.append('pad: %d %s' % (rng.choice([0, 1, 2, 3, 5, 8]), q(rng.choice(['0', ' ', 'xy', '', '*']))))
    if rng.random() < 0.25:
        ds.append('prefix: ' + q(rng.choice(['[', '', '(', 'No.'])))
    if rng.random() < 0.3:
        ds.append('suffix: ' + q(rng.choice([']', '', ') ', ': '])))
    if rng.random() < 0.5:
        ds.append('fallback: ' + rng.choice(all_names + all_names + UA_NAMES + ['nosuch', 'none']))
    rng.shuffle(ds)
    return '@counter-style %s { %s }' % (name, '; '.join(ds))


def gen_values(rng, n):
    vals = set(rng.sample(range(-12, 31), 18))
    vals |= {0, 1, -1}
    while len(vals) < n:
        r = rng.random()
        if r < 0.4:
            vals.add(rng.randint(-60, 120))
        elif r < 0.7:
            vals.add(rng.choice([-60, -5, -1, 0, 1, 2, 3, 7, 12, 40, 100, 1000, 4999]) + rng.choice([-1, 0, 1]))
        else:
            vals.add(rng.randint(-50, 5000))
    return sorted(vals)


def gen_css_case(rng, odd):
    k = rng.choice([1, 2, 2, 3, 4, 5])
    pool = NAMES + (ODD_NAMES if odd else [])
    names = rng.sample(pool, min(k, len(pool)))
    css = '\n'.join(gen_rule(rng, n, names, odd) for n in names)
    queries = []
    for n in names + [rng.choice(UA_NAMES), 'nosuch']:
        for v in gen_values(rng, rng.choice([24, 40])):
            queries.append([False, n, v])
        for v in rng.sample(range(-3, 12), 3):
            queries.append([True, n, v])
    return {'css': css, 'use_ua': True, 'queries': queries, 'odd': odd}


def gen_anon_case(rng):
    queries = []
    for _ in range(6):
        if rng.random() < 0.2:
            name = ['string', rng.choice(SYMS)]
        else:
            system = rng.choice(['cyclic', 'numeric', 'alphabetic', 'symbolic', 'fixed'])
            n = rng.choice([2, 3, 5]) if system in ('numeric', 'alphabetic') else rng.choice([1, 2, 3])
            name = ['symbols()', [system] + [rng.choice(SYMS) for _ in range(n)]]
        for v in gen_values(rng, 24):
            queries.append([rng.random() < 0.2, name, v])
    return {'css': None, 'use_ua': True, 'queries': queries, 'odd': True}


def gen_raw_style(rng, names):
    """a dictionary entry built directly: any shape the code could meet, including ones no stylesheet produces."""
    def sym():
        return ['string', rng.choice(SYMS)] if rng.random() < 0.9 else ['url', '']
    def opt(p, f):
        return f() if rng.random() < p else None
    kind = rng.choice(SYSTEMS + ['extends', 'extends', None, 'bogus'])
    if kind == 'extends':
        system = [True, rng.choice(names + ['decimal', 'nosuch']), None]
    elif kind is None:
        system = None
    else:
        system = [False, kind, rng.choice([1, 0, 5, -2]) if kind == 'fixed' and rng.random() < 0.9 else None]
    def rng_item():
        if rng.random() < 0.08:
            return 'auto'
        lo = rng.choice(['-inf', -20, -3, 0, 1, 5])
        hi = rng.choice(['inf', 30, 10, 5, 2])
        return [lo, hi]
    ws = sorted(rng.sample([100, 50, 10, 9, 5, 4, 2, 1, 0, -3], rng.choice([0, 1, 2, 3, 5])), reverse=True)
    if rng.random() < 0.1:
        rng.shuffle(ws)
    return {
        'system': system,
        'negative': opt(0.4, lambda: [sym(), sym()]),
        'prefix': opt(0.3, sym), 'suffix': opt(0.3, sym),
        'range': opt(0.5, lambda: 'auto' if rng.random() < 0.2 else [rng_item() for _ in range(rng.choice([1, 1, 2]))]),
        'pad': opt(0.4, lambda: [rng.choice([0, 2, 4, 7]), sym()]),
        'fallback': opt(0.6, lambda: rng.choice(names + ['decimal', 'nosuch'])),
        'symbols': opt(0.8, lambda: [sym() for _ in range(rng.choice([0, 1, 2, 2, 3, 4]))]),
        'additive_symbols': opt(0.6, lambda: [[w, sym()] for w in ws]),
    }


DECIMAL = {'system': [False, 'numeric', None], 'negative': None, 'prefix': None, 'suffix': None, 'range': None,
           'pad': None, 'fallback': None, 'symbols': [['string', str(i)] for i in range(10)], 'additive_symbols': None}


def gen_raw_case(rng):
    names = rng.sample(['a', 'b', 'c', 'd', 'numeric', 'symbolic'], rng.choice([1, 2, 3, 4]))
    raw = [[n, gen_raw_style(rng, names)] for n in names]
    r = rng.random()
    if r < 0.75:
        raw.append(['decimal', DECIMAL])
    elif r < 0.9:
        raw.append(['decimal', gen_raw_style(rng, names)])
    queries = []
    for n in names + ['decimal', 'nosuch']:
        for v in gen_values(rng, 20):
            queries.append([rng.random() < 0.15, n, v])
    return {'css': None, 'raw': raw, 'use_ua': False, 'queries': queries, 'odd': True}


# --------------------------------------------------------------------------------- stream driver

def run_style_cases(run, stream, tag, cases, base_entries, with_spec, per_file):
    """cases: impl cases (dicts).  Returns number of queries evaluated."""
    outs = common.run_impl('impl_c15', 'render_queries', cases, limit=120, chunksize=2)
    coq, kept = [], []
    for c, (st, o) in zip(cases, outs):
        if st != 'ok':
            run.fail('render_queries harness call failed: %s' % (o,), {'stream': stream, 'case': c, 'outcome': o},
                     signature='c15:harness')
            continue
        c = dict(c, user=o['user'], outs=o['outs'])
        kept.append(c)
        coq.append(caselit(o['user'], with_spec and not c.get('nospec'), c['queries'], o['outs']))
    pre = PRE_STYLE + 'Definition base : styles :=\n %s.\n' % styleslit(base_entries)
    try:
        res = common.eval_cases(tag, pre, CASE_T, coq, 'judge_case base', per_file=per_file)
    except RuntimeError as exc:
        run.oblige('corr:' + stream, False, str(exc))
        return 0
    mism, nq = [], 0
    sigs = {}
    for c, r in zip(kept, res):
        nq += len(c['queries'])
        mask, first = r % 4, r // 4
        if mask == 0:
            continue
        # locate the failing queries of this case precisely (re-evaluated one by one only when needed)
        qi = first - 1
        query, out = c['queries'][qi], c['outs'][qi]
        data = {'stream': stream, 'css': c.get('css'), 'raw': c.get('raw'), 'use_ua': c.get('use_ua', True),
                'user': c['user'], 'query': query, 'impl': out, 'mask': mask}
        if mask & 1:
            mism.append(data)
        if mask & 2:
            sig = classify(c['user'], query, out)
            if sig is None or sig not in sigs:
                sigs[sig] = data
    run.oblige('corr:%s(model = counters.py, strings compared)' % stream, not mism,
               'first disagreements: %s' % json.dumps(mism[:2])[:3000])
    for sig, data in sigs.items():
        what = {
            'c15:range-auto-valueerror': 'a counter style with `range: auto` makes render_value raise ValueError',
            'c15:extends-with-symbols-indexerror': 'IndexError in render_value for an extending style with an empty symbols descriptor',
            'c15:extends-with-symbols-accepted': '@counter-style with `system: extends` and symbols/additive-symbols is not rejected',
            'c15:additive-negative-fallback-abs': 'negative value not representable by an additive style: the fallback style renders the absolute value',
            'c15:style-named-like-a-system': 'a counter style whose name is a system keyword confuses the fallback cycle detection',
            'c15:extends-ancestors-in-fallback-cycle-list': 'the styles met while resolving `extends` count as already tried when following fallbacks (decimal is used instead of the fallback style)',
        }.get(sig, 'render_value output differs from CSS Counter Styles 3')
        run.fail('%s: %s(%s) printed %r' % (what, data['query'][1], data['query'][2], data['impl']), data,
                 signature=sig)
    return nq


def ua_cases(rng, ua, thorough):
    cases = []
    for name, _ in ua:
        if thorough:
            vals = list(range(-50, 5001))
        else:
            vals = set(range(-50, 131)) | {3998, 3999, 4000, 4001, 9998, 9999, 10000, 4999, 5000, 999, 1000, 1001,
                                           19999, 20000, 10999, 11000, -9999, -10000}
            vals |= set(rng.sample(range(131, 5001), 120))
            vals = sorted(vals)
        for i in range(0, len(vals), 320):
            chunk = vals[i:i + 320]
            cases.append({'css': None, 'use_ua': True, 'queries': [[False, name, v] for v in chunk]})
        cases.append({'css': None, 'use_ua': True, 'queries': [[True, name, v] for v in (-2, 0, 1, 7, 12, 4000)]})
    return cases


def check(run):
    rng = random.Random(run.seed * 7919 + 15)
    thorough = run.tier == 'thorough'
    common.prove(run, 'C15', ['model/C15Style.vo', 'model/C15StyleSpec.vo'])
    run.trusted += ['Coq 8.16.1 kernel (coqc); vm_compute for the cases.v evaluation',
                    'harness/p_c15.py printers of dictionary entries as Coq terms; harness/impl_c15.py']
    # ---- stream a: predefined styles
    (st, ua), = common.run_impl('impl_c15', 'ua_dump', [None])
    if st != 'ok':
        run.oblige('corr:ua-dump', False, str(ua))
        return
    cases = ua_cases(rng, ua, thorough)
    n = run_style_cases(run, 'ua-styles', 'c15ua', cases, ua, True, per_file=max(4, len(cases) // 64 + 1))
    run.count('ua-styles', n, [(c['queries'][0][1], c['queries'][0][2]) for c in cases],
              samples=[cases[0]['queries'][:3]])
    run.stream_info('ua-styles', styles=len(ua),
                    rule='every predefined counter style of the UA sheet, values -50..5000 '
                         + ('exhaustively' if thorough else '(-50..130 dense, boundaries, 120 random)')
                         + ', render_value and render_marker called directly; strings compared with the model and the spec')
    # ---- stream b: random @counter-style rules through the real parser + validators; anonymous styles; raw dicts
    ncss = 1200 if thorough else 150
    cases = [gen_css_case(rng, odd=(i % 3 == 2)) for i in range(ncss)]
    cases += [gen_anon_case(rng) for _ in range(ncss // 10)]
    n = run_style_cases(run, 'random-counter-style', 'c15cs', cases, ua, True, per_file=max(2, len(cases) // 64 + 1))
    run.count('random-counter-style', n, [c['css'] for c in cases], samples=[cases[0]['css'], cases[2]['css']])
    run.stream_info('random-counter-style',
                    rule='1-5 @counter-style rules per case (all systems, extends chains and cycles, range lists, '
                         'negative, pad, prefix/suffix, fallback chains and cycles; every third case also odd names and '
                         'descriptor combinations), parsed by weasyprint.CSS into the CounterStyle dictionary; '
                         '~30 values per style incl. range bounds +-1; symbols() / string styles')
    cases = [gen_raw_case(rng) for _ in range(800 if thorough else 100)]
    n = run_style_cases(run, 'raw-dictionaries', 'c15raw', cases, [], False, per_file=max(2, len(cases) // 64 + 1))
    run.count('raw-dictionaries', n, [json.dumps(c['raw']) for c in cases], samples=[cases[0]['raw'][:1]])
    run.stream_info('raw-dictionaries', rule='CounterStyle filled directly with arbitrary entries (missing descriptors, '
                    'bogus systems, odd decimal): exceptions and non-termination must agree with the model too')


def replay(data):
    d = data.get('data', {})
    if d.get('stream') in ('ua-styles', 'random-counter-style', 'raw-dictionaries'):
        case = {'css': d.get('css'), 'raw': d.get('raw'), 'use_ua': d.get('use_ua', True), 'queries': [d['query']]}
        (st, o), = common.run_impl('impl_c15', 'render_queries', [case])
        print('replay: implementation returns', o['outs'] if st == 'ok' else o)
        if st != 'ok':
            return 1
        base = []
        if case['use_ua']:
            (_, base), = common.run_impl('impl_c15', 'ua_dump', [None])
        pre = PRE_STYLE + 'Definition base : styles :=\n %s.\n' % styleslit(base)
        res = common.eval_cases('c15replay', pre, CASE_T,
                                [caselit(o['user'], d.get('stream') != 'raw-dictionaries', case['queries'], o['outs'])],
                                'judge_case base')
        print('judge mask (1 = model differs, 2 = spec differs):', res[0] % 4)
        return 1 if res[0] else 0
    print('nothing to replay for', d.get('stream'))
    return 0
